"""C07 — parallel multiway merge: definite initialisation of the split tables, zero-length
early return, exact input advancement, last-slab end, fork/join, worker writes,
Stable propagation, fallback condition agreement.

Verdict policy of this file: a violation is reported only on positive evidence - a configuration of the evaluated
skeleton, a CFG path, a grid point, a valuation of a decision table.  Where a shape is not recognised the rule raises
dtable.Undecidable (exit 2); absence is concluded only in a closed world (every operation on the object is classified)."""
import os
import re

from engine import ir, dtable, match, skel, cfg as cfgm
from engine.ir import kids, strip_casts, const_int, ref_of
from engine.normalize import lvalue_root

BASE = "tlx::parallel_multiway_merge_base"
EXACT = "tlx::multiway_merge_exact_splitting"
FRONT = {"tlx::parallel_multiway_merge": ("false", "false"), "tlx::stable_parallel_multiway_merge": ("true", "false"),
         "tlx::parallel_multiway_merge_sentinels": ("false", "true"), "tlx::stable_parallel_multiway_merge_sentinels": ("true", "true")}
SPLITTERS = ("multiway_merge_exact_splitting", "multiway_merge_sampling_splitting")
LOOPS = ("ForStmt", "WhileStmt", "DoStmt")


def ancestors(fn, node):
    out = []
    par = fn.parent(node)
    while par is not None:
        out.append(par)
        par = fn.parent(par)
    return out


def undecided(fn, node, what):
    return dtable.Undecidable("%s: %s at line %s: %s" % (fn.loc, what, node.get("l", "?"), dtable.describe(node)[:70]))


def readable(ex, *fns):
    """the same undecidable with the (very long) full signatures of the evaluated functions replaced by file:line"""
    msg = str(ex)
    for f in fns:
        if f is not None:
            msg = msg.replace(f.full, f.loc)
    return type(ex)(msg) if type(ex) in (dtable.Undecidable, skel.TooLong) else ex


def key_root(k):
    """the variable an element key ("elem", base, index) of the skeleton lives in"""
    while isinstance(k, tuple) and len(k) == 3 and k[0] in ("elem", "member"):
        k = k[1]
    return k


def is_fp(v):
    """("fp", container, offset): a position (pointer / iterator) in a flat watched container"""
    return isinstance(v, tuple) and len(v) == 3 and v[0] == "fp"


def is_closure(v):
    """("closure", lambda function, ((captured variable, value at the capture), ..)): a lambda object that is followed"""
    return isinstance(v, tuple) and len(v) == 3 and v[0] == "closure"


def assign_op(op):
    return op == "=" or (op.endswith("=") and op not in ("==", "!=", "<=", ">="))


def is_table(ty):
    """a container of containers: SimpleVector<std::vector<..>>, std::vector<std::vector<..>>"""
    ty = (ty or "").replace(" ", "")
    if ty.startswith("const"):
        ty = ty[5:]
    for outer in ("tlx::SimpleVector<", "std::vector<"):
        if ty.startswith(outer) and ty[len(outer):].startswith(("std::vector<", "tlx::SimpleVector<")):
            return True
    return False


def is_integer(ty):
    ty = ty or ""
    return any(t in ty for t in ("size_t", "unsigned", "int", "long", "short")) and not any(t in ty for t in ("*", "iterator", "<", "&&"))


_INT_WORDS = {"unsigned", "signed", "long", "int", "short", "char", "size_t", "std::size_t", "ptrdiff_t", "std::ptrdiff_t", "ssize_t"}


def scalar_int(ty):
    """the type is spelled as a builtin integer type (is_integer() goes by substrings and also accepts e.g. a record `Point`)"""
    words = (ty or "").replace("const ", " ").replace("volatile ", " ").split()
    return bool(words) and all(w in _INT_WORDS or re.fullmatch(r"(std::)?u?int(_fast|_least)?\d+_t", w) for w in words)


_MODS = {}


def modifications(fn, did, also=()):
    """every node of fn (and of the functions in `also`, e.g. a lambda) through which the variable may change: assignments,
    ++/--, its address being taken, the variable being bound to a reference parameter of a call"""
    key = (fn, did, tuple(also))
    if key not in _MODS:
        _MODS[key] = _modifications(fn, did, also)
    return _MODS[key]


def _modifications(fn, did, also):
    out = []
    for f in (fn,) + tuple(also):
        for y in f.nodes():
            if y["k"] in ("BinaryOperator", "CompoundAssignOperator", "CXXOperatorCallExpr"):
                b = match.binop(y)
                if b and assign_op(b[0]) and ref_of(b[1]) == did:
                    out.append(y)
                    continue
            u = match.unop(y, ("++", "--"))
            if u and ref_of(u[1]) == did:
                out.append(y)
            elif y["k"] == "UnaryOperator" and y.get("op") == "&" and ref_of(kids(y)[0]) == did:
                out.append(y)
            elif "callee" in y and y["k"] in ("CallExpr", "CXXMemberCallExpr", "CXXConstructExpr", "CXXTemporaryObjectExpr"):
                # the extractor elides lvalue-to-rvalue conversions: whether the argument is bound to a reference is told by the
                # parameter type of a project function; a library function is taken not to have integer out-parameters
                callee = fn.tu.by_did.get(y["callee"].get("did")) if getattr(fn, "tu", None) is not None else None
                args = kids(y)[(1 if y.get("member_call") else 0):]
                for i, a in enumerate(args):
                    if a is None or a["k"] != "DeclRefExpr" or a["ref"]["id"] != did or not a.get("lv"):
                        continue
                    if callee is not None and i < len(callee.params):
                        ty = (callee.params[i].get("ty") or "").rstrip()
                        if ty.endswith("&") and not ty.endswith("&&") and not ty.startswith("const "):
                            out.append(y)
                    elif callee is None and not is_integer(a.get("ty")):
                        out.append(y)
    return out


def stable_inits(fn, also=()):
    """locals that stand for their initialiser: initialised at the declaration and never changed afterwards"""
    out = {}
    for v in fn.nodes():
        if v["k"] == "VarDecl" and v.get("did") is not None and kids(v) and kids(v)[0] is not None and not modifications(fn, v["did"], also):
            out[v["did"]] = kids(v)[0]
    return out


class WatchSkel(skel.Skel):
    """a skeleton that does not lose track of the watched containers: a call that cannot be followed and is handed one of
    them (by reference, by pointer, as a whole or one of its rows) is undecidable instead of being skipped"""
    watched = frozenset()
    flat = frozenset()       # watched one-level containers: their elements are addressed through ("fp", container, offset) values

    def names_watched(self, d):
        """the declaration is a watched container or a reference into one"""
        return key_root(self.alias.get(d, d)) in self.watched

    def tainted(self, v, seen=()):
        """the value leads into a watched container: a pointer to a part of it, a position in a flat one, a closure that
        captured such a value or that names the container / a variable holding such a value"""
        if not isinstance(v, tuple):
            return False
        if len(v) == 2 and v[0] == "ptr":
            return key_root(v[1]) in self.watched
        if is_fp(v):
            return v[1] in self.watched
        if is_closure(v):
            if v[1] in seen:
                return False
            if any(self.tainted(x, seen + (v[1],)) for _, x in v[2]):
                return True
            lf = self.tu.by_did.get(v[1]) if self.tu is not None else None
            if lf is None:
                return True
            byval = {c for c, _ in v[2]}
            for y in lf.nodes():
                if y["k"] == "DeclRefExpr" and y["ref"]["id"] not in byval:
                    d = y["ref"]["id"]
                    if self.names_watched(d) or self.tainted(self.env.get(self.alias.get(d, d)), seen + (v[1],)):
                        return True
        return False

    def touches(self, e):
        for y in ir.walk(e):
            if y["k"] != "DeclRefExpr":
                continue
            k = self.alias.get(y["ref"]["id"], y["ref"]["id"])
            if key_root(k) in self.watched:
                return True
            if self.tainted(self.env.get(k)):
                return True
        return False

    def lvalue(self, e):
        """one more kind of place: the element a position in a flat watched container stands for (*p, p[i])"""
        e0 = strip_casts(e)
        while e0 is not None and e0["k"] == "ParenExpr":
            e0 = strip_casts(kids(e0)[0])
        if self.flat and e0 is not None:
            op = match.deref_of(e0)
            if op is not None and self.touches(op):
                a = self.ev(op)
                if is_fp(a):
                    return ("elem", a[1], a[2])
                if isinstance(a, tuple) and len(a) == 2 and a[0] == "ptr":
                    return a[1]
                return None
            ip = match.index_parts(e0)
            if ip and self.touches(ip[0]):
                bty = (strip_casts(ip[0]).get("ty") or "").rstrip()
                if bty.endswith("*") or "iterator" in bty.split("<")[0] or ref_of(ip[0]) is None:
                    a = self.ev(ip[0])
                    if is_fp(a):
                        idx = self.ev(ip[1])
                        return ("elem", a[1], a[2] + idx) if isinstance(idx, int) and not isinstance(idx, bool) else None
                    if ref_of(ip[0]) is None:
                        return None
        return super().lvalue(e)

    on_decl = None

    def stmt(self, s):
        super().stmt(s)
        if self.flat and self.on_decl is not None and s is not None and s["k"] == "DeclStmt":
            for v in kids(s):
                if v["k"] == "VarDecl" and v.get("did") in self.flat:
                    self.on_decl(v, self)

    def fp_alg(self, op, a, b, e):
        """arithmetic of positions in a flat container: p + n, n + p, p - n, p - q, comparisons of positions in one container"""
        ia = isinstance(a, int) and not isinstance(a, bool)
        ib = isinstance(b, int) and not isinstance(b, bool)
        if is_fp(a) and ib and op in ("+", "-"):
            return ("fp", a[1], a[2] + (b if op == "+" else -b))
        if is_fp(b) and ia and op == "+":
            return ("fp", b[1], b[2] + a)
        if is_fp(a) and is_fp(b) and a[1] == b[1]:
            if op == "-":
                return a[2] - b[2]
            if op in ("<", "<=", ">", ">=", "==", "!="):
                return {"<": a[2] < b[2], "<=": a[2] <= b[2], ">": a[2] > b[2], ">=": a[2] >= b[2], "==": a[2] == b[2], "!=": a[2] != b[2]}[op]
        if is_fp(a) or is_fp(b):
            raise undecided(self.fn, e, "arithmetic on a position in the split table not understood")
        return NotImplemented

    def call_closure(self, clo, e, args):
        """runs the body of a lambda whose closure is followed: by-value captures have the values they had when the closure
        was made, everything else is the caller's state"""
        lf = self.tu.by_did.get(clo[1]) if self.tu is not None else None
        if lf is None or lf.body is None or self.depth >= 5 or len(args) != len(lf.params):
            raise undecided(self.fn, e, "call of a lambda that cannot be followed")
        for cid, _ in clo[2]:
            if modifications(lf, cid):
                raise undecided(self.fn, e, "the lambda changes its own copy of a captured variable")
        saved_alias = dict(self.alias)
        missing = object()
        bound = []
        for p, a in zip(lf.params, args):
            ty = (p.get("ty") or "").rstrip()
            key = self.lvalue(a) if ty.endswith("&") else None
            if ty.endswith("&") and not ty.endswith("&&") and "const" not in ty.split("<")[0] and key is None:
                raise undecided(self.fn, e, "reference argument of a lambda call not understood")
            bound.append((p["did"], key, None if key is not None else self.ev(a)))
        saved_env = {d: self.env.get(d, missing) for d in [c for c, _ in clo[2]] + [d for d, _, _ in bound]}
        for d, key, val in bound:
            self.alias.pop(d, None)
            if key is not None:
                self.alias[d] = key
            else:
                self.env[d] = val
        for cid, val in clo[2]:
            self.alias.pop(cid, None)
            self.env[cid] = val
        self.depth += 1
        saved_fn = self.fn
        self.fn = lf
        try:
            self.run(kids(lf.body))
            ret = None
        except skel.Return as r_:
            ret = r_.v
        finally:
            self.fn = saved_fn
            self.depth -= 1
            self.alias = saved_alias
            for d, val in saved_env.items():
                if val is missing:
                    self.env.pop(d, None)
                else:
                    self.env[d] = val
        return ret

    def object_key(self, e, arrow=False):
        """key of the object a member function is called on (obj.f() / ptr->f())"""
        if not arrow:
            return self.lvalue(e)
        d = ref_of(e)
        if d is not None:
            v = self.load(self.alias.get(d, d))
            return v[1] if isinstance(v, tuple) and len(v) == 2 and v[0] == "ptr" else None
        e0 = strip_casts(e)
        if e0 is not None and e0["k"] == "UnaryOperator" and e0.get("op") == "&":
            return self.lvalue(kids(e0)[0])
        return None

    def inline(self, e, args):
        r = super().inline(e, args)
        if r is NotImplemented:
            for a in args:
                if a is not None and self.touches(a):
                    raise undecided(self.fn, e, "the split table is handed to a call that cannot be followed")
        return r


def below(key, top):
    """key is a part (element, data member, at any depth) of the object at top"""
    while isinstance(key, tuple) and len(key) == 3 and key[0] in ("elem", "member"):
        key = key[1]
        if key == top:
            return True
    return False


def rel(key, top):
    """the steps that lead from the object at top to its part key"""
    steps = []
    while key != top:
        steps.append((key[0], key[2]))
        key = key[1]
    return tuple(reversed(steps))


def rebase(top, steps):
    for kind, name in steps:
        top = (kind, top, name)
    return top


def subscript_only_arrays(*fns):
    """local arrays of integers that are used through subscripts only (arr[i]), the element neither having its address taken
    nor being bound to a reference: their elements are places of their own that nothing else can reach"""
    out = set()
    for f in fns:
        if f is None:
            continue
        arrays = {v["did"] for v in f.nodes() if v["k"] == "VarDecl" and v.get("did") is not None and (v.get("ty") or "").rstrip().endswith("]")}
        tu = getattr(f, "tu", None)

        def up(x):
            par = f.parent(x)
            while par is not None and par["k"] in ("ImplicitCastExpr", "ParenExpr"):
                x, par = par, f.parent(par)
            return x, par
        for y in f.nodes():
            if y["k"] != "DeclRefExpr" or y["ref"]["id"] not in arrays:
                continue
            d = y["ref"]["id"]
            x, par = up(y)
            if par is None or par["k"] != "ArraySubscriptExpr" or kids(par)[0] is not x or not scalar_int(par.get("ty")):
                arrays.discard(d)
                continue
            x, par = up(par)
            if par is None:
                continue
            if (par["k"] == "UnaryOperator" and par.get("op") == "&") or par["k"] in ("LambdaExpr", "CXXForRangeStmt") or \
                    (par["k"] == "VarDecl" and (par.get("ty") or "").rstrip().endswith("&")):
                arrays.discard(d)
            elif "callee" in par:
                # bound to a reference parameter?  told by the parameter type of a project function; of the library only
                # operators, conversions and a few functions that are known to take values are accepted
                callee = tu.by_did.get(par["callee"].get("did")) if tu is not None else None
                if callee is not None:
                    member = par.get("member_call") or (par["k"] == "CXXOperatorCallExpr" and len(kids(par)) == len(callee.params) + 1)
                    args = kids(par)[(1 if member else 0):]
                    i = next((i for i, a in enumerate(args) if a is x), None)
                    pty = (callee.params[i].get("ty") or "").rstrip() if i is not None and i < len(callee.params) else "&"
                    if pty.endswith("&") and not pty.endswith("&&") and not pty.startswith("const "):
                        arrays.discard(d)
                elif not (par["k"] in ("CXXOperatorCallExpr", "CXXConstructExpr", "CXXTemporaryObjectExpr") and not assign_op(par.get("op") or "") and
                          par.get("op") not in ("++", "--")) and par["callee"]["name"] not in ("min", "max", "clamp", "next", "prev", "abs") and \
                        par["callee"].get("qname") != "std::swap":          # std::swap is evaluated by SlabEval
                    arrays.discard(d)
        for g in fns:               # an array that a lambda captures is used in a way that is not followed here
            if g is not None and g is not f:
                arrays -= {y["ref"]["id"] for y in g.nodes() if y["k"] == "DeclRefExpr"}
        out |= arrays
    return frozenset(out)


class ObjSkel(skel.Skel):
    """the skeleton with two more kinds of places: a data member of an object that has a place (slab.length, slabs[i].length,
    p->length) and an element of a local array that is used through subscripts only.  A store to a whole object forgets what
    was known about its parts; an object with known parts that is handed to a call which cannot be followed is undecidable."""
    own_arrays = frozenset()
    CONST_CALLS = ("size", "empty", "begin", "end", "cbegin", "cend")
    VALUE_CALLS = ("min", "max", "clamp", "next", "prev", "abs", "distance", "make_pair")

    def lvalue(self, e):
        e0 = strip_casts(e)
        while e0 is not None and e0["k"] == "ParenExpr":
            e0 = strip_casts(kids(e0)[0])
        if e0 is not None and e0["k"] == "MemberExpr" and kids(e0) and e0.get("member") and not match.this_field(e0):
            if e0.get("arrow"):
                p = self.ev(kids(e0)[0])
                base = p[1] if isinstance(p, tuple) and len(p) == 2 and p[0] == "ptr" else None
            else:
                base = self.lvalue(kids(e0)[0])
            return ("member", base, e0["member"]) if base is not None else None
        ip = match.index_parts(e0) if e0 is not None else None
        if ip and ref_of(ip[0]) in self.own_arrays and e0["k"] == "ArraySubscriptExpr":
            idx = self.ev(ip[1])
            return ("elem", ref_of(ip[0]), idx) if isinstance(idx, int) and not isinstance(idx, bool) else None
        return super().lvalue(e)

    def ev(self, e):
        e0 = match.strip_conv(e)
        if e0 is not None and e0["k"] == "MemberExpr" and kids(e0) and e0.get("member") and not match.this_field(e0):
            if self.event is not None:
                r = self.event(e0, self)
                if r is not NotImplemented:
                    return r
            key = self.lvalue(e0)
            if key is not None and key in self.env and self.env[key] is not None:
                return self.env[key]
            if key is not None and self.has_parts(key):
                return self.snapshot(key)
            return self.unknown(e0, self) if self.unknown else None
        r = super().ev(e)
        if r is None and e0 is not None and (e0["k"] == "DeclRefExpr" or match.index_parts(e0)) and not scalar_int(e0.get("ty")) and \
                any(isinstance(k, tuple) and len(k) == 3 and k[0] == "member" for k in self.env):
            key = self.lvalue(e0)            # an object whose data members are known: its value is the values of its members
            if key is not None and self.has_parts(key):
                return self.snapshot(key)
        return r

    def snapshot(self, key):
        return ("obj", tuple(sorted(((rel(k, key), v) for k, v in self.env.items() if below(k, key)), key=repr)))

    def expand(self, key):
        """the object at key was given the value of another object: its parts are the parts of that one"""
        v = self.env.get(key)
        if isinstance(v, tuple) and len(v) == 2 and v[0] == "obj":
            self.env[key] = None
            for steps, val in v[1]:
                self.env[rebase(key, steps)] = val

    def has_parts(self, key):
        return any(below(k, key) for k in self.env)

    lost = None

    def store(self, key, v):
        if key is None and self.lost is not None:
            self.lost.append(v)
        if key is not None:
            for k in [k for k in self.env if below(k, key)]:
                del self.env[k]
        super().store(key, v)
        if key is not None:
            self.expand(key)

    def stmt(self, s):
        if s is not None and s["k"] == "DeclStmt":          # a new object: nothing is known about its parts
            for v in kids(s):
                if v["k"] == "VarDecl":
                    for k in [k for k in self.env if below(k, v.get("did"))]:
                        del self.env[k]
        super().stmt(s)
        if s is not None and s["k"] == "DeclStmt":
            for v in kids(s):
                if v["k"] == "VarDecl" and v.get("did") in self.env:
                    self.expand(v["did"])

    def inline(self, e, args):
        r = super().inline(e, args)
        if r is NotImplemented and not match.index_parts(e) and not (e.get("member_call") and e["callee"]["name"] in self.CONST_CALLS):
            for a in args:
                for y in ir.walk(a):
                    if y["k"] != "DeclRefExpr":
                        continue
                    k = self.alias.get(y["ref"]["id"], y["ref"]["id"])
                    v = self.env.get(k)
                    for top in (key_root(k), key_root(v[1]) if isinstance(v, tuple) and len(v) == 2 and v[0] == "ptr" else None):
                        if top is not None and any(k2[0] == "member" and key_root(k2) == top for k2 in self.env if isinstance(k2, tuple) and len(k2) == 3):
                            raise undecided(self.fn, e, "an object whose data members are followed is handed to a call that cannot be followed")
            # a place whose value is followed, handed over as it stands: whether the call changes it (std::swap, std::fill, an
            # out-parameter) is not known - except for operators, conversions and a few functions known to take values
            if e["k"] not in ("CXXOperatorCallExpr", "CXXConstructExpr", "CXXTemporaryObjectExpr") and e["callee"]["name"] not in self.VALUE_CALLS:
                for a in args:
                    a0 = strip_casts(a)
                    if a0 is None or not (a0["k"] in ("DeclRefExpr", "MemberExpr", "ArraySubscriptExpr") or match.index_parts(a0) or match.deref_of(a0)):
                        continue
                    k = self.lvalue(a0)
                    if k is not None and (self.env.get(k) is not None or self.has_parts(k)):
                        raise undecided(self.fn, e, "a variable whose value is followed is handed to a call that cannot be followed")
        return r


NSEQ = 2                 # the number of sequences in the evaluated configurations (seqs_end - seqs_begin)


def flat_container(ty):
    """a one-level container (std::vector<E>, tlx::SimpleVector<E>) whose elements are neither containers nor integers"""
    t = (ty or "").strip()
    if t.startswith("const "):
        t = t[6:].strip()
    if is_table(t):
        return False
    for outer in ("tlx::SimpleVector<", "std::vector<"):
        if t.startswith(outer) and t.endswith(">"):
            el = t[len(outer):-1].strip()
            return bool(el) and not scalar_int(el) and el not in ("bool", "float", "double", "long double") and \
                not el.startswith(("std::vector<", "tlx::SimpleVector<"))
    return False


def closure_variable(fn, e):
    """the lambda expression is the initialiser of a local variable (the closure is then followed through that variable)"""
    par = fn.parent(e)
    while par is not None and par["k"] in ("ImplicitCastExpr", "ExprWithCleanups", "MaterializeTemporaryExpr", "CXXBindTemporaryExpr", "ParenExpr",
                                           "CXXConstructExpr", "CXXFunctionalCastExpr"):
        if par["k"] == "CXXConstructExpr" and len([a for a in kids(par) if a is not None and a["k"] != "DefaultArg"]) != 1:
            return False
        par = fn.parent(par)
    return par is not None and par["k"] == "VarDecl" and not (par.get("ty") or "").rstrip().endswith("&")


def check_exact(ck, tu, fn, raw=None):
    """SPLIT-DEFINITE-INIT: every row of the split table that is read when the chunks are cut was sized and filled by a
    partition before, for every number of threads and for size == total as well as size < total.  Decided by evaluating
    the function's index skeleton (thread count, tightness, loop indices) for T = 1..4 and both tightness values.  The
    table is followed in a closed world: sizing (resize), filling (the partition writing through row.begin()) and element
    reads are the classified operations, reference / pointer aliases of rows, helpers that can be inlined and lambdas held
    in a local are followed, every other use of the table is undecidable.  The table may also be one flat container that
    is constructed with all its elements; the partition then fills the NSEQ elements from the position it is handed.
    `raw` yields the function as it was extracted, before the normaliser rewrote it: where the rewritten function cannot
    be decided the original one is evaluated (both are the same code; a verdict on either is a verdict on the function)."""
    tag = "exact_splitting<%s>" % fn.targs[0]
    try:
        res = exact_verdict(tu, fn)
    except ir.AnalysisBroken as ex:
        twin = raw(fn) if raw is not None and getattr(fn, "normalized", False) else None
        if twin is None:
            raise
        try:
            res = exact_verdict(twin[0], twin[1])
        except ir.AnalysisBroken:
            raise ex
    if res[0] == "bad":
        _, T, tight, label, e, why = res
        ck.violation("SPLIT-DEFINITE-INIT", fn.qname, tag + ":row", "with %d thread%s and size %s total, %s of the split table %s"
                     % (T, "" if T == 1 else "s", "==" if tight else "<", label, why), fn.nloc(e))
        return
    ck.ok("SPLIT-DEFINITE-INIT", tag, "every row read while cutting the chunks was sized and filled before, for T = 1..4, size == total and size < total "
          "(%d reads, %d fills over the 8 configurations)" % (res[1], res[2]))


def exact_verdict(tu, fn):
    """-> ("ok", reads, fills) | ("bad", T, tight, "row r" / "element i", node, why)"""
    seqs_b, seqs_e = fn.params[0]["did"], fn.params[1]["did"]
    sizep, totalp, nthreads = fn.params[2]["did"], fn.params[3]["did"], fn.params[6]["did"]
    tdecls = [v for v in fn.nodes() if v["k"] == "VarDecl" and is_table(v.get("ty"))]
    fdecls = [v for v in fn.nodes() if v["k"] == "VarDecl" and v.get("did") is not None and flat_container(v.get("ty"))] if not tdecls else []
    tables = {v["did"] for v in tdecls}
    flat = {v["did"] for v in fdecls}
    if len(tables) != 1 and not (not tables and flat):
        raise ir.AnalysisBroken("%s: split table (simple_vector of vectors) not found" % fn.loc)
    counts = {}
    for v in tdecls + fdecls:
        ctor = [a for a in kids(kids(v)[0]) if a is not None and a["k"] != "DefaultArg"] if kids(v) and kids(v)[0] is not None and \
            kids(v)[0]["k"] in ("CXXConstructExpr", "CXXTemporaryObjectExpr") else []
        if len(ctor) != 1 or not is_integer(strip_casts(ctor[0]).get("ty")):
            raise undecided(fn, v, "the split table is not constructed from a row count alone")
        counts[v["did"]] = ctor[0]
    nreads = nfills = 0
    bad = None
    for T in (1, 2, 3, 4):
        for tight in (True, False):
            sized, filled, reads = set(), set(), []
            cells, flat_n, starts = set(), {}, set()      # flat table: filled elements, number of elements, positions handed to the partition

            def classify(key):
                """("table",) | ("row", r) | ("elem", r, s) | ("ftable", t) | ("cell", t, i) | None"""
                if key in tables:
                    return ("table",)
                if key in flat:
                    return ("ftable", key)
                if isinstance(key, tuple) and len(key) == 3 and key[0] == "elem":
                    if key[1] in tables:
                        return ("row", key[2])
                    if key[1] in flat and isinstance(key[2], int) and not isinstance(key[2], bool):
                        return ("cell", key[1], key[2])
                    if isinstance(key[1], tuple) and len(key[1]) == 3 and key[1][0] == "elem" and key[1][1] in tables:
                        return ("elem", key[1][2], key[2])
                return None

            def read_cell(what, e):
                n = flat_n.get(what[1])
                if n is None:
                    raise undecided(fn, e, "the split table is used before its declaration was evaluated")
                if not 0 <= what[2] < n:
                    why = "is read, which is outside the table (%d elements)" % n
                else:
                    why = None if (what[1], what[2]) in cells else "is read but was never filled"
                reads.append(("element %d" % what[2], e, why))

            def pointer_variable(sk, target):
                """(key, value) if the store target is a plain local that holds a position in the flat table"""
                d = ref_of(target)
                key = sk.alias.get(d, d) if d is not None else None
                if key is None or isinstance(key, tuple) or key in flat or key in tables:
                    return None
                old = sk.load(key)
                return (key, old) if is_fp(old) and old[1] in flat else None

            def declared(sk, d):
                return d in sk.env or d in sk.alias or any(p.get("did") == d for p in sk.fn.params) or \
                    any(v["k"] == "VarDecl" and v.get("did") == d for v in sk.fn.nodes())

            def event(e, sk):
                k = e["k"]
                if k == "LambdaExpr":
                    lf = tu.by_did.get(e.get("fn"))
                    caps = e.get("captures", [])
                    if lf is not None and lf.body is not None and all(c.get("id") is not None for c in caps) and closure_variable(sk.fn, e):
                        byval = []
                        for c in caps:
                            if c.get("byref"):
                                continue
                            if sk.names_watched(c["id"]):
                                raise undecided(sk.fn, e, "the split table is copied into a lambda")
                            if not declared(sk, c["id"]):
                                raise undecided(sk.fn, e, "the declaration of the captured variable %s is not in the function" % c.get("name"))
                            byval.append((c["id"], sk.load(sk.alias.get(c["id"], c["id"]))))
                        return ("closure", e["fn"], tuple(byval))
                    if lf is None or any(y["k"] == "DeclRefExpr" and (sk.names_watched(y["ref"]["id"]) or sk.touches(y)) for y in lf.nodes()) or \
                            any(sk.names_watched(c.get("id")) for c in caps):
                        raise undecided(sk.fn, e, "the split table is used inside a lambda")
                    return NotImplemented
                if k == "CXXOperatorCallExpr" and e.get("op") == "()" and kids(e) and ref_of(kids(e)[0]) is not None:
                    d0 = ref_of(kids(e)[0])
                    v0 = sk.load(sk.alias.get(d0, d0))
                    if is_closure(v0):
                        return sk.call_closure(v0, e, [a for a in kids(e)[1:] if a is not None and a["k"] != "DefaultArg"])
                if "callee" in e and e.get("member_call") and kids(e) and e["callee"]["name"] != "at" and sk.touches(kids(e)[0]):
                    what = classify(sk.object_key(kids(e)[0], e.get("arrow")))
                    name = e["callee"]["name"]
                    if what and what[0] == "row":
                        if name == "resize" and len(kids(e)) >= 2:
                            n = sk.ev(kids(e)[1])
                            if isinstance(n, int) and not isinstance(n, bool) and n == 0:
                                sized.discard(what[1])
                                filled.discard(what[1])
                            else:
                                sized.add(what[1])
                            return None
                        if name in ("size", "empty", "capacity", "reserve"):
                            return None
                        if name == "clear":
                            sized.discard(what[1])
                            filled.discard(what[1])
                            return None
                    if what and what[0] == "table" and name == "size":
                        return sk.env.get(next(iter(tables)))
                    if what and what[0] == "ftable" and what[1] in flat_n and len([a for a in kids(e)[1:] if a is not None and a["k"] != "DefaultArg"]) == 0:
                        n = flat_n[what[1]]
                        if name in ("data", "begin", "cbegin"):
                            return ("fp", what[1], 0)
                        if name in ("end", "cend"):
                            return ("fp", what[1], n)
                        if name == "size":
                            return n
                        if name == "empty":
                            return n == 0
                    raise undecided(sk.fn, e, "operation on the split table not understood")
                if "callee" in e and e["callee"]["name"] == "multisequence_partition":
                    for i, a_ in enumerate(kids(e)):
                        if a_ is None or not sk.touches(a_):
                            continue
                        if flat:
                            if i != 3 or ref_of(match.strip_conv(kids(e)[0])) != seqs_b or ref_of(match.strip_conv(kids(e)[1])) != seqs_e:
                                raise undecided(sk.fn, a_, "the partition receives the split table in a form that is not understood")
                            p = sk.ev(a_)
                            if not is_fp(p) or p[1] not in flat_n:
                                raise undecided(sk.fn, a_, "the partition receives the split table in a form that is not understood")
                            if p[2] < 0 or p[2] + NSEQ > flat_n[p[1]]:
                                reads.append(("element %d" % p[2], e, "is where the partition writes %d elements, which is outside the table (%d elements)"
                                              % (NSEQ, flat_n[p[1]])))
                            else:
                                cells.update((p[1], p[2] + j) for j in range(NSEQ))
                            starts.add((p[1], p[2]))
                            continue
                        z = match.strip_conv(a_)
                        what = None
                        if z is not None and "callee" in z and z.get("member_call") and z["callee"]["name"] == "begin" and len(kids(z)) == 1:
                            what = classify(sk.object_key(kids(z)[0], z.get("arrow")))
                        if not what or what[0] != "row":
                            raise undecided(sk.fn, a_, "the partition receives the split table in a form that is not understood")
                        if what[1] not in sized:
                            reads.append(("row %d" % what[1], e, "is written by the partition before it was sized"))
                        filled.add(what[1])
                    return None
                if k in ("BinaryOperator", "CompoundAssignOperator", "CXXOperatorCallExpr"):
                    b = match.binop(e)
                    if b and assign_op(b[0]) and sk.touches(b[1]):
                        pv = pointer_variable(sk, b[1]) if flat else None
                        if pv is not None and b[0] in ("=", "+=", "-="):
                            rhs = sk.ev(b[2])
                            new = rhs if b[0] == "=" else sk.fp_alg(b[0][0], pv[1], rhs, e)
                            if new is NotImplemented:
                                raise undecided(sk.fn, e, "arithmetic on a position in the split table not understood")
                            sk.store(pv[0], new)
                            return new
                        what = classify(sk.lvalue(b[1])) if b[0] == "=" and not flat else None
                        rhs = strip_casts(b[2])
                        cargs = [a for a in kids(rhs) if a is not None and a["k"] != "DefaultArg"] if rhs is not None and \
                            rhs["k"] in ("CXXConstructExpr", "CXXTemporaryObjectExpr") else []
                        if what and what[0] == "row" and len(cargs) == 1 and is_integer(strip_casts(cargs[0]).get("ty")) and not sk.touches(b[2]):
                            n = sk.ev(cargs[0])          # row = std::vector<It>(n): a fresh row of n elements
                            filled.discard(what[1])
                            if isinstance(n, int) and not isinstance(n, bool) and n == 0:
                                sized.discard(what[1])
                            else:
                                sized.add(what[1])
                            return None
                        raise undecided(sk.fn, e, "store into the split table not understood")
                u = match.unop(e, ("++", "--"))
                if u and sk.touches(u[1]):
                    pv = pointer_variable(sk, u[1]) if flat else None
                    if pv is not None:
                        new = ("fp", pv[1][1], pv[1][2] + (1 if u[0] == "++" else -1))
                        sk.store(pv[0], new)
                        return pv[1] if u[2] else new
                    raise undecided(sk.fn, e, "store into the split table not understood")
                ip = match.index_parts(e)
                if ip is not None and sk.touches(ip[0]):
                    what = classify(sk.lvalue(e))
                    if what and what[0] == "elem":
                        reads.append(("row %d" % what[1], e, None if what[1] in filled else "is read but was never filled"))
                        return None
                    if what and what[0] == "cell":
                        read_cell(what, e)
                        return None
                    raise undecided(sk.fn, e, "use of the split table not understood (a row as a whole, or a row index that depends on data)")
                if flat:
                    op_ = match.deref_of(e)
                    if op_ is not None and sk.touches(op_):
                        what = classify(sk.lvalue(e))
                        if what and what[0] == "cell":
                            read_cell(what, e)
                            return None
                        raise undecided(sk.fn, e, "use of the split table not understood")
                    if k == "UnaryOperator" and e.get("op") == "&" and sk.touches(kids(e)[0]):
                        what = classify(sk.lvalue(kids(e)[0]))
                        if what and what[0] == "cell":
                            return ("fp", what[1], what[2])
                        raise undecided(sk.fn, e, "use of the split table not understood")
                if k == "DeclRefExpr" and sk.names_watched(e["ref"]["id"]):
                    raise undecided(sk.fn, e, "use of the split table not understood")
                return NotImplemented

            def unknown(e, sk):
                b_ = match.binop(e, ("-",)) if e["k"] in ("BinaryOperator", "CXXOperatorCallExpr") else None
                if b_ and ref_of(b_[1]) == seqs_e and ref_of(b_[2]) == seqs_b:
                    return NSEQ
                if "callee" in e and e["callee"]["name"] == "distance" and len(kids(e)) == 2 and \
                        ref_of(match.strip_conv(kids(e)[0])) == seqs_b and ref_of(match.strip_conv(kids(e)[1])) == seqs_e:
                    return NSEQ
                return None

            def on_decl(v, sk):
                n = sk.ev(counts[v["did"]])
                if not isinstance(n, int) or isinstance(n, bool) or n < 0:
                    raise undecided(sk.fn, v, "the number of elements of the split table is not known")
                flat_n[v["did"]] = n                 # a new object: n value-initialised elements, none of them filled
                for c in [c for c in cells if c[0] == v["did"]]:
                    cells.discard(c)
            env = {nthreads: T, totalp: 6, sizep: 6 if tight else 4}
            sk = WatchSkel(fn, env, unknown, event, tu=tu)
            sk.watched = frozenset(tables | flat)
            sk.flat = frozenset(flat)
            sk.on_decl = on_decl
            sk.alg = sk.fp_alg
            try:
                sk.run(kids(fn.body))
            except skel.Return:
                pass
            except dtable.Undecidable as ex:
                raise readable(ex, fn)
            nreads += len([r for r in reads if r[2] is None])
            nfills += len(filled) + len(starts)
            for v, e, why in reads:
                if why and bad is None:
                    bad = (T, tight, v, e, why)
    if bad:
        return ("bad",) + bad
    if nreads == 0 or nfills == 0:
        raise ir.AnalysisBroken("%s: no reads / fills of the split table seen" % fn.loc)
    return ("ok", nreads, nfills)


IAM = 3                  # the slab index used when a per-slab fragment is evaluated
UNSET = ("unset",)       # value of a variable of the enclosing function that this slab has not set (takes no part in arithmetic)
TGT = 1000000            # stands for the output iterator `target`


def int_vector_stores(fn):
    """stores `vec[j] = expr` into local std::vector<integral> in fn, and stores into a data member of an element of a local
    container of records (vec[j].f = expr, also through a reference / pointer local that names vec[j]) -> {vec did: [store nodes]}"""
    stores = {}
    for z in fn.nodes():
        b = match.binop(z, ("=",)) if z["k"] in ("BinaryOperator", "CXXOperatorCallExpr") else None
        if b:
            ip = match.index_parts(b[1])
            if ip and ir.ref_of(ip[0]) is not None and "vector" in (strip_casts(ip[0]).get("ty") or "").lower():
                stores.setdefault(ir.ref_of(ip[0]), []).append(z)
            elif not ip:
                # a data member of an element, the element named directly or by a reference local: vec[j].f = .., r.f = ..
                rec = record_element(fn, b[1])
                if rec:
                    stores.setdefault(rec[0], []).append(z)
        # an element handed to a helper by address: helper(&vec[j])
        if z["k"] == "UnaryOperator" and z.get("op") == "&":
            ip = match.index_parts(kids(z)[0])
            if ip and ir.ref_of(ip[0]) is not None and "vector" in (strip_casts(ip[0]).get("ty") or "").lower() and \
                    any(t in (strip_casts(ip[0]).get("ty") or "") for t in ("<long", "<int", "<unsigned", "<size_t", "<std::ptrdiff")):
                stores.setdefault(ir.ref_of(ip[0]), []).append(z)
    return stores


def local_decls(fn):
    if not hasattr(fn, "_c07_decls"):
        fn._c07_decls = {v["did"]: v for v in fn.nodes() if v["k"] == "VarDecl" and v.get("did") is not None}
    return fn._c07_decls


def record_element(fn, lhs):
    """(container did, index expr) if lhs is a data member of an element of a local container of records, the element written
    as vec[j] or named by a reference local bound to vec[j] (a reference is never rebound): vec[j].f, r.f"""
    decls = local_decls(fn)
    e = strip_casts(lhs)
    fields, arrow = 0, False
    for _ in range(8):
        f = match.field_of(e)
        if f and not match.this_field(e):
            arrow = bool(e.get("arrow"))
            e, fields = strip_casts(f[0]), fields + 1
            continue
        d = ref_of(e)
        if d in decls and (decls[d].get("ty") or "").rstrip().endswith("&") and not (decls[d].get("ty") or "").rstrip().endswith("&&") and \
                kids(decls[d]) and kids(decls[d])[0] is not None:
            e = strip_casts(kids(decls[d])[0])
            continue
        if d in decls and (decls[d].get("ty") or "").rstrip().endswith("*") and kids(decls[d]) and kids(decls[d])[0] is not None and \
                arrow and not modifications(fn, d):
            a = strip_casts(kids(decls[d])[0])          # p->f with a never-changed pointer local p = &vec[j]
            if a is not None and a["k"] == "UnaryOperator" and a.get("op") == "&":
                e = strip_casts(kids(a)[0])
                continue
        break
    ip = match.index_parts(e)
    d = ref_of(ip[0]) if ip else None
    if not fields or d not in decls:
        return None
    ty = (decls[d].get("ty") or "").replace("const ", "").strip()
    if ty.startswith(("std::vector<", "tlx::SimpleVector<", "std::array<")) or ty.endswith("]"):
        return d, ip[1]
    return None


def store_index(fn, z):
    """the index expression of a store found by int_vector_stores"""
    b = match.binop(z, ("=",)) if z["k"] in ("BinaryOperator", "CXXOperatorCallExpr") else None
    ip = match.index_parts(b[1]) if b else (match.index_parts(kids(z)[0]) if z["k"] == "UnaryOperator" else None)
    if b and not ip:
        rec = record_element(fn, b[1])
        return rec[1] if rec else None
    return ip[1] if ip else None


def slab_loops(fn, stores):
    """the loops of fn whose body fills the per-slab vectors, in program order: [(loop, index var did)].  The index variable
    is the one declared in a for-loop's init statement or, for the other loop forms, the variable that indexes the store
    and is stepped inside the loop."""
    order = {n["id"]: i for i, n in enumerate(fn.nodes())}
    out = []

    def add(z, index):
        loops = [a for a in ancestors(fn, z) if a["k"] in LOOPS]
        if not loops or any(l is loops[-1] for l, _ in out):
            return
        lp = loops[-1]
        init = match.loop_parts(lp)[0]
        vs = [x["did"] for x in ir.walk(init) if x["k"] == "VarDecl"] if init is not None else []
        if len(vs) != 1:
            d = ref_of(index) if index is not None else None
            stepped = d is not None and any(match.unop(y, ("++", "--")) and ref_of(match.unop(y, ("++", "--"))[1]) == d or
                                            (y["k"] in ("BinaryOperator", "CompoundAssignOperator") and assign_op(y.get("op") or "") and ref_of(kids(y)[0]) == d)
                                            for y in ir.walk(lp))
            vs = [d] if stepped else []
        if len(vs) == 1:
            out.append((lp, vs[0]))
    for vec, sts in stores.items():
        for z in sts:
            add(z, store_index(fn, z))
    # a further loop over the slabs that only reads the per-slab vectors (e.g. to find the last slab that merges anything)
    filled = {vec for vec, sts in stores.items() if any(any(inside_of(z, l) for l, _ in out) for z in sts)}
    for z in fn.nodes():
        ip = match.index_parts(z)
        if ip and ref_of(ip[0]) in filled and ref_of(ip[1]) is not None:
            add(z, ip[1])
    out.sort(key=lambda t: order.get(t[0]["id"], 0))
    return out


def part_stores(*fns):
    """stores into a part of a variable (an element, a data member): [(declaration id of the variable, store node)]"""
    out = []
    for f in fns:
        if f is None:
            continue
        for y in f.nodes():
            b = match.binop(y) if y["k"] in ("BinaryOperator", "CompoundAssignOperator", "CXXOperatorCallExpr") else None
            u = match.unop(y, ("++", "--")) if not b else None
            lhs = b[1] if b and assign_op(b[0]) else (u[1] if u else None)
            if lhs is None or ref_of(lhs) is not None:
                continue
            root = lvalue_root(lhs)
            if root is not None and not isinstance(root, tuple):
                out.append((root, y))
    return out


class SlabEval:
    """evaluates the per-slab integer quantities of parallel_multiway_merge_base on one point (L, S, P): a slab holding
    L elements whose first output position is P, for a requested size S.  The differences of chunk cursors are the data:
    chunk.first - sequence.first sums to P, chunk.second - chunk.first sums to L (one sequence).  The quantities may live in
    vectors of integers, in the data members of a vector of records, in a record or an array of the worker's own (ObjSkel)."""

    def __init__(self, fn, lam, sizep, idxvar, targetp=None, table=None):
        self.fn, self.lam, self.sizep, self.idxvar, self.targetp, self.table = fn, lam, sizep, idxvar, targetp, table
        self.stores = int_vector_stores(fn)
        self.loops = slab_loops(fn, self.stores)
        self.loopvars = {v for _, v in self.loops}
        self.outer = set()
        for lp, _ in self.loops:
            inside = {x["did"] for x in ir.walk(lp) if x["k"] == "VarDecl"}
            for z in ir.walk(lp):
                b = match.binop(z, ("=",)) if z["k"] == "BinaryOperator" else None
                if b and ref_of(b[1]) is not None and ref_of(b[1]) not in inside and ref_of(b[1]) not in self.loopvars:
                    self.outer.add(ref_of(b[1]))
        # locals of the enclosing function that stand for their initialiser wherever they are used (num_seqs = seqs_ne.size()):
        # never changed, and initialised from nothing that the per-slab fragment changes
        self.inits = {d: e for d, e in stable_inits(fn, (lam,) if lam is not None else ()).items()
                      if not any(y["k"] == "DeclRefExpr" and y["ref"]["id"] in self.outer | self.loopvars for y in ir.walk(e))}
        self.own_arrays = subscript_only_arrays(fn, lam)
        self.lost = []           # stores of the evaluated fragments whose place is not known
        # variables of the enclosing function of which the per-slab fragment sets a part (st.last = iam, last[0] = iam)
        self.outer_parts = set()
        for lp, _ in self.loops:
            inside = {x["did"] for x in ir.walk(lp) if x["k"] == "VarDecl"}
            self.outer_parts |= {root for root, y in part_stores(fn) if inside_of(y, lp) and root not in inside and root not in self.loopvars}

    def skel(self, fn, env, unknown=None, event=None):
        sk = ObjSkel(fn, env, unknown, event)
        sk.own_arrays = self.own_arrays
        sk.lost = self.lost
        return sk

    def point(self, L, S, P):
        """-> dict(pos, length (0 if no merge is started), called, env, call, begin, end)"""
        try:
            return self._point(L, S, P)
        except dtable.Undecidable as ex:
            raise readable(ex, self.fn, self.lam)

    def _point(self, L, S, P):
        merged = []
        del self.lost[:]

        def chunk_elem(key):
            """the key names an element of a row of the split table: chunks[i][s]"""
            return isinstance(key, tuple) and len(key) == 3 and key[0] == "elem" and isinstance(key[1], tuple) and len(key[1]) == 3 and \
                key[1][0] == "elem" and (key[1][1] == self.table if self.table is not None else True)

        def cursor_diff(le, re_, sk):
            """le - re_ if both are cursors (.first / .second of a pair): L, P, -P, or None (data); NotImplemented otherwise"""
            l, r = match.field_of(le), match.field_of(re_)
            if not (l and r and l[1] in ("first", "second") and r[1] in ("first", "second")):
                return NotImplemented
            lk, rk = sk.lvalue(l[0]), sk.lvalue(r[0])
            if l[1] == "second" and r[1] == "first" and lk is not None and lk == rk and chunk_elem(lk):
                return L             # chunk.second - chunk.first of the same chunk
            if l[1] == "first" and r[1] == "first" and chunk_elem(lk) and rk is not None and not chunk_elem(rk) and key_root(rk) != key_root(lk):
                return P             # chunk.first - sequence.first
            if l[1] == "first" and r[1] == "first" and chunk_elem(rk) and lk is not None and not chunk_elem(lk) and key_root(rk) != key_root(lk):
                return -P
            return None              # a difference of cursors that is not one of the two quantities: data

        def event(e, sk):
            b = match.binop(e, ("-",)) if e["k"] in ("BinaryOperator", "CXXOperatorCallExpr") else None
            if b:
                r = cursor_diff(b[1], b[2], sk)
                if r is not NotImplemented:
                    return r
            if "callee" in e and e["callee"]["name"] == "distance" and len(kids(e)) == 2 and not e.get("member_call"):
                r = cursor_diff(match.strip_conv(kids(e)[1]), match.strip_conv(kids(e)[0]), sk)
                if r is not NotImplemented:
                    return r
            if "callee" in e and e["callee"]["name"] == "multiway_merge_base":
                a = kids(e)
                if len(a) < 4 or any(x is None or x["k"] == "DefaultArg" for x in a[:4]):
                    raise undecided(sk.fn, e, "per-thread merge call not understood")
                t = sk.ev(a[2])
                pos = t - TGT if isinstance(t, int) and not isinstance(t, bool) else None
                merged.append(dict(pos=pos, length=sk.ev(a[3]), call=e, begin=sk.ev(a[0]), end=sk.ev(a[1])))
                return None
            if "callee" in e and e.get("member_call") and e["callee"]["name"] in ("begin", "end") and len(kids(e)) == 1 and not e.get("arrow"):
                key = sk.lvalue(kids(e)[0])
                if key is not None:
                    return (e["callee"]["name"], key)
            if "callee" in e and e["callee"]["name"] == "clamp" and len(kids(e)) == 3 and not e.get("member_call"):
                v, lo, hi = [sk.ev(x) for x in kids(e)]
                if all(isinstance(x, int) and not isinstance(x, bool) for x in (v, lo, hi)) and lo <= hi:
                    return min(max(v, lo), hi)
                return None
            if "callee" in e and e["callee"].get("qname") == "std::advance" and len(kids(e)) == 2 and not e.get("member_call"):
                key, t, n = sk.lvalue(kids(e)[0]), sk.ev(kids(e)[0]), sk.ev(kids(e)[1])         # std::advance(it, n) is it += n
                sk.store(key, t + n if all(isinstance(x, int) and not isinstance(x, bool) for x in (t, n)) else None)
                return None
            if "callee" in e and e["callee"].get("qname") == "std::swap" and len(kids(e)) == 2 and not e.get("member_call"):
                ka, kb = sk.lvalue(kids(e)[0]), sk.lvalue(kids(e)[1])
                va, vb = sk.ev(kids(e)[0]), sk.ev(kids(e)[1])
                sk.store(ka, vb)
                sk.store(kb, va)
                return None
            if "callee" in e and e["callee"]["name"] == "next" and len(kids(e)) == 2 and not e.get("member_call"):
                t, n = sk.ev(kids(e)[0]), sk.ev(kids(e)[1])
                if isinstance(t, int) and isinstance(n, int):
                    return t + n
                return None
            return NotImplemented

        def unknown(e, sk):
            if e["k"] == "DeclRefExpr" and e["ref"]["id"] in self.inits and e["ref"]["id"] not in busy:
                d = e["ref"]["id"]       # a local of the enclosing function that stands for its initialiser (num_seqs = seqs_ne.size())
                busy.add(d)
                try:
                    return sk.ev(self.inits[d])
                finally:
                    busy.discard(d)
            if "callee" in e and e.get("member_call") and e["callee"]["name"] == "size" and len(kids(e)) == 1 and not e.get("arrow") and \
                    "pair" in (strip_casts(kids(e)[0]).get("ty") or "") and ref_of(kids(e)[0]) is not None and ref_of(kids(e)[0]) != self.table:
                return 1         # number of sequences: one sequence carries the whole slab
            return None
        busy = set()

        def alg(op, a, b, e):
            """a value that another slab may have left behind is not known: comparing or computing with it is data"""
            return None if a == UNSET or b == UNSET else NotImplemented
        env = {self.sizep: S}
        if self.targetp is not None:
            env[self.targetp] = TGT
        for d in self.outer:
            env[d] = UNSET       # "not set by this slab"
        for lp, var in self.loops:
            sk = self.skel(self.fn, env, unknown, event)
            sk.alg = alg
            sk.env[var] = IAM
            try:
                sk.stmt(match.loop_parts(lp)[3])
            except (skel._Break, skel._Continue):
                pass             # this slab's round of the loop ends here
            env = sk.env
        slab_env = dict(env)
        lost = bool(self.lost)
        ctx = self.lam if self.lam is not None else None
        if ctx is not None:
            sk = self.skel(ctx, env, unknown, event)
            sk.alg = alg
            if self.idxvar is not None:
                sk.env[self.idxvar] = IAM
            try:
                sk.run(kids(ctx.body))
            except skel.Return:
                pass
        if len(merged) > 1:
            raise dtable.Undecidable("%s: a worker starts more than one merge" % self.fn.loc)
        if merged:
            m = merged[0]
            return dict(pos=m["pos"], length=m["length"], called=True, env=slab_env, call=m["call"], begin=m["begin"], end=m["end"], lost=lost)
        return dict(pos=None, length=0, called=False, env=slab_env, call=None, begin=None, end=None, lost=lost)


GRID = [(L, S, P) for L in range(0, 4) for S in range(0, 7) for P in range(0, 9)]


def call_free(e):
    """literals, variables, arithmetic and casts only"""
    return all("callee" not in y and y["k"] not in ("LambdaExpr", "CXXNewExpr") for y in ir.walk(e))


def last_active_slab(fn, slab, se, lam, g):
    """the slab whose cursors are handed back must be one that merged something: its index expression, evaluated in the
    state the per-slab fragment leaves behind, is the slab's own index exactly when the slab merges at least one element
    -> (True, "") | (False, reason) ; undecidable if the expression is not a function of what the fragment sets"""
    refs = {y["ref"]["id"] for y in ir.walk(slab) if y["k"] == "DeclRefExpr"}
    also = (lam,) if lam is not None else ()
    parts = part_stores(fn, lam)
    if not refs & (se.outer | se.outer_parts):
        # nothing in the expression is set per slab: a fixed slab - if the expression is closed (no call could compute the
        # last active slab) and none of its variables is set somewhere else from the slab quantities
        if not call_free(slab):
            raise undecided(fn, slab, "the slab whose cursors are handed back is computed by a call")
        for d in refs:
            if d in se.loopvars:
                raise undecided(fn, slab, "the slab whose cursors are handed back depends on a loop index")
            decl = [v for v in fn.nodes() if v["k"] == "VarDecl" and v.get("did") == d]
            if decl and kids(decl[0]) and kids(decl[0])[0] is not None and not call_free(kids(decl[0])[0]):
                raise undecided(fn, decl[0], "the slab whose cursors are handed back is initialised by a call")
            if decl and (modifications(fn, d, also) or any(root == d for root, _ in parts)):
                raise dtable.Undecidable("%s: %s is set outside the per-slab loop" % (fn.loc, dtable.describe(slab)))
        if ref_of(slab) is None:
            return False, "which is a fixed slab (%s)" % dtable.describe(slab)
        return False, "which is never set to the last active slab"
    # what the expression reads is set by the per-slab fragment (which is evaluated) or before it - nowhere else
    heads = [g.pos_deep(match.loop_parts(lp)[1] if match.loop_parts(lp)[1] is not None else lp) for lp, _ in se.loops]
    for d in refs & (se.outer | se.outer_parts):
        for m in list(modifications(fn, d, also)) + [y for root, y in parts if root == d]:
            if any(inside_of(m, lp) for lp, _ in se.loops):
                continue
            pm = g.pos_deep(m) if inside_of(m, fn.body) else None
            if pm is None or any(h is None or g.reachable(h, pm) for h in heads):
                raise undecided(fn, m, "the slab whose cursors are handed back (%s) is also set outside the per-slab loops" % dtable.describe(slab))
    for L, S, P in GRID:
        r = se.point(L, S, P)
        if r["called"] and not isinstance(r["length"], int):
            raise dtable.Undecidable("%s: length of the per-thread merge not understood" % fn.loc)
        d = ref_of(slab)
        if d is not None:
            got = r["env"].get(d)
        else:
            sk = se.skel(fn, r["env"])
            got = sk.ev(slab)
            k = sk.lvalue(slab) if got is None and not r["lost"] else None
            if isinstance(k, tuple) and len(k) == 3 and key_root(k) in se.outer_parts and k not in r["env"] and \
                    not any(below(k, a) for a in r["env"]):
                got = UNSET          # a part that this slab did not set (every store of the fragment has a known place)
        if got is None or isinstance(got, bool) or not (got == UNSET or isinstance(got, int)):
            raise undecided(fn, slab, "value of the slab index after the per-slab fragment not understood")
        if got != UNSET and got != IAM:
            return False, "which is set to something other than the slab's index"
        active = r["called"] and r["length"] > 0
        if (got == IAM) != active:
            return False, ("which is recorded for a slab that merges nothing (local %d, position %d, size %d)" % (L, P, S)) if got == IAM else \
                ("which is not recorded for a slab that merges %d elements (local %d, position %d, size %d)" % (r["length"], L, P, S))
    return True, ""


def inside_of(n, root):
    return any(y is n for y in ir.walk(root))


def zero_length(ck, fn, g, tag, sizep, splits):
    """ZERO-LENGTH: with size == 0 no split rank is computed.  The CFG is searched from the entry with size = 0 (everything else
    is data): every branch condition is evaluated, an edge that cannot be taken then is not followed; scalar flags that are
    set by plain assignments under tests of size are followed along the path.  A path that arrives at a splitting call is
    the counterexample.  A condition that involves size and cannot be evaluated is a wall: if the splitter is reachable only
    through such a condition the rule cannot decide."""
    if modifications(fn, sizep):
        raise dtable.Undecidable("%s: the requested size is modified inside the function" % fn.loc)
    inits = stable_inits(fn)
    busy = set()

    def unknown(e, sk):
        if e["k"] == "DeclRefExpr" and e["ref"]["id"] in inits and e["ref"]["id"] not in busy:
            d = e["ref"]["id"]
            busy.add(d)
            try:
                return sk.ev(inits[d])
            finally:
                busy.discard(d)
        return None

    # what may depend on size: computed from it, or assigned under a branch that tests it (a flag set by `if (size == 0)`)
    tainted = {sizep}

    def on_size(e):
        return e is not None and any(y["k"] == "DeclRefExpr" and y["ref"]["id"] in tainted for y in ir.walk(e))

    def under_size_test(y):
        for a in ancestors(fn, y):
            c = kids(a)[0] if a["k"] in ("IfStmt", "SwitchStmt", "ConditionalOperator") and kids(a) else \
                (match.loop_parts(a)[1] if a["k"] in LOOPS else None)
            if c is not None and on_size(c):
                return True
        return False
    changed = True
    while changed:
        changed = False
        for y in fn.nodes():
            if y["k"] == "VarDecl" and y.get("did") is not None and kids(y):
                target, src = y["did"], kids(y)[0]
            elif y["k"] in ("BinaryOperator", "CompoundAssignOperator", "CXXOperatorCallExpr") and match.binop(y) and assign_op(match.binop(y)[0]):
                target, src = lvalue_root(match.binop(y)[1]), match.binop(y)[2]
            else:
                continue
            if target is not None and target not in tainted and (on_size(src) or under_size_test(y)):
                tainted.add(target)
                changed = True
    # flags: scalar locals that depend on size and change by plain assignments only (bool go_on = true; if (size == 0) go_on =
    # false;).  Their values are followed along the paths: a state of the search is (block, values of the flags known there)
    decls = local_decls(fn)
    by_ref = {c.get("id") for y in fn.nodes() if y["k"] == "LambdaExpr" for c in y.get("captures", []) if c.get("byref")}
    flags, assigns = set(), {}
    for d in tainted - {sizep}:
        v = decls.get(d)
        ty = (v.get("ty") or "").replace("const ", "").strip() if v is not None else ""
        par = fn.parent(v) if v is not None else None
        if v is None or d in by_ref or not (ty == "bool" or scalar_int(ty)) or par is None or par["k"] != "DeclStmt" or g.pos(par) is None:
            continue
        mods = modifications(fn, d)
        if all(m["k"] == "BinaryOperator" and m.get("op") == "=" and ref_of(kids(m)[0]) == d and g.pos(m) is not None for m in mods):
            flags.add(d)
            for m in mods:
                assigns[m["id"]] = (d, kids(m)[1])
    # a never-changed local stands for its initialiser only if the initialiser means the same wherever the local is used
    inits = {d: e for d, e in inits.items() if d not in flags and not any(y["k"] == "DeclRefExpr" and y["ref"]["id"] in flags for y in ir.walk(e))}

    DATA = "data"        # state of a flag that was last set from data alone: a test of it goes either way

    def on_size_now(e, state):
        return e is not None and any(y["k"] == "DeclRefExpr" and y["ref"]["id"] in tainted and state.get(y["ref"]["id"]) != DATA for y in ir.walk(e))

    def value(e, state):
        env = {sizep: 0}
        env.update({d: v for d, v in state.items() if v != DATA})
        try:
            v = skel.Skel(fn, env, lambda x, sk: None if ref_of(x) in flags else unknown(x, sk)).ev(e)
        except (dtable.Undecidable, skel.Diverges, skel.Return):
            v = None
        return v if isinstance(v, (bool, int)) else None

    goals = {}
    for s in splits:
        goal = g.pos_deep(s)
        if goal is None:
            raise undecided(fn, s, "splitting call has no place in the CFG")
        goals.setdefault(goal[0], s)

    def search(walls_open):
        """a splitting call that is reached from the entry with size == 0, or None"""
        work, seen = [(g.entry, frozenset())], set()
        while work:
            bid, st = work.pop()
            if (bid, st) in seen:
                continue
            seen.add((bid, st))
            if len(seen) > 20000:
                raise dtable.Undecidable("%s: too many states while following the flags that depend on size" % fn.loc)
            if bid in goals:
                return goals[bid]
            b = g.blocks[bid]
            state = dict(st)
            for el in b.get("el", []):
                n = fn.byid(el) if isinstance(el, int) else None
                if n is None:
                    continue
                if n["k"] == "DeclStmt":
                    sets = [(v["did"], kids(v)[0] if kids(v) else None) for v in kids(n) if v is not None and v["k"] == "VarDecl" and v.get("did") in flags]
                elif el in assigns:
                    sets = [assigns[el]]
                else:
                    continue
                for d, src in sets:
                    val = value(src, state) if src is not None else None
                    if val is None and src is not None and not on_size_now(src, state):
                        val = DATA
                    if val is None:
                        state.pop(d, None)
                    else:
                        state[d] = val
            succ = b.get("succ", [])
            nxt = g.succ[bid]
            if len(succ) == 2 and None not in succ and b.get("cond") is not None and b.get("termk") != "SwitchStmt" and not b.get("noreturn"):
                els = [x for x in b.get("el", []) if isinstance(x, int)]
                leaf = fn.byid(els[-1]) if els else None
                whole = fn.byid(b["cond"])
                if leaf is None or (whole is not None and not any(y is leaf for y in ir.walk(whole))):
                    leaf = whole
                if leaf is not None:
                    v = value(leaf, state)
                    if v is not None:
                        nxt = [succ[0] if v else succ[1]]
                    elif on_size_now(leaf, state) and not walls_open:
                        nxt = []         # a test of size that cannot be evaluated: a wall
            st2 = frozenset(state.items())
            for x in nxt:
                work.append((x, st2))
        return None
    if search(False) is not None:
        ck.violation("ZERO-LENGTH", fn.qname, tag, "a merge of zero elements from non-empty inputs reaches the splitter, whose ranks are then -1", fn.loc)
        return
    s = search(True)
    if s is not None:
        raise undecided(fn, s, "whether size == 0 reaches the splitter depends on a test of size that is not understood; splitter")
    ck.ok("ZERO-LENGTH", tag, "size == 0 returns before any split rank is computed")


def fork_join(ck, tu, fn, g, tag):
    """FORK-JOIN / INDEX-BY-COPY: slot[i] = std::thread(lambda) and slot[j].join() - the two loops are evaluated for 1..4
    threads and the sets of started and joined slots compared; the join loop comes after the spawn loop on every path; no
    variable that the spawn loop steps is captured by reference.  -> (lambda function, index variable)"""
    spawns, seen = [], set()
    decls = {v["did"]: v for v in fn.nodes() if v["k"] == "VarDecl" and v.get("did") is not None}

    def lambdas_in(e):
        """the lambda expressions that e runs: written in place, or named by a closure variable (a closure type with captures
        cannot be assigned to)"""
        out = []
        for y in ir.walk(e):
            if y["k"] == "LambdaExpr":
                out.append(y)
            elif y["k"] == "DeclRefExpr" and y["ref"]["id"] in decls and kids(decls[y["ref"]["id"]]) and \
                    strip_casts(kids(decls[y["ref"]["id"]])[0]) is not None and strip_casts(kids(decls[y["ref"]["id"]])[0])["k"] == "LambdaExpr":
                out.append(strip_casts(kids(decls[y["ref"]["id"]])[0]))
        return out
    for x in fn.nodes():
        b = match.binop(x, ("=",))
        x0 = strip_casts(x)
        if b and "callee" in x0 and x0["id"] not in seen and lambdas_in(b[2]):
            p = match.index_parts(b[1])
            if p and ref_of(p[0]) is not None and "thread" in (strip_casts(b[2]).get("ty") or ""):
                seen.add(x0["id"])
                spawns.append((x0, p))
    joins = [x for x in fn.nodes() if "callee" in x and x["callee"]["name"] == "join" and "thread" in (x["callee"].get("record") or "")]
    if len(spawns) != 1 or len(joins) != 1:
        raise dtable.Undecidable("%s: fork/join skeleton not recognised (%d spawns, %d joins)" % (fn.loc, len(spawns), len(joins)))
    sp, (arr, idx) = spawns[0]
    jn = joins[0]
    jip = match.index_parts(kids(jn)[0])
    lams = lambdas_in(match.binop(sp, ("=",))[2])
    lam = tu.by_did.get(lams[0].get("fn")) if len(lams) == 1 else None
    if lam is None or lam.params:
        raise undecided(fn, sp, "worker of the started thread is not one lambda without parameters")
    join_all = None              # for (std::thread& t : container) t.join();
    if not jip and ref_of(kids(jn)[0]) is not None and not jn.get("arrow"):
        rf = [a for a in ancestors(fn, jn) if a["k"] == "CXXForRangeStmt"]
        if rf and len(kids(rf[0])) >= 3 and kids(rf[0])[1] is not None and kids(rf[0])[1].get("did") == ref_of(kids(jn)[0]) and \
                (kids(rf[0])[1].get("ty") or "").rstrip().endswith("&") and ref_of(kids(rf[0])[0]) is not None and \
                not [a for a in ancestors(fn, jn) if a["k"] in LOOPS + ("IfStmt", "SwitchStmt") and any(y is a for y in ir.walk(rf[0]))]:
            join_all = rf[0]
            jip = (kids(rf[0])[0], None)
    if not jip or ref_of(jip[0]) is None or jn.get("arrow"):
        raise undecided(fn, jn, "the thread that is joined is not an element of a container")
    idxvar = ref_of(idx)
    if idxvar is None:
        raise undecided(fn, sp, "slot of the started thread is not indexed by a plain variable")
    tvec = ref_of(arr)
    bad = []
    if ref_of(jip[0]) != tvec:
        for d in (tvec, ref_of(jip[0])):
            if d not in decls or (decls[d].get("ty") or "").rstrip().endswith(("&", "*")):
                raise undecided(fn, jn, "the joined container may be another name of the one the threads are started in")
        bad.append(("range", "the threads that are started are not exactly the threads that are joined (they live in different containers)"))

    def outer_loop(n):
        ls = [a for a in ancestors(fn, n) if a["k"] in LOOPS]
        return ls[-1] if ls else None
    ls, lj = outer_loop(sp), (outer_loop(jn) if join_all is None else None)
    if join_all is not None and (ls is None or not inside_of(join_all, ls)):
        lj = join_all
    if ls is None or lj is None:
        raise undecided(fn, sp if ls is None else jn, "threads are not started / joined in a loop")
    cs, cj = match.loop_parts(ls)[1], (match.loop_parts(lj)[1] if join_all is None else kids(join_all)[0])
    if cs is None or cj is None:
        raise undecided(fn, ls if cs is None else lj, "loop without a condition")
    inits = stable_inits(fn)
    tctor = [a for a in kids(kids(decls[tvec])[0]) if a is not None and a["k"] != "DefaultArg"] if tvec in decls and kids(decls[tvec]) and kids(decls[tvec])[0] is not None else None

    def inside(n, loop):
        return loop["k"] != "CXXForRangeStmt" and any(y is n for y in ir.walk(loop))

    def container_size(sk, at):
        """number of slots of the thread container: its constructor argument, if nothing but element access is done to it"""
        if tctor is None or len(tctor) != 1 or [m for m in fn.nodes() if "callee" in m and m.get("member_call") and kids(m) and
                                                ref_of(kids(m)[0]) == tvec and m["callee"]["name"] not in ("size", "operator[]", "at", "begin", "end")] \
                or modifications(fn, tvec):
            raise undecided(fn, at, "size of the thread container not understood")
        return sk.ev(tctor[0])
    steer = {y["ref"]["id"] for part in (idx, jip[1]) + tuple(match.loop_parts(ls)[1:3]) + (tuple(match.loop_parts(lj)[1:3]) if join_all is None else ())
             if part is not None for y in ir.walk(part) if y["k"] == "DeclRefExpr"}

    def run_sliced(sk, loop):
        """the loop with only those statements of its body that start / join a thread or change a variable the loop bounds
        and slot indices are computed from; everything else in the body (the per-slab arithmetic of a fused loop) is left
        out - unless it could leave the loop, then the slice is not the loop"""
        init, cond, inc, body = match.loop_parts(loop)
        stmts = [x for x in (kids(body) if body is not None and body["k"] == "CompoundStmt" else [body]) if x is not None]
        keep = []
        for x in stmts:
            rel = any(y["id"] in (sp["id"], jn["id"]) for y in ir.walk(x)) or \
                any(inside_of(m, x) for d in steer for m in modifications(fn, d)) or \
                any(y["k"] == "VarDecl" and y.get("did") in steer for y in ir.walk(x))
            if not rel and any(y["k"] in ("BreakStmt", "ContinueStmt", "ReturnStmt", "GotoStmt", "CXXThrowExpr") for y in ir.walk(x)):
                raise undecided(fn, x, "a statement of the spawn / join loop may leave the loop")
            if rel:
                keep.append(x)
        if init is not None:
            sk.stmt(init)
        first, rounds = loop["k"] == "DoStmt", 0
        while True:
            if not first:
                c = sk.ev(cond)
                if c is None:
                    raise undecided(fn, cond, "bound of the spawn / join loop depends on data")
                if not c:
                    break
            first = False
            rounds += 1
            if rounds > 64:
                raise undecided(fn, loop, "spawn / join loop does not end")
            try:
                for x in keep:
                    sk.stmt(x)
            except skel._Break:
                break
            except skel._Continue:
                pass
            if inc is not None:
                sk.ev(inc)
    syms = {}
    if not bad:
        for T in (1, 2, 3, 4):
            started, joined = [], []

            def event(e, sk):
                if e["id"] == sp["id"]:
                    v = sk.ev(idx)
                    if not isinstance(v, int):
                        raise undecided(fn, sp, "slot of the started thread depends on data")
                    started.append(v)
                    return None
                if e["id"] == jn["id"]:
                    v = sk.ev(jip[1])
                    if not isinstance(v, int):
                        raise undecided(fn, jn, "slot of the joined thread depends on data")
                    joined.append(v)
                    return None
                if "callee" in e and e.get("member_call") and e["callee"]["name"] == "size" and len(kids(e)) == 1 and ref_of(kids(e)[0]) == tvec:
                    return container_size(sk, e)
                return NotImplemented

            def unknown(e, sk):
                if e["k"] != "DeclRefExpr":
                    return None
                d = e["ref"]["id"]
                if d in inits:
                    return sk.ev(inits[d])
                if is_integer(e.get("ty")) and not any(inside(m, ls) or inside(m, lj) for m in modifications(fn, d)):
                    syms[d] = e["ref"]["name"]
                    return T
                return None
            sk = skel.Skel(fn, {}, unknown, event, tu=tu)
            for loop in ([ls] if ls is lj else [ls, lj]):
                if loop is join_all:
                    n = container_size(sk, join_all)
                    if not isinstance(n, int) or isinstance(n, bool):
                        raise undecided(fn, join_all, "size of the thread container not understood")
                    joined.extend(range(n))
                    continue
                # a counter declared in front of a while loop: its value at the loop head is its initialiser if nothing else sets it
                for d, v in decls.items():
                    mods = modifications(fn, d)
                    if mods and not inside(v, loop) and all(inside(m, loop) for m in mods) and kids(v) and kids(v)[0] is not None:
                        sk.env[d] = sk.ev(kids(v)[0])
                try:
                    run_sliced(sk, loop)
                except dtable.Undecidable as ex:
                    raise readable(ex, fn)
            if len(syms) > 1:
                raise dtable.Undecidable("%s: the spawn and the join loop are bounded by different variables (%s): whether they are equal is not decided"
                                         % (fn.loc, ", ".join(sorted(syms.values()))))
            if sorted(started) != sorted(joined) or len(set(started)) != len(started):
                bad.append(("range", "the threads that are started are not exactly the threads that are joined (with %s = %d: started %s, joined %s)"
                            % (next(iter(syms.values()), "the bound"), T, sorted(started), sorted(joined))))
                break
        # the bound must mean the same in both loops
        for d in syms:
            for m in modifications(fn, d):
                pm = g.pos_deep(m)
                if pm is None or g.reachable(g.pos_deep(cs), pm):
                    raise undecided(fn, m, "the bound of the spawn / join loops changes after the threads were started")
    if not g.dominates(g.pos_deep(cs), g.pos_deep(cj)):
        bad.append(("order", "threads are joined before all of them were started"))
    variant = {d for d in decls if any(inside(m, ls) for m in modifications(fn, d))} | {idxvar}
    byref = [c for c in lams[0].get("captures", []) if c.get("id") in variant and c.get("byref")]
    if byref:
        bad.append(("index-capture", "the loop index is captured by reference: the thread reads it after the loop has advanced"))
    for sig, msg in bad:
        ck.violation("FORK-JOIN" if sig != "index-capture" else "INDEX-BY-COPY", fn.qname, "%s:%s" % (tag, sig), msg, fn.nloc(sp))
    if not bad:
        ck.ok("FORK-JOIN", tag, "threads[i] started for i in [0, %s) and all joined before the result is used" % next(iter(syms.values()), "n"))
        ck.ok("INDEX-BY-COPY", tag, "worker lambda captures the loop index by copy")
    if not any(c.get("id") == idxvar for c in lams[0].get("captures", [])):
        raise undecided(fn, sp, "the worker does not capture the index of its slot")
    return lam, idxvar


def check_base(ck, tu, fn):
    tag = "parallel_multiway_merge_base<%s>" % fn.targs[0]
    seqsp, targetp, sizep = fn.params[0]["did"], fn.params[2]["did"], fn.params[3]["did"]
    g = cfgm.CFG(fn)
    # ---- ZERO-LENGTH: early return when nothing is to be merged, before the split ranks are computed
    splits = [c for c in fn.nodes() if "callee" in c and c["callee"]["name"] in SPLITTERS]
    ck.require(len(splits) >= 1, "%s: splitting calls not found" % fn.loc)
    zero_length(ck, fn, g, tag, sizep, splits)
    # the table of chunks: the container of containers that every splitter fills
    per_split = [{y["ref"]["id"] for a in kids(c) for y in ir.walk(a) if y["k"] == "DeclRefExpr" and is_table(y.get("ty"))} for c in splits]
    if any(len(s) != 1 for s in per_split) or len(set.union(*per_split)) != 1:
        raise dtable.Undecidable("%s: the table of chunks handed to the splitters is not one local container of containers" % fn.loc)
    table = next(iter(per_split[0]))
    # ---- slab quantities: where each worker writes, how much, and which slab's cursors are handed back
    lam, idxvar = fork_join(ck, tu, fn, g, tag)
    se = SlabEval(fn, lam, sizep, idxvar, targetp, table)
    if lam is not None:
        own = {v["did"]: v for v in lam.nodes() if v["k"] == "VarDecl" and v.get("did") is not None}
        writes = []
        for y in lam.nodes():
            b = match.binop(y)
            if b and b[0] in ("=", "+=", "-=") and strip_casts(y)["k"] in ("BinaryOperator", "CompoundAssignOperator"):
                t = strip_casts(b[1])
                if t["k"] == "DeclRefExpr" and t["ref"]["kind"] == "local":
                    continue
                root = lvalue_root(b[1])
                if root in own and not (own[root].get("ty") or "").rstrip().endswith(("&", "*")) and "*" not in (own[root].get("ty") or ""):
                    continue             # a store into an object of the worker's own
                if root is None or root in own:
                    raise undecided(lam, y, "the object the worker stores into is not identified")
                writes.append(y)
        # where the slab is written and how much of it: on a grid of (local size L, requested size S, slab position P)
        badpos = badlen = badrow = None
        calls = []
        for L, S, P in GRID:
            r = se.point(L, S, P)
            if r["called"] and (r["pos"] is None or not isinstance(r["length"], int) or isinstance(r["length"], bool)):
                raise dtable.Undecidable("%s: destination / length of the per-thread merge not understood" % lam.loc)
            if r["called"]:
                if not any(c is r["call"] for c in calls):
                    calls.append(r["call"])
                rb, re_ = r["begin"], r["end"]
                if not (isinstance(rb, tuple) and len(rb) == 2 and rb[0] == "begin" and isinstance(re_, tuple) and len(re_) == 2 and re_[0] == "end"):
                    raise undecided(lam, r["call"], "the input range of the per-thread merge is not begin() .. end() of a container")
                row = ("elem", table, IAM)
                if (rb[1] != row or re_[1] != row) and badrow is None:
                    badrow = (rb[1], re_[1])
            want = max(0, min(L, S - P))
            if r["called"] and r["length"] != 0 and r["pos"] != P and badpos is None:
                badpos = (L, S, P, r)
            if r["length"] != want and badlen is None:
                badlen = (L, S, P, r["length"], want, r)
        if writes:
            ck.violation("WORKER-WRITES", fn.qname, tag, "the worker lambda writes shared state directly: %s" % dtable.describe(writes[0])[:60], lam.nloc(writes[0]))
        elif not calls:
            ck.violation("WORKER-WRITES", fn.qname, tag + ":merge", "expected exactly one per-thread multiway_merge_base call, found 0 "
                         "(no slab of the %d evaluated ones starts a merge)" % len(GRID), lam.loc)
        elif badrow:
            ck.violation("WORKER-WRITES", fn.qname, tag + ":merge", "the worker does not merge a row of chunks[]: worker i merges from %s to %s instead of its own row i"
                         % tuple(("row %s" % k[2]) if isinstance(k, tuple) and len(k) == 3 and k[1] == table else "another object" for k in badrow), lam.nloc(calls[0]))
        elif badpos:
            L, S, P, r = badpos
            ck.violation("WORKER-WRITES", fn.qname, tag + ":merge", "the worker does not write to target + (sum over the sequences of chunk begin - sequence begin): "
                         "a slab at position %d is written to target + %s" % (P, r["pos"]), lam.nloc(r["call"]))
        else:
            ck.ok("WORKER-WRITES", tag, "the worker only updates locals and merges its own chunk row into target + (sum of the slab's offsets)")
        if badlen:
            L, S, P, got, want, r = badlen
            ck.violation("SLAB-LENGTH", fn.qname, tag, "a slab with %d elements that starts at output position %d merges %d elements for a requested size of %d "
                         "(it must merge max(0, min(local, size - position)) = %d): with sampling splitting a slab can begin behind `size`, the negative "
                         "length then writes past the requested range" % (L, P, got, S, want), lam.nloc(r["call"]) if r["call"] else (lam.nloc(calls[0]) if calls else lam.loc))
        else:
            ck.ok("SLAB-LENGTH", tag, "merged length = max(0, min(local size, size - position)) on a 4x7x9 grid of (local, size, position), "
                  "evaluated through the per-slab fragment and the worker")
    # ---- ADVANCE-EXACT: the statement that writes the caller's sequence cursors back
    inits = {v["did"]: kids(v)[0] for v in fn.nodes() if v["k"] == "VarDecl" and v.get("did") is not None and kids(v) and kids(v)[0] is not None}
    derived = {seqsp}            # iterators / references into the caller's sequences
    changed = True
    while changed:
        changed = False
        for d, e in inits.items():
            if d not in derived and lvalue_root(e) in derived:
                derived.add(d)
                changed = True

    def through_alias(e, depth=0):
        """a reference local stands for the object it was bound to"""
        e0 = strip_casts(e)
        if e0 is not None and e0["k"] == "DeclRefExpr" and depth < 4:
            v = [x for x in fn.nodes() if x["k"] == "VarDecl" and x.get("did") == e0["ref"]["id"]]
            if v and (v[0].get("ty") or "").rstrip().endswith("&") and e0["ref"]["id"] in inits:
                return through_alias(inits[e0["ref"]["id"]], depth + 1)
        return e0
    adv = []
    for x in fn.nodes():
        b = match.binop(x, ("=",)) if x["k"] in ("BinaryOperator", "CXXOperatorCallExpr") else None
        f = match.field_of(b[1]) if b else None
        if not f or f[1] != "first" or lvalue_root(b[1]) not in derived:
            continue
        f2 = match.field_of(through_alias(b[2]))
        pp = match.index_parts(through_alias(f2[0])) if f2 else None
        row = match.index_parts(through_alias(pp[0])) if pp else None
        if not row or ref_of(through_alias(row[0])) != table:
            raise undecided(fn, x, "the value the caller's sequence cursor is advanced to is not a cursor of the chunk table")
        adv.append((x, f2[1], row[1]))
    ck.require(len(adv) == 1, "%s: input advancement not found" % fn.loc)
    x, member, slab = adv[0]
    if member != "first":
        ck.violation("ADVANCE-EXACT", fn.qname, tag, "inputs are advanced to chunks[%s].%s: the end of a slab, not the position up to which it was merged "
                     "(with sampling splitting and size < total the inputs appear fully consumed)" % (dtable.describe(slab), member), fn.nloc(x))
    else:
        slab_ok, why = last_active_slab(fn, slab, se, lam, g)
        if not slab_ok:
            ck.violation("ADVANCE-EXACT", fn.qname, tag + ":slab", "inputs are advanced to the cursors of slab %s, %s: with sampling splitting the trailing slabs can start "
                         "behind `size` and merge nothing, their cursors are then ahead of the merged position" % (dtable.describe(slab), why), fn.nloc(x))
        else:
            ck.ok("ADVANCE-EXACT", tag, "inputs advanced to the .first cursors of the last slab that merged something (%s)" % dtable.describe(slab))
    if lam is not None:
        # Stable propagation inside the base
        st = fn.targs[0]
        for c in list(fn.nodes()) + list(lam.nodes()):
            if "callee" in c and c["callee"]["name"] in SPLITTERS + ("multiway_merge_base",):
                targs = c["callee"].get("targs")
                if not targs:
                    raise undecided(fn, c, "template arguments of the call are not known")
                if targs[0] != st:
                    ck.violation("STABLE-PROPAGATE", fn.qname, tag + ":" + c["callee"]["name"], "%s<%s> is used inside the %s parallel merge"
                                 % (c["callee"]["name"], targs[0], "stable" if st == "true" else "unstable"), fn.nloc(c))
                else:
                    ck.ok("STABLE-PROPAGATE", "%s -> %s" % (tag, c["callee"]["name"]), "Stable=%s" % st, nontrivial=False)


CMP = ("==", "!=", "<", ">", "<=", ">=")


def distance_as_difference(e):
    """copy of e with std::distance(a, b) written as (b - a): for the iterators both spellings compile for (random access)
    the library defines the first as the second"""
    if e is None:
        return None
    if "callee" in e and e["callee"].get("qname") == "std::distance" and not e.get("member_call") and len(kids(e)) == 2 and \
            all(a is not None and a["k"] != "DefaultArg" for a in kids(e)):
        a, b = (distance_as_difference(match.strip_conv(x)) for x in kids(e))
        return {"k": "BinaryOperator", "op": "-", "id": -12, "ty": e.get("ty"), "l": e.get("l"), "ch": [b, a]}
    if "ch" not in e:
        return e
    out = dict(e)
    out["ch"] = [distance_as_difference(c) for c in e["ch"]]
    return out


def front_decision(fn):
    """the decision of a front end as leaves of a decision table over canonical atoms (comparisons with the operands
    printed position-independently: parameters by position, locals by their initialisers; global flags by name)"""
    names = {p["did"]: "p%d" % i for i, p in enumerate(fn.params)}

    def canon(e, run):
        mp = {d: v for d, v in run.env.items() if isinstance(v, dict)}
        with dtable.canonical_names(names):
            return dtable.describe(distance_as_difference(dtable._subst(e, mp) if mp else e))

    def atomize(n, run):
        s = strip_casts(n)
        if s is None:
            return None
        if s["k"] == "DeclRefExpr" and s["ref"].get("kind") not in ("local", "param") and s["ref"]["id"] not in run.env:
            return ("flag", s["ref"]["name"]), False
        b = match.binop(s, CMP) if s["k"] in ("BinaryOperator", "CXXOperatorCallExpr", "UnaryOperator") else None
        if not b:
            return None
        op, l, r = b
        cl, cr = const_int(l), const_int(r)
        if cl is not None and cr is not None:
            return None
        if cl is not None:           # c op x  ->  x op' c
            op, l, r, cl, cr = {"<": ">", ">": "<", "<=": ">=", ">=": "<=", "==": "==", "!=": "!="}[op], r, l, None, cl
        if cr is not None:           # integers: x <= c is x < c + 1
            x = canon(l, run)
            return {"<": (("lt", x, cr), False), "<=": (("lt", x, cr + 1), False), ">": (("lt", x, cr + 1), True), ">=": (("lt", x, cr), True),
                    "==": (("eq", x, cr), False), "!=": (("eq", x, cr), True)}[op]
        x, y = canon(l, run), canon(r, run)
        if op in ("==", "!="):
            return ("eq",) + tuple(sorted((x, y))), op == "!="
        return {"<": (("lt", x, y), False), ">": (("lt", y, x), False), "<=": (("lt", y, x), True), ">=": (("lt", x, y), True)}[op]
    return dtable.explore(fn.body, atomize, fn)


def consistent_atoms(v):
    """excludes valuations that contradict the order of the integers / the trichotomy of one pair of operands"""
    items = [(a, t) for a, t in v.items() if a[0] != "flag"]
    for a, at in items:
        for b, bt in items:
            if a is b or not at:
                continue
            const_a, const_b = isinstance(a[2], int), isinstance(b[2], int)
            if const_a and const_b and a[1] == b[1]:         # the same expression compared with constants
                if a[0] == "lt" and b[0] == "lt" and a[2] < b[2] and not bt:
                    return False         # x < 2 but not x < 3
                if a[0] == "eq" and b[0] == "eq" and a[2] != b[2] and bt:
                    return False         # x == 2 and x == 3
                if a[0] == "eq" and b[0] == "lt" and bt != (a[2] < b[2]):
                    return False         # x == 2 decides x < c
            if not const_a and not const_b and set(a[1:]) == set(b[1:]) and bt:
                if a[0] == "lt" and b[0] == "lt" and a[1:] != b[1:]:
                    return False         # x < y and y < x
                if a[0] == "eq" and b[0] == "lt":
                    return False         # x == y and x < y
    return True


def atom_subject(a):
    """what an atom is about: a flag, one expression compared with constants, or an unordered pair of expressions"""
    if a[0] == "flag":
        return a
    if isinstance(a[2], int):
        return ("const", a[1])
    return ("pair",) + tuple(sorted(a[1:]))


def check_fronts(ck, tu):
    tables, atoms_of = {}, {}
    for q, (st, sen) in FRONT.items():
        fn = tu.one(qname=q)
        short = q.split("::")[-1]
        pb = [c for c in fn.nodes() if "callee" in c and c["callee"]["name"] == "parallel_multiway_merge_base"]
        sb = [c for c in fn.nodes() if "callee" in c and c["callee"]["name"] == "multiway_merge_base"]
        if not pb or not sb:
            raise dtable.Undecidable("%s: %s does not call the parallel and the sequential base directly (%d / %d calls)" % (fn.loc, short, len(pb), len(sb)))
        inits = stable_inits(fn)
        pids = [p["did"] for p in fn.params]
        wrong = None
        for c, want, npar in [(c, [st], 8) for c in pb] + [(c, [st, sen], 6) for c in sb]:
            targs = c["callee"].get("targs")
            if not targs or len(targs) < len(want):
                raise undecided(fn, c, "template arguments of the call are not known")
            if targs[:len(want)] != want and wrong is None:
                wrong = "%s<%s>" % (c["callee"]["name"], ",".join(targs[:len(want)]))
            args = kids(c)
            if len(args) != npar:
                raise undecided(fn, c, "number of arguments")
            for i, a in enumerate(args):
                if a is None or a["k"] == "DefaultArg":
                    wrong = wrong or "%s without argument %d (%s)" % (c["callee"]["name"], i + 1, fn.params[i]["name"])
                    continue
                def plain(x):
                    """through conversions, std::move / std::forward"""
                    x = match.strip_conv(x)
                    while x is not None and "callee" in x and x["callee"]["name"] in ("move", "forward") and len(kids(x)) == 1:
                        x = match.strip_conv(kids(x)[0])
                    return x
                d = ref_of(plain(a))
                for _ in range(4):
                    if d is not None and d not in pids and d in inits:
                        d = ref_of(plain(inits[d]))
                if d not in pids:
                    raise undecided(fn, a, "argument %d of %s is not one of the front end's parameters" % (i + 1, c["callee"]["name"]))
                if d != pids[i]:
                    wrong = wrong or "%s with %s as argument %d" % (c["callee"]["name"], fn.params[pids.index(d)]["name"], i + 1)
        if wrong is None:
            ck.ok("STABLE-PROPAGATE", q, "parallel base<Stable=%s>, sequential base<%s,%s>, parameters forwarded in order" % (st, st, sen))
        else:
            ck.violation("STABLE-PROPAGATE", q, "front:" + short, "%s must use parallel base<%s> and sequential base<%s,%s> with its own parameters (found %s)"
                         % (short, st, st, sen, wrong), fn.loc)
        # FALLBACK-SWITCH: which base is reached under which valuation of the tests
        leaves = front_decision(fn)
        for lf in leaves:
            if lf["stop"][0] not in ("return", "end"):
                raise dtable.Undecidable("%s: %s leaves through %s" % (fn.loc, short, lf["stop"][0]))
            seen = [ev[1] for ev in lf["events"] if ev[0] in ("expr", "decl", "loop")]
            if lf["stop"][0] == "return" and lf["stop"][1][0] is not None:
                seen.append(lf["stop"][1][0])
            if any(ev[0] == "loop" and any("callee" in y and y["callee"]["name"] in ("parallel_multiway_merge_base", "multiway_merge_base") for y in ir.walk(ev[1]))
                   for ev in lf["events"]):
                raise dtable.Undecidable("%s: %s calls a merge inside a loop" % (fn.loc, short))
            found = {("par" if y["callee"]["name"] == "parallel_multiway_merge_base" else "seq") for n in seen for y in ir.walk(n)
                     if "callee" in y and y["callee"]["name"] in ("parallel_multiway_merge_base", "multiway_merge_base")}
            lf["outcome"] = "+".join(sorted(found)) or "none"
        tables[q] = leaves
        atoms_of[q] = dtable.atoms_of(leaves)
    atoms = sorted({a for q in atoms_of for a in atoms_of[q]}, key=repr)
    full = {}
    for q, leaves in tables.items():
        full[q] = {tuple(sorted(v.items(), key=repr)): lf["outcome"] for v, lf in dtable.table(leaves, consistent_atoms, atoms)}
    groups = {}
    for q in FRONT:
        groups.setdefault(tuple(sorted(full[q].items(), key=repr)), []).append(q)
    if len(groups) == 1:
        ck.ok("FALLBACK-SWITCH", "4 front ends", "identical condition for taking the parallel path: the same base is reached under each of the %d "
              "consistent valuations of the %d tests" % (len(next(iter(full.values()))), len(atoms)))
        return
    major = max(groups.values(), key=len)
    odd = [q for q in FRONT if q not in major][-1]
    ref = major[0]
    only_odd = {atom_subject(a) for a in atoms_of[odd]} - {atom_subject(a) for a in atoms_of[ref]}
    only_ref = {atom_subject(a) for a in atoms_of[ref]} - {atom_subject(a) for a in atoms_of[odd]}
    if only_odd and only_ref:
        raise dtable.Undecidable("%s and %s test different quantities (%s / %s): whether these are equal is not decided"
                                 % (odd.split("::")[-1], ref.split("::")[-1], sorted(only_odd, key=repr)[0], sorted(only_ref, key=repr)[0]))
    v = next(k for k in full[odd] if full[odd][k] != full[ref].get(k))
    pnames = [p_["name"] for p_ in tu.one(qname=odd).params]

    def named(txt):
        """positional parameter names p0, p1, .. back to the names of the source"""
        return re.sub(r"\bp(\d+)\b", lambda m: pnames[int(m.group(1))] if int(m.group(1)) < len(pnames) else m.group(0), str(txt))
    ck.violation("FALLBACK-SWITCH", odd, "condition", "the front ends decide differently when to merge in parallel: with %s, %s takes the %s path and %s the %s path"
                 % (" ".join(("" if b else "!") + (a[1] if a[0] == "flag" else "(%s %s %s)" % (named(a[1]), {"lt": "<", "eq": "=="}[a[0]], named(a[2]))) for a, b in v),
                    odd.split("::")[-1], full[odd][v], ref.split("::")[-1], full[ref].get(v)), "tlx/algorithm/parallel_multiway_merge.hpp")


def run(ck):
    ck.explanation = (
        "Equality with the sequential merge depends on partition values and is not decided. Decided necessary conditions: the split tables are "
        "filled on every path before they are read (not inside a loop that may run zero times), a zero-length merge returns before ranks are "
        "computed, with size < total the last slab ends at the rank-size partition and the inputs are advanced to the merged position, every "
        "started thread is joined, the worker lambda captures its index by copy and writes only through target + target_position, the Stable "
        "flag reaches the splitters and the per-thread merges, and the four front ends share one fallback condition. the per-slab length equals max(0, min(slab size, size - slab position)) "
        "(with sampling splitting a slab can begin behind size) and the cursors handed back are those of the last slab that merged anything. Four genuine "
        "defects were found in this code (one-thread partial merge, size 0, over-advanced inputs, negative slab length) and fixed.")
    types = ["int"] if ck.tier == "quick" else ["int", "std::string"]
    for t in types:
        tu = ir.extract("witness/C07_parallel_merge.cpp", defines=["WITNESS_T=" + t], extra_flags=["-include", "string"])
        raw_tu = []

        def raw(fn, t=t, raw_tu=raw_tu):
            """the same function of the same translation unit as the extractor delivered it (no normaliser rewrites)"""
            if not raw_tu:
                old = os.environ.get("VERIF_NO_NORMALIZE")
                os.environ["VERIF_NO_NORMALIZE"] = "1"
                try:
                    raw_tu.append(ir.extract("witness/C07_parallel_merge.cpp", defines=["WITNESS_T=" + t], extra_flags=["-include", "string"]))
                finally:
                    if old is None:
                        del os.environ["VERIF_NO_NORMALIZE"]
                    else:
                        os.environ["VERIF_NO_NORMALIZE"] = old
            twins = [f for f in raw_tu[0].find(qname=fn.qname) if f.full == fn.full and f.targs == fn.targs]
            return (raw_tu[0], twins[0]) if len(twins) == 1 else None
        for fn in tu.some(qname=EXACT):
            check_exact(ck, tu, fn, raw)
        for fn in tu.some(qname=BASE):
            check_base(ck, tu, fn)
        check_fronts(ck, tu)
        from rules import c09
        from rules.parcommon import check_comp_threaded_all
        nct = check_comp_threaded_all(ck, tu, ("tlx::multiway_merge_detail::", "tlx::parallel_multiway_merge", "tlx::multiway_merge_"))
        ck.require(nct >= 2, "no standard ordering algorithm found below the expected namespaces")
        from rules import c08
        ck.require(c08.check_partition_in(ck, tu) >= 1, "exact splitting must reach multisequence_partition")
        nt = c09.check_trees_in(ck, tu)
        ck.require(nt >= 4, "the per-thread merges use loser trees for k >= 5; expected 4 instantiated classes, found %d" % nt)
    m = len(types)
    ck.floor("SPLIT-DEFINITE-INIT", 2 * m)
    ck.floor("ZERO-LENGTH", 2 * m)
    ck.floor("ADVANCE-EXACT", 2 * m)
    ck.floor("SLAB-LENGTH", 2 * m)
    ck.floor("FORK-JOIN", 2 * m)
    ck.floor("INDEX-BY-COPY", 2 * m)
    ck.floor("WORKER-WRITES", 2 * m)
    ck.floor("STABLE-PROPAGATE", 8 * m)
    ck.floor("FALLBACK-SWITCH", 1 * m)
