"""C07 — parallel multiway merge: definite initialisation of the split tables, zero-length
early return, exact input advancement, last-slab end, fork/join, worker writes,
Stable propagation, fallback condition agreement."""
from engine import ir, dtable, match, skel, cfg as cfgm
from engine.ir import kids, strip_casts, const_int, ref_of
from rules.parcommon import check_fork_join

BASE = "tlx::parallel_multiway_merge_base"
EXACT = "tlx::multiway_merge_exact_splitting"
FRONT = {"tlx::parallel_multiway_merge": ("false", "false"), "tlx::stable_parallel_multiway_merge": ("true", "false"),
         "tlx::parallel_multiway_merge_sentinels": ("false", "true"), "tlx::stable_parallel_multiway_merge_sentinels": ("true", "true")}


def ancestors(fn, node):
    out = []
    par = fn.parent(node)
    while par is not None:
        out.append(par)
        par = fn.parent(par)
    return out


def check_exact(ck, fn):
    """SPLIT-DEFINITE-INIT: every row of the split table that is read when the chunks are cut was sized and filled by a
    partition before, for every number of threads and for size == total as well as size < total.  Decided by evaluating
    the function's index skeleton (thread count, tightness, loop indices) for T = 1..4 and both tightness values."""
    tag = "exact_splitting<%s>" % fn.targs[0]
    seqs_b, seqs_e = fn.params[0]["did"], fn.params[1]["did"]
    sizep, totalp, nthreads = fn.params[2]["did"], fn.params[3]["did"], fn.params[6]["did"]
    def is_table(ty):
        """a container of containers: SimpleVector<std::vector<..>>, std::vector<std::vector<..>>"""
        ty = (ty or "").replace(" ", "")
        for outer in ("tlx::SimpleVector<", "std::vector<"):
            if ty.startswith(outer) and ty[len(outer):].startswith(("std::vector<", "tlx::SimpleVector<")):
                return True
        return False
    tables = {v["did"] for v in fn.nodes() if v["k"] == "VarDecl" and is_table(v.get("ty"))}
    ck.require(len(tables) == 1, "%s: split table (simple_vector of vectors) not found" % fn.loc)
    nreads = nfills = 0
    bad = None
    for T in (1, 2, 3, 4):
        for tight in (True, False):
            sized, filled, reads = set(), set(), []

            def row_of(e):
                ip = match.index_parts(e)
                if ip and ref_of(ip[0]) in tables:
                    return ip[1]
                return None

            def event(e, sk):
                if "callee" in e and e.get("member_call") and e["callee"]["name"] == "resize" and kids(e):
                    r = row_of(kids(e)[0])
                    if r is not None:
                        v = sk.ev(r)
                        if v is None:
                            raise dtable.Undecidable("%s: row index depends on data at line %s" % (fn.loc, e.get("l")))
                        sized.add(v)
                        return None
                if "callee" in e and e["callee"]["name"] == "multisequence_partition":
                    for a_ in kids(e):
                        for z in ir.walk(a_):
                            if "callee" in z and z["callee"]["name"] == "begin" and z.get("member_call") and row_of(kids(z)[0]) is not None:
                                v = sk.ev(row_of(kids(z)[0]))
                                if v is None:
                                    raise dtable.Undecidable("%s: row index depends on data at line %s" % (fn.loc, e.get("l")))
                                if v not in sized:
                                    reads.append((v, e, "is written by the partition before it was sized"))
                                filled.add(v)
                    return None
                ip = match.index_parts(e)
                if ip is not None and row_of(ip[0]) is not None:
                    v = sk.ev(row_of(ip[0]))
                    if v is None:
                        raise dtable.Undecidable("%s: row index depends on data at line %s" % (fn.loc, e.get("l")))
                    reads.append((v, e, None if v in filled else "is read but was never filled"))
                    return None
                return NotImplemented

            def unknown(e, sk):
                b_ = match.binop(e, ("-",)) if e["k"] in ("BinaryOperator", "CXXOperatorCallExpr") else None
                if b_ and ref_of(b_[1]) == seqs_e and ref_of(b_[2]) == seqs_b:
                    return 2
                return None
            env = {nthreads: T, totalp: 6, sizep: 6 if tight else 4}
            sk = skel.Skel(fn, env, unknown, event)
            try:
                sk.run(kids(fn.body))
            except skel.Return:
                pass
            nreads += len([r for r in reads if r[2] is None])
            nfills += len(filled)
            for v, e, why in reads:
                if why and bad is None:
                    bad = (T, tight, v, e, why)
    if nreads == 0 or nfills == 0:
        raise ir.AnalysisBroken("%s: no reads / fills of the split table seen" % fn.loc)
    if bad:
        T, tight, v, e, why = bad
        ck.violation("SPLIT-DEFINITE-INIT", fn.qname, tag + ":row", "with %d thread%s and size %s total, row %d of the split table %s"
                     % (T, "" if T == 1 else "s", "==" if tight else "<", v, why), fn.nloc(e))
    else:
        ck.ok("SPLIT-DEFINITE-INIT", tag, "every row read while cutting the chunks was sized and filled before, for T = 1..4, size == total and size < total "
              "(%d reads, %d fills over the 8 configurations)" % (nreads, nfills))


IAM = 3      # the slab index used when a per-slab fragment is evaluated


def int_vector_stores(fn):
    """stores `vec[j] = expr` into local std::vector<integral> in fn -> {vec did: [store nodes]}"""
    stores = {}
    for z in fn.nodes():
        b = match.binop(z, ("=",)) if z["k"] in ("BinaryOperator", "CXXOperatorCallExpr") else None
        if b:
            ip = match.index_parts(b[1])
            if ip and ir.ref_of(ip[0]) is not None and "vector" in (strip_casts(ip[0]).get("ty") or ""):
                stores.setdefault(ir.ref_of(ip[0]), []).append(z)
        # an element handed to a helper by address: helper(&vec[j])
        if z["k"] == "UnaryOperator" and z.get("op") == "&":
            ip = match.index_parts(kids(z)[0])
            if ip and ir.ref_of(ip[0]) is not None and "vector" in (strip_casts(ip[0]).get("ty") or "") and \
                    any(t in (strip_casts(ip[0]).get("ty") or "") for t in ("<long", "<int", "<unsigned", "<size_t", "<std::ptrdiff")):
                stores.setdefault(ir.ref_of(ip[0]), []).append(z)
    return stores


def slab_loops(fn, stores):
    """the loops of fn whose body fills the per-slab vectors: [(loop, index var did)]"""
    out = []
    for vec, sts in stores.items():
        for z in sts:
            loops = [a for a in ancestors(fn, z) if a["k"] in ("ForStmt", "WhileStmt")]
            if not loops:
                continue
            lp = loops[-1]
            init = match.loop_parts(lp)[0]
            vs = [x["did"] for x in ir.walk(init) if x["k"] == "VarDecl"] if init is not None else []
            if len(vs) == 1 and not any(l is lp for l, _ in out):
                out.append((lp, vs[0]))
    return out


class SlabEval:
    """evaluates the per-slab integer quantities of parallel_multiway_merge_base on one point (L, S, P): a slab holding
    L elements whose first output position is P, for a requested size S.  The differences of chunk cursors are the data:
    chunk.first - sequence.first sums to P, chunk.second - chunk.first sums to L (one sequence)."""

    def __init__(self, fn, lam, sizep, idxvar):
        self.fn, self.lam, self.sizep, self.idxvar = fn, lam, sizep, idxvar
        self.stores = int_vector_stores(fn)
        self.loops = slab_loops(fn, self.stores)
        self.outer = set()
        for lp, _ in self.loops:
            inside = {x["did"] for x in ir.walk(lp) if x["k"] == "VarDecl"}
            for z in ir.walk(lp):
                b = match.binop(z, ("=",)) if z["k"] == "BinaryOperator" else None
                if b and ref_of(b[1]) is not None and ref_of(b[1]) not in inside:
                    self.outer.add(ref_of(b[1]))

    def point(self, L, S, P):
        """-> dict(pos, length (0 if no merge is started), called, env)"""
        merged = []

        def event(e, sk):
            b = match.binop(e, ("-",)) if e["k"] in ("BinaryOperator", "CXXOperatorCallExpr") else None
            if b:
                l, r = match.field_of(b[1]), match.field_of(b[2])
                if l and r and l[1] == "first" and r[1] == "first":
                    return P
                if l and r and l[1] == "second" and r[1] == "first":
                    return L
            if "callee" in e and e["callee"]["name"] == "multiway_merge_base":
                a = kids(e)
                tb = match.binop(a[2], ("+",))
                if tb and ir.ref_name(tb[1]) == "target":
                    pos = sk.ev(tb[2])
                elif ir.ref_name(a[2]) == "target":
                    pos = 0
                else:
                    pos = None
                merged.append((pos, sk.ev(a[3]), e))
                return None
            return NotImplemented

        def unknown(e, sk):
            if e["k"] == "DeclRefExpr" and any(t in (e.get("ty") or "") for t in ("size_t", "unsigned long", "int", "long")) \
                    and "*" not in (e.get("ty") or "") and "iterator" not in (e.get("ty") or ""):
                return 1         # number of sequences: one sequence carries the whole slab
            if "callee" in e and e.get("member_call") and e["callee"]["name"] == "size" and len(kids(e)) == 1:
                return 1         # likewise: seqs.size()
            return None
        env = {self.sizep: S}
        for d in self.outer:
            env[d] = -1          # "not set by this slab"
        for lp, var in self.loops:
            sk = skel.Skel(self.fn, env, unknown, event)
            sk.env[var] = IAM
            sk.stmt(match.loop_parts(lp)[3])
            env = sk.env
        slab_env = dict(env)
        ctx = self.lam if self.lam is not None else None
        if ctx is not None:
            sk = skel.Skel(ctx, env, unknown, event)
            if self.idxvar is not None:
                sk.env[self.idxvar] = IAM
            try:
                sk.run(kids(ctx.body))
            except skel.Return:
                pass
        if len(merged) > 1:
            raise dtable.Undecidable("%s: a worker starts more than one merge" % self.fn.loc)
        if merged:
            pos, ln, call = merged[0]
            return dict(pos=pos, length=ln, called=True, env=slab_env, call=call)
        return dict(pos=None, length=0, called=False, env=slab_env, call=None)


GRID = [(L, S, P) for L in range(0, 4) for S in range(0, 7) for P in range(0, 9)]


def last_active_slab(fn, slab, se):
    """the slab whose cursors are handed back must be one that merged something: a variable that the per-slab fragment
    sets to the slab's index exactly when the slab merges at least one element"""
    d = ref_of(slab)
    if d is None:
        return False, "which is a fixed slab (%s)" % dtable.describe(slab)
    if d not in se.outer:
        assigned = any(match.binop(z, ("=",)) and ref_of(match.binop(z, ("=",))[1]) == d for z in fn.nodes() if z["k"] == "BinaryOperator")
        if assigned:
            raise dtable.Undecidable("%s: %s is set outside the per-slab loop" % (fn.loc, dtable.describe(slab)))
        return False, "which is never set to the last active slab"
    for L, S, P in GRID:
        r = se.point(L, S, P)
        got = r["env"].get(d)
        if got not in (-1, IAM):
            return False, "which is set to something other than the slab's index"
        active = r["called"] and r["length"] is not None and r["length"] > 0
        if (got == IAM) != active:
            return False, ("which is recorded for a slab that merges nothing (local %d, position %d, size %d)" % (L, P, S)) if got == IAM else \
                ("which is not recorded for a slab that merges %d elements (local %d, position %d, size %d)" % (r["length"], L, P, S))
    return True, ""


def check_base(ck, tu, fn):
    tag = "parallel_multiway_merge_base<%s>" % fn.targs[0]
    sizep = fn.params[3]["did"]
    g = cfgm.CFG(fn)
    # ---- ZERO-LENGTH: early return when nothing is to be merged, before the split ranks are computed
    splits = [c for c in fn.nodes() if "callee" in c and c["callee"]["name"] in ("multiway_merge_exact_splitting", "multiway_merge_sampling_splitting")]
    ck.require(len(splits) == 2, "%s: splitting calls not found" % fn.loc)
    okz = False
    for x in fn.nodes():
        if x["k"] == "IfStmt" and kids(x)[1] is not None and any(y["k"] == "ReturnStmt" for y in ir.walk(kids(x)[1])):
            for y in ir.walk(kids(x)[0]):
                b = match.binop(y, ("==", "<=", "<"))
                if b and ref_of(b[1]) == sizep and ((const_int(b[2]) == 0 and b[0] in ("==", "<=")) or (const_int(b[2]) == 1 and b[0] == "<")):
                    if all(g.dominates(g.pos_deep(kids(x)[0]), g.pos(s)) for s in splits):
                        okz = True
    if okz:
        ck.ok("ZERO-LENGTH", tag, "size == 0 returns before any split rank is computed")
    else:
        ck.violation("ZERO-LENGTH", fn.qname, tag, "a merge of zero elements from non-empty inputs reaches the splitter, whose ranks are then -1", fn.loc)
    # ---- slab quantities: where each worker writes, how much, and which slab's cursors are handed back
    lam, idxvar = check_fork_join(ck, tu, fn, tag)
    se = SlabEval(fn, lam, sizep, idxvar)
    if lam is not None:
        writes = []
        for y in lam.nodes():
            b = match.binop(y)
            if b and b[0] in ("=", "+=", "-=") and strip_casts(y)["k"] in ("BinaryOperator", "CompoundAssignOperator"):
                t = strip_casts(b[1])
                if not (t["k"] == "DeclRefExpr" and t["ref"]["kind"] == "local"):
                    writes.append(y)
        calls = [z for z in lam.nodes() if "callee" in z and z["callee"]["name"] == "multiway_merge_base"]
        rows = [match.index_parts(kids(z)[0]) for c in calls for z in ir.walk(kids(c)[0]) if "callee" in z and z["callee"]["name"] in ("begin", "end") and match.index_parts(kids(z)[0])]
        # where the slab is written and how much of it: on a grid of (local size L, requested size S, slab position P)
        badpos = badlen = None
        for L, S, P in GRID:
            r = se.point(L, S, P)
            if r["called"] and (r["pos"] is None or r["length"] is None):
                raise dtable.Undecidable("%s: destination / length of the per-thread merge not understood" % lam.loc)
            want = max(0, min(L, S - P))
            if r["called"] and r["length"] != 0 and r["pos"] != P and badpos is None:
                badpos = (L, S, P, r)
            if r["length"] != want and badlen is None:
                badlen = (L, S, P, r["length"], want, r)
        if writes:
            ck.violation("WORKER-WRITES", fn.qname, tag, "the worker lambda writes shared state directly: %s" % dtable.describe(writes[0])[:60], lam.nloc(writes[0]))
        elif len(calls) != 1:
            ck.violation("WORKER-WRITES", fn.qname, tag + ":merge", "expected exactly one per-thread multiway_merge_base call, found %d" % len(calls), lam.loc)
        elif not rows or ir.ref_name(rows[0][0]) != "chunks":
            ck.violation("WORKER-WRITES", fn.qname, tag + ":merge", "the worker does not merge a row of chunks[]", lam.loc)
        elif badpos:
            L, S, P, r = badpos
            ck.violation("WORKER-WRITES", fn.qname, tag + ":merge", "the worker does not write to target + (sum over the sequences of chunk begin - sequence begin): "
                         "a slab at position %d is written to target + %s" % (P, r["pos"]), lam.nloc(calls[0]))
        else:
            ck.ok("WORKER-WRITES", tag, "the worker only updates locals and merges its own chunk row into target + (sum of the slab's offsets)")
        if badlen:
            L, S, P, got, want, r = badlen
            ck.violation("SLAB-LENGTH", fn.qname, tag, "a slab with %d elements that starts at output position %d merges %d elements for a requested size of %d "
                         "(it must merge max(0, min(local, size - position)) = %d): with sampling splitting a slab can begin behind `size`, the negative "
                         "length then writes past the requested range" % (L, P, got, S, want), lam.nloc(calls[0]) if calls else lam.loc)
        else:
            ck.ok("SLAB-LENGTH", tag, "merged length = max(0, min(local size, size - position)) on a 4x7x9 grid of (local, size, position), "
                  "evaluated through the per-slab fragment and the worker")
    # ---- ADVANCE-EXACT
    adv = []
    for x in fn.nodes():
        b = match.binop(x, ("=",))
        if b:
            f = match.field_of(b[1])
            f2 = match.field_of(b[2])
            if f and f[1] == "first" and ir.ref_name(f[0]) is None and f2 and match.index_parts(f2[0]):
                pp = match.index_parts(f2[0])
                if match.index_parts(pp[0]) and ir.ref_name(match.index_parts(pp[0])[0]) == "chunks":
                    adv.append((x, f2[1], match.index_parts(pp[0])[1]))
    ck.require(len(adv) == 1, "%s: input advancement not found" % fn.loc)
    x, member, slab = adv[0]
    slab_ok, why = last_active_slab(fn, slab, se)
    if member != "first":
        ck.violation("ADVANCE-EXACT", fn.qname, tag, "inputs are advanced to chunks[%s].%s: the end of a slab, not the position up to which it was merged "
                     "(with sampling splitting and size < total the inputs appear fully consumed)" % (dtable.describe(slab), member), fn.nloc(x))
    elif not slab_ok:
        ck.violation("ADVANCE-EXACT", fn.qname, tag + ":slab", "inputs are advanced to the cursors of slab %s, %s: with sampling splitting the trailing slabs can start "
                     "behind `size` and merge nothing, their cursors are then ahead of the merged position" % (dtable.describe(slab), why), fn.nloc(x))
    else:
        ck.ok("ADVANCE-EXACT", tag, "inputs advanced to the .first cursors of the last slab that merged something (%s)" % dtable.describe(slab))
    if lam is not None:
        # Stable propagation inside the base
        st = fn.targs[0]
        for c in list(fn.nodes()) + list(lam.nodes()):
            if "callee" in c and c["callee"]["name"] in ("multiway_merge_exact_splitting", "multiway_merge_sampling_splitting", "multiway_merge_base"):
                if (c["callee"].get("targs") or ["?"])[0] != st:
                    ck.violation("STABLE-PROPAGATE", fn.qname, tag + ":" + c["callee"]["name"], "%s<%s> is used inside the %s parallel merge"
                                 % (c["callee"]["name"], c["callee"]["targs"][0], "stable" if st == "true" else "unstable"), fn.nloc(c))
                else:
                    ck.ok("STABLE-PROPAGATE", "%s -> %s" % (tag, c["callee"]["name"]), "Stable=%s" % st, nontrivial=False)


def check_fronts(ck, tu):
    conds = {}
    for q, (st, sen) in FRONT.items():
        fn = tu.one(qname=q)
        pb = [c for c in fn.nodes() if "callee" in c and c["callee"]["name"] == "parallel_multiway_merge_base"]
        sb = [c for c in fn.nodes() if "callee" in c and c["callee"]["name"] == "multiway_merge_base"]
        okk = len(pb) == 1 and len(sb) == 1 and pb[0]["callee"]["targs"][0] == st and sb[0]["callee"]["targs"][:2] == [st, sen]
        fw = okk and [ref_of(a) for a in kids(pb[0])] == [p["did"] for p in fn.params] and [ref_of(a) for a in kids(sb[0])] == [p["did"] for p in fn.params[:6]]
        if okk and fw:
            ck.ok("STABLE-PROPAGATE", q, "parallel base<Stable=%s>, sequential base<%s,%s>, parameters forwarded in order" % (st, st, sen))
        else:
            got = (pb[0]["callee"]["targs"][0] if pb else "?", sb[0]["callee"]["targs"][:2] if sb else "?")
            ck.violation("STABLE-PROPAGATE", q, "front:" + q.split("::")[-1], "%s must use parallel base<%s> and sequential base<%s,%s> with its own parameters (found %s)"
                         % (q.split("::")[-1], st, st, sen, got), fn.loc)
        ifs = [x for x in fn.nodes() if x["k"] == "IfStmt" and any(y is pb[0] for y in ir.walk(kids(x)[1]))] if pb else []
        if ifs:
            conds[q] = dtable.describe(kids(ifs[0])[0])
    if len(set(conds.values())) == 1 and len(conds) == 4:
        ck.ok("FALLBACK-SWITCH", "4 front ends", "identical condition for taking the parallel path: %s" % next(iter(conds.values()))[:120])
    else:
        odd = [q for q, c in conds.items() if list(conds.values()).count(c) == 1]
        ck.violation("FALLBACK-SWITCH", (odd or list(FRONT))[0], "condition", "the front ends decide differently when to merge in parallel", "tlx/algorithm/parallel_multiway_merge.hpp")


def run(ck):
    ck.explanation = (
        "Equality with the sequential merge depends on partition values and is not decided. Decided necessary conditions: the split tables are "
        "filled on every path before they are read (not inside a loop that may run zero times), a zero-length merge returns before ranks are "
        "computed, with size < total the last slab ends at the rank-size partition and the inputs are advanced to the merged position, every "
        "started thread is joined, the worker lambda captures its index by copy and writes only through target + target_position, the Stable "
        "flag reaches the splitters and the per-thread merges, and the four front ends share one fallback condition. the per-slab length equals max(0, min(slab size, size - slab position)) "
        "(with sampling splitting a slab can begin behind size) and the cursors handed back are those of the last slab that merged anything. Four genuine "
        "defects were found in this code (one-thread partial merge, size 0, over-advanced inputs, negative slab length) and fixed.")
    types = ["int"] if ck.tier == "quick" else ["int", "std::string"]
    for t in types:
        tu = ir.extract("witness/C07_parallel_merge.cpp", defines=["WITNESS_T=" + t], extra_flags=["-include", "string"])
        for fn in tu.some(qname=EXACT):
            check_exact(ck, fn)
        for fn in tu.some(qname=BASE):
            check_base(ck, tu, fn)
        check_fronts(ck, tu)
        from rules import c09
        from rules.parcommon import check_comp_threaded_all
        nct = check_comp_threaded_all(ck, tu, ("tlx::multiway_merge_detail::", "tlx::parallel_multiway_merge", "tlx::multiway_merge_"))
        ck.require(nct >= 2, "no standard ordering algorithm found below the expected namespaces")
        from rules import c08
        ck.require(c08.check_partition_in(ck, tu) >= 1, "exact splitting must reach multisequence_partition")
        nt = c09.check_trees_in(ck, tu)
        ck.require(nt >= 4, "the per-thread merges use loser trees for k >= 5; expected 4 instantiated classes, found %d" % nt)
    m = len(types)
    ck.floor("SPLIT-DEFINITE-INIT", 2 * m)
    ck.floor("ZERO-LENGTH", 2 * m)
    ck.floor("ADVANCE-EXACT", 2 * m)
    ck.floor("SLAB-LENGTH", 2 * m)
    ck.floor("FORK-JOIN", 2 * m)
    ck.floor("INDEX-BY-COPY", 2 * m)
    ck.floor("WORKER-WRITES", 2 * m)
    ck.floor("STABLE-PROPAGATE", 8 * m)
    ck.floor("FALLBACK-SWITCH", 1 * m)
