"""C07 — parallel multiway merge: definite initialisation of the split tables, zero-length
early return, exact input advancement, last-slab end, fork/join, worker writes,
Stable propagation, fallback condition agreement."""
from engine import ir, dtable, match, cfg as cfgm
from engine.ir import kids, strip_casts, const_int, ref_of
from rules.parcommon import check_fork_join

BASE = "tlx::parallel_multiway_merge_base"
EXACT = "tlx::multiway_merge_exact_splitting"
FRONT = {"tlx::parallel_multiway_merge": ("false", "false"), "tlx::stable_parallel_multiway_merge": ("true", "false"),
         "tlx::parallel_multiway_merge_sentinels": ("false", "true"), "tlx::stable_parallel_multiway_merge_sentinels": ("true", "true")}


def ancestors(fn, node):
    out = []
    par = fn.parent(node)
    while par is not None:
        out.append(par)
        par = fn.parent(par)
    return out


def check_exact(ck, fn):
    tag = "exact_splitting<%s>" % fn.targs[0]
    sizep = fn.params[2]["did"]
    nthreads = fn.params[6]["did"]
    # ---- SPLIT-DEFINITE-INIT: the fill of offsets[num_threads - 1] must not sit in a loop that can run zero times
    fills = []
    for x in fn.nodes():
        if "callee" in x and x["callee"]["name"] == "resize" and x.get("member_call"):
            p = match.index_parts(kids(x)[0])
            if p and ir.ref_name(p[0]) == "offsets":
                fills.append((x, p[1]))
    last = [(x, i) for x, i in fills if match.binop(i, ("-",)) and ref_of(match.binop(i, ("-",))[1]) == nthreads and const_int(match.binop(i, ("-",))[2]) == 1]
    inloop = [(x, i) for x, i in fills if ref_of(i) is not None]
    ck.require(inloop, "%s: per-slab offsets fill not found" % fn.loc)
    reads_last = False
    for x in fn.nodes():
        b = match.binop(x, ("=",))
        if b:
            f = match.field_of(b[1])
            if f and f[1] == "second":
                reads_last = True
    reads_lastslab = any(match.index_parts(y) and match.index_parts(match.index_parts(y)[0]) and ir.ref_name(match.index_parts(match.index_parts(y)[0])[0]) == "offsets"
                         and ir.ref_name(match.index_parts(match.index_parts(y)[0])[1]) == "slab" for y in fn.nodes() if y["k"] in ("CXXOperatorCallExpr", "ArraySubscriptExpr"))
    if not last:
        # the last slab may simply extend to the end of the sequences (the caller limits the merge length and advances the inputs by what was merged)
        guards = [x for x in fn.nodes() if x["k"] == "IfStmt" and any(ir.ref_name(y) == "tight" for y in ir.walk(kids(x)[0]))]
        if guards:
            ck.violation("SPLIT-DEFINITE-INIT", fn.qname, tag + ":missing", "offsets[num_threads - 1] is read when size < total but never filled", fn.loc)
        else:
            ck.ok("SPLIT-DEFINITE-INIT", tag, "offsets[s] filled for s < T-1; the last slab ends at the end of the sequences")
    else:
        x = last[0][0]
        loops = [a for a in ancestors(fn, x) if a["k"] in ("ForStmt", "WhileStmt")]
        if loops:
            ck.violation("SPLIT-DEFINITE-INIT", fn.qname, tag + ":in-loop",
                         "offsets[num_threads - 1] is filled inside a loop over the first num_threads - 1 slabs: with one thread the loop does not run and the "
                         "table is read empty", fn.nloc(x))
        else:
            ck.ok("SPLIT-DEFINITE-INIT", tag, "offsets[s] filled for s < T-1 in the slab loop, offsets[T-1] unconditionally when !tight")


def slab_model(fn, lam, sizep):
    """resolves the arguments of the per-thread multiway_merge_base call to functions of (L, S, P): the slab's own size,
    the requested size and the slab's output position.  Works for quantities computed inside the worker and for
    quantities precomputed per slab in vectors indexed by the worker's index."""
    ctxs = [c for c in (lam, fn) if c is not None]
    calls = [(c, z) for c in ctxs for z in c.nodes() if "callee" in z and z["callee"]["name"] == "multiway_merge_base"]
    if len(calls) != 1:
        return dict(problem="expected exactly one per-thread multiway_merge_base call, found %d" % len(calls))
    ctx, call = calls[0]
    a = kids(call)
    # stores into per-slab vectors in the enclosing function:  vec[j] = expr
    stores = {}
    for z in fn.nodes():
        b = match.binop(z, ("=",)) if z["k"] in ("BinaryOperator", "CXXOperatorCallExpr") else None
        if b:
            ip = match.index_parts(b[1])
            if ip and ir.ref_of(ip[0]) is not None and "vector" in (strip_casts(ip[0]).get("ty") or ""):
                stores.setdefault(ir.ref_of(ip[0]), []).append((b[2], z))

    def accum_kind(c, did):
        """'P' for v += chunks[i][s].first - seqs[s].first, 'L' for v += chunks[i][s].second - chunks[i][s].first"""
        kinds = set()
        for z in c.nodes():
            if z["k"] == "CompoundAssignOperator" and z.get("op") == "+=" and ref_of(kids(z)[0]) == did:
                d = match.binop(kids(z)[1], ("-",))
                if not d:
                    return None
                l, r = match.field_of(d[1]), match.field_of(d[2])
                if l and r and l[1] == "first" and r[1] == "first":
                    kinds.add("P")
                elif l and r and l[1] == "second" and r[1] == "first":
                    kinds.add("L")
                else:
                    return None
        return kinds.pop() if len(kinds) == 1 else None

    def build(e, c, depth=0):
        """expression -> python function of (L, S, P) or None"""
        e = match.strip_conv(e)
        if depth > 8 or e is None:
            return None
        v = const_int(e)
        if v is not None:
            return lambda L, S, P, v=v: v
        if e["k"] == "ParenExpr":
            return build(kids(e)[0], c, depth + 1)
        if ref_of(e) == sizep:
            return lambda L, S, P: S
        d = ref_of(e)
        if d is not None:
            k = accum_kind(c, d) or (accum_kind(fn, d) if c is not fn else None)
            if k == "P":
                return lambda L, S, P: P
            if k == "L":
                return lambda L, S, P: L
            for cc in (c, fn):
                for z in cc.nodes():
                    if z["k"] == "VarDecl" and z.get("did") == d and kids(z) and kids(z)[0] is not None:
                        return build(kids(z)[0], cc, depth + 1)
            return None
        ip = match.index_parts(e)
        if ip and ref_of(ip[0]) in stores and len(stores[ref_of(ip[0])]) == 1:
            return build(stores[ref_of(ip[0])][0][0], fn, depth + 1)
        if "callee" in e and e["callee"]["name"] in ("min", "max") and len(kids(e)) == 2:
            f, g = build(kids(e)[0], c, depth + 1), build(kids(e)[1], c, depth + 1)
            if f is None or g is None:
                return None
            op = min if e["callee"]["name"] == "min" else max
            return lambda L, S, P: op(f(L, S, P), g(L, S, P))
        b = match.binop(e, ("-", "+"))
        if b:
            f, g = build(b[1], c, depth + 1), build(b[2], c, depth + 1)
            if f is None or g is None:
                return None
            if b[0] == "-":
                return lambda L, S, P: f(L, S, P) - g(L, S, P)
            return lambda L, S, P: f(L, S, P) + g(L, S, P)
        return None
    # destination: target + position
    tb = match.binop(a[2], ("+",))
    pos = build(tb[2], ctx) if tb and ir.ref_name(tb[1]) == "target" else None
    if pos is None or any(pos(L, S, P) != P for L in (0, 2) for S in (0, 5) for P in (0, 3, 7)):
        return dict(problem="the worker does not write to target + (sum over the sequences of chunk begin - sequence begin): %s" % dtable.describe(a[2])[:80])
    length = build(a[3], ctx)
    if length is None:
        return dict(problem="the length handed to the per-thread merge is not understood: %s" % dtable.describe(a[3])[:80])
    # the chunk row merged is the worker's own
    rows = [match.index_parts(kids(z)[0]) for z in ir.walk(a[0]) if "callee" in z and z["callee"]["name"] in ("begin", "end") and match.index_parts(kids(z)[0])]
    if not rows or ir.ref_name(rows[0][0]) != "chunks":
        return dict(problem="the worker does not merge a row of chunks[]")
    return dict(length=length, call=call, ctx=ctx, stores=stores, length_expr=a[3])


def last_active_slab(fn, slab, sizes):
    """the slab whose cursors are handed back must be one that merged something: a variable that is only ever set to a slab
    index under a `length > 0` test of that slab"""
    d = ref_of(slab)
    if d is None:
        return False, "which is a fixed slab (%s)" % dtable.describe(slab)
    assigns = []
    for z in fn.nodes():
        b = match.binop(z, ("=",)) if z["k"] == "BinaryOperator" else None
        if b and ref_of(b[1]) == d:
            assigns.append(z)
    if not assigns:
        return False, "which is never set to the last active slab"
    for z in assigns:
        par = fn.parent(z)
        while par is not None and par["k"] != "IfStmt":
            par = fn.parent(par)
        if par is None:
            return False, "which is set unconditionally"
        c = match.binop(kids(par)[0], (">", "!=", ">="))
        if not c or not ((c[0] in (">", "!=") and const_int(c[2]) == 0) or (c[0] == ">=" and const_int(c[2]) == 1)):
            return False, "which is set under a condition that is not a positive-length test"
        ip = match.index_parts(c[1])
        jv = ref_of(match.binop(z, ("=",))[2])
        if not ip or ref_of(ip[1]) != jv or ref_of(ip[0]) not in (sizes.get("stores") or {}):
            return False, "whose guard does not test the length of the slab it records"
    return True, ""


def check_base(ck, tu, fn):
    tag = "parallel_multiway_merge_base<%s>" % fn.targs[0]
    sizep = fn.params[3]["did"]
    g = cfgm.CFG(fn)
    # ---- ZERO-LENGTH: early return when nothing is to be merged, before the split ranks are computed
    splits = [c for c in fn.nodes() if "callee" in c and c["callee"]["name"] in ("multiway_merge_exact_splitting", "multiway_merge_sampling_splitting")]
    ck.require(len(splits) == 2, "%s: splitting calls not found" % fn.loc)
    okz = False
    for x in fn.nodes():
        if x["k"] == "IfStmt" and kids(x)[1] is not None and any(y["k"] == "ReturnStmt" for y in ir.walk(kids(x)[1])):
            for y in ir.walk(kids(x)[0]):
                b = match.binop(y, ("==", "<=", "<"))
                if b and ref_of(b[1]) == sizep and ((const_int(b[2]) == 0 and b[0] in ("==", "<=")) or (const_int(b[2]) == 1 and b[0] == "<")):
                    if all(g.dominates(g.pos_deep(kids(x)[0]), g.pos(s)) for s in splits):
                        okz = True
    if okz:
        ck.ok("ZERO-LENGTH", tag, "size == 0 returns before any split rank is computed")
    else:
        ck.violation("ZERO-LENGTH", fn.qname, tag, "a merge of zero elements from non-empty inputs reaches the splitter, whose ranks are then -1", fn.loc)
    # ---- slab quantities: where each worker writes, how much, and which slab's cursors are handed back
    lam, idxvar = check_fork_join(ck, tu, fn, tag)
    sizes = slab_model(fn, lam, sizep)
    if lam is not None:
        writes = []
        for y in lam.nodes():
            b = match.binop(y)
            if b and b[0] in ("=", "+=", "-=") and strip_casts(y)["k"] in ("BinaryOperator", "CompoundAssignOperator"):
                t = strip_casts(b[1])
                if not (t["k"] == "DeclRefExpr" and t["ref"]["kind"] == "local"):
                    writes.append(y)
        if writes:
            ck.violation("WORKER-WRITES", fn.qname, tag, "the worker lambda writes shared state directly: %s" % dtable.describe(writes[0])[:60], lam.nloc(writes[0]))
        elif sizes.get("problem"):
            ck.violation("WORKER-WRITES", fn.qname, tag + ":merge", sizes["problem"], lam.loc)
        else:
            ck.ok("WORKER-WRITES", tag, "the worker only updates locals and merges its own chunk row into target + (sum of the slab's offsets)")
        if not sizes.get("problem"):
            # the length handed to the per-thread merge, as a function of (local size L, requested size S, slab position P)
            bad = None
            for L in range(0, 4):
                for S in range(0, 7):
                    for P in range(0, 9):
                        got = sizes["length"](L, S, P)
                        want = max(0, min(L, S - P))
                        if got != want and bad is None:
                            bad = (L, S, P, got, want)
            if bad:
                L, S, P, got, want = bad
                ck.violation("SLAB-LENGTH", fn.qname, tag, "a slab with %d elements that starts at output position %d merges %d elements for a requested size of %d "
                             "(it must merge max(0, min(local, size - position)) = %d): with sampling splitting a slab can begin behind `size`, the negative "
                             "length then writes past the requested range" % (L, P, got, S, want), lam.nloc(sizes["call"]))
            else:
                ck.ok("SLAB-LENGTH", tag, "length = max(0, min(local size, size - position)) on a 4x7x9 grid of (local, size, position)")
    # ---- ADVANCE-EXACT
    adv = []
    for x in fn.nodes():
        b = match.binop(x, ("=",))
        if b:
            f = match.field_of(b[1])
            f2 = match.field_of(b[2])
            if f and f[1] == "first" and ir.ref_name(f[0]) is None and f2 and match.index_parts(f2[0]):
                pp = match.index_parts(f2[0])
                if match.index_parts(pp[0]) and ir.ref_name(match.index_parts(pp[0])[0]) == "chunks":
                    adv.append((x, f2[1], match.index_parts(pp[0])[1]))
    ck.require(len(adv) == 1, "%s: input advancement not found" % fn.loc)
    x, member, slab = adv[0]
    slab_ok, why = last_active_slab(fn, slab, sizes)
    if member != "first":
        ck.violation("ADVANCE-EXACT", fn.qname, tag, "inputs are advanced to chunks[%s].%s: the end of a slab, not the position up to which it was merged "
                     "(with sampling splitting and size < total the inputs appear fully consumed)" % (dtable.describe(slab), member), fn.nloc(x))
    elif not slab_ok:
        ck.violation("ADVANCE-EXACT", fn.qname, tag + ":slab", "inputs are advanced to the cursors of slab %s, %s: with sampling splitting the trailing slabs can start "
                     "behind `size` and merge nothing, their cursors are then ahead of the merged position" % (dtable.describe(slab), why), fn.nloc(x))
    else:
        ck.ok("ADVANCE-EXACT", tag, "inputs advanced to the .first cursors of the last slab that merged something (%s)" % dtable.describe(slab))
    if lam is not None:
        # Stable propagation inside the base
        st = fn.targs[0]
        for c in list(fn.nodes()) + list(lam.nodes()):
            if "callee" in c and c["callee"]["name"] in ("multiway_merge_exact_splitting", "multiway_merge_sampling_splitting", "multiway_merge_base"):
                if (c["callee"].get("targs") or ["?"])[0] != st:
                    ck.violation("STABLE-PROPAGATE", fn.qname, tag + ":" + c["callee"]["name"], "%s<%s> is used inside the %s parallel merge"
                                 % (c["callee"]["name"], c["callee"]["targs"][0], "stable" if st == "true" else "unstable"), fn.nloc(c))
                else:
                    ck.ok("STABLE-PROPAGATE", "%s -> %s" % (tag, c["callee"]["name"]), "Stable=%s" % st, nontrivial=False)


def check_fronts(ck, tu):
    conds = {}
    for q, (st, sen) in FRONT.items():
        fn = tu.one(qname=q)
        pb = [c for c in fn.nodes() if "callee" in c and c["callee"]["name"] == "parallel_multiway_merge_base"]
        sb = [c for c in fn.nodes() if "callee" in c and c["callee"]["name"] == "multiway_merge_base"]
        okk = len(pb) == 1 and len(sb) == 1 and pb[0]["callee"]["targs"][0] == st and sb[0]["callee"]["targs"][:2] == [st, sen]
        fw = okk and [ref_of(a) for a in kids(pb[0])] == [p["did"] for p in fn.params] and [ref_of(a) for a in kids(sb[0])] == [p["did"] for p in fn.params[:6]]
        if okk and fw:
            ck.ok("STABLE-PROPAGATE", q, "parallel base<Stable=%s>, sequential base<%s,%s>, parameters forwarded in order" % (st, st, sen))
        else:
            got = (pb[0]["callee"]["targs"][0] if pb else "?", sb[0]["callee"]["targs"][:2] if sb else "?")
            ck.violation("STABLE-PROPAGATE", q, "front:" + q.split("::")[-1], "%s must use parallel base<%s> and sequential base<%s,%s> with its own parameters (found %s)"
                         % (q.split("::")[-1], st, st, sen, got), fn.loc)
        ifs = [x for x in fn.nodes() if x["k"] == "IfStmt" and any(y is pb[0] for y in ir.walk(kids(x)[1]))] if pb else []
        if ifs:
            conds[q] = dtable.describe(kids(ifs[0])[0])
    if len(set(conds.values())) == 1 and len(conds) == 4:
        ck.ok("FALLBACK-SWITCH", "4 front ends", "identical condition for taking the parallel path: %s" % next(iter(conds.values()))[:120])
    else:
        odd = [q for q, c in conds.items() if list(conds.values()).count(c) == 1]
        ck.violation("FALLBACK-SWITCH", (odd or list(FRONT))[0], "condition", "the front ends decide differently when to merge in parallel", "tlx/algorithm/parallel_multiway_merge.hpp")


def run(ck):
    ck.explanation = (
        "Equality with the sequential merge depends on partition values and is not decided. Decided necessary conditions: the split tables are "
        "filled on every path before they are read (not inside a loop that may run zero times), a zero-length merge returns before ranks are "
        "computed, with size < total the last slab ends at the rank-size partition and the inputs are advanced to the merged position, every "
        "started thread is joined, the worker lambda captures its index by copy and writes only through target + target_position, the Stable "
        "flag reaches the splitters and the per-thread merges, and the four front ends share one fallback condition. the per-slab length equals max(0, min(slab size, size - slab position)) "
        "(with sampling splitting a slab can begin behind size) and the cursors handed back are those of the last slab that merged anything. Four genuine "
        "defects were found in this code (one-thread partial merge, size 0, over-advanced inputs, negative slab length) and fixed.")
    types = ["int"] if ck.tier == "quick" else ["int", "std::string"]
    for t in types:
        tu = ir.extract("witness/C07_parallel_merge.cpp", defines=["WITNESS_T=" + t], extra_flags=["-include", "string"])
        for fn in tu.some(qname=EXACT):
            check_exact(ck, fn)
        for fn in tu.some(qname=BASE):
            check_base(ck, tu, fn)
        check_fronts(ck, tu)
        from rules import c09
        from rules.parcommon import check_comp_threaded_all
        nct = check_comp_threaded_all(ck, tu, ("tlx::multiway_merge_detail::", "tlx::parallel_multiway_merge", "tlx::multiway_merge_"))
        ck.require(nct >= 2, "no standard ordering algorithm found below the expected namespaces")
        from rules import c08
        ck.require(c08.check_partition_in(ck, tu) >= 1, "exact splitting must reach multisequence_partition")
        nt = c09.check_trees_in(ck, tu)
        ck.require(nt >= 4, "the per-thread merges use loser trees for k >= 5; expected 4 instantiated classes, found %d" % nt)
    m = len(types)
    ck.floor("SPLIT-DEFINITE-INIT", 2 * m)
    ck.floor("ZERO-LENGTH", 2 * m)
    ck.floor("ADVANCE-EXACT", 2 * m)
    ck.floor("SLAB-LENGTH", 2 * m)
    ck.floor("FORK-JOIN", 2 * m)
    ck.floor("INDEX-BY-COPY", 2 * m)
    ck.floor("WORKER-WRITES", 2 * m)
    ck.floor("STABLE-PROPAGATE", 8 * m)
    ck.floor("FALLBACK-SWITCH", 1 * m)
