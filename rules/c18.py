"""C18 — StringView vs std::string_view: banned NUL-terminated primitives, unsigned byte
order, guard tables (integer small-model evaluation of the clamping/early-return prefix),
validated position reaches the access, raw scan bounds, relational derivation, overload roles."""
from engine import ir, dtable, match, cfg as cfgm
from engine.ir import kids, strip_casts, const_int, ref_of

SV = "tlx::StringView"
M64 = (1 << 64) - 1
NPOS = M64
CSTR_BANNED = ("strcmp", "strncmp", "strchr", "strrchr", "strstr", "strcpy", "strncpy", "strcat", "strspn", "strcspn", "strpbrk", "strcoll")


def sig(fn):
    return "%s(%s)" % (fn.name, ",".join(p["ty"].replace("tlx::StringView", "SV").replace("unsigned long", "size_t") for p in fn.params))


# ---------------------------------------------------------------- integer guard evaluation
class Stop(Exception):
    def __init__(self, kind, payload=None):
        self.kind, self.payload = kind, payload


class GuardEval:
    """evaluates the integer prefix of a StringView query on a small model (size_, parameters)"""

    def __init__(self, fn, size, args, views):
        self.fn = fn
        self.S = size
        self.env = dict(args)        # did -> int
        self.views = views           # did -> size of a StringView parameter
        self.iters = {}              # did of an iterator local -> ("fwd"|"rev", offset) | ("end", dir)

    def ev(self, e):
        e = strip_casts(e)
        k = e["k"]
        c = const_int(e)
        if k in ("IntegerLiteral", "CXXBoolLiteralExpr"):
            return c & M64 if k == "IntegerLiteral" else c
        if k == "DeclRefExpr":
            did = e["ref"]["id"]
            if did in self.env:
                return self.env[did]
            if e["ref"]["name"] == "npos" or c is not None:
                return (c if c is not None else NPOS) & M64
            raise Stop("opaque", e)
        if k == "MemberExpr":
            f = match.field_of(e)
            if e.get("member") == "npos":
                return NPOS
            if f and f[1] == "size_":
                base = strip_casts(f[0])
                if base["k"] == "This":
                    return self.S
                if ref_of(base) in self.views:
                    return self.views[ref_of(base)]
            raise Stop("opaque", e)
        if "callee" in e:
            name = e["callee"]["name"]
            args = kids(e)
            if e.get("member_call") and name in ("size", "length", "empty"):
                obj = strip_casts(args[0])
                sz = self.S if obj["k"] == "This" else self.views.get(ref_of(obj))
                if sz is None:
                    raise Stop("opaque", e)
                return sz if name != "empty" else int(sz == 0)
            if name in ("min", "max") and len(args) == 2:
                a, b = self.ev(args[0]), self.ev(args[1])
                return min(a, b) if name == "min" else max(a, b)
            raise Stop("opaque", e)
        if k == "UnaryOperator" and e["op"] == "!":
            return int(not self.ev(kids(e)[0]))
        b = match.binop(e)
        if b and k in ("BinaryOperator",):
            op, l, r = b
            if op == "&&":
                return int(bool(self.ev(l)) and bool(self.ev(r)))
            if op == "||":
                return int(bool(self.ev(l)) or bool(self.ev(r)))
            x, y = self.ev(l), self.ev(r)
            if op == "+":
                return (x + y) & M64
            if op == "-":
                return (x - y) & M64
            if op in ("<", ">", "<=", ">=", "==", "!="):
                return int({"<": x < y, ">": x > y, "<=": x <= y, ">=": x >= y, "==": x == y, "!=": x != y}[op])
        if k == "ConditionalOperator":
            c0, a, b2 = kids(e)
            return self.ev(a) if self.ev(c0) else self.ev(b2)
        raise Stop("opaque", e)

    def run(self, s):
        k = s["k"]
        if k == "CompoundStmt":
            for c in kids(s):
                self.run(c)
            return
        if k == "IfStmt":
            c, t, e = kids(s)
            if self.ev(c):
                self.run(t)
            elif e is not None:
                self.run(e)
            return
        if k == "ReturnStmt":
            raise Stop("return", kids(s)[0] if kids(s) else None)
        if k == "CXXThrowExpr":
            raise Stop("throw", s)
        if k == "DeclStmt":
            for v in kids(s):
                if kids(v):
                    try:
                        self.env[v["did"]] = self.ev(kids(v)[0])
                    except Stop as st:
                        if st.kind == "opaque":
                            it = iter_value(self, kids(v)[0])
                            if it is not None:
                                self.iters[v["did"]] = it       # a named position of this view, the scan comes later
                                continue
                            raise Stop("scan", kids(v)[0])
                        raise
            return
        if k in ("ForStmt", "WhileStmt", "DoStmt"):
            raise Stop("scan", s)
        if k in ("CXXStaticCastExpr",) and s.get("ty") == "void":
            return
        b = match.binop(s, ("=", "-=", "+="))
        if b and strip_casts(b[1])["k"] == "DeclRefExpr":
            v = self.ev(b[2])
            did = ref_of(b[1])
            if b[0] == "=":
                self.env[did] = v
            elif b[0] == "-=":
                self.env[did] = (self.env[did] - v) & M64
            else:
                self.env[did] = (self.env[did] + v) & M64
            return
        raise Stop("scan", s)


ITER_FACTORIES = ("cbegin", "begin", "crbegin", "rbegin", "cend", "end", "crend", "rend")


def iter_value(ge, e):
    """("fwd"|"rev", offset) / ("end", dir) if e only names a position of this view (cbegin() + E, crend(), a copy of an
    iterator local): no algorithm is called in it"""
    e0 = match.strip_conv(e)
    while e0 is not None and e0["k"] in ("CXXConstructExpr", "MaterializeTemporaryExpr", "ExprWithCleanups", "CXXBindTemporaryExpr", "ParenExpr") and len(kids(e0)) == 1:
        e0 = match.strip_conv(kids(e0)[0])
    if e0 is None:
        return None
    for y in ir.walk(e0):
        if "callee" in y and not (y["callee"]["name"] in ITER_FACTORIES or y.get("op") in ("+",)):
            return None
    d = ref_of(e0)
    if d is not None and d in ge.iters:
        return ge.iters[d]
    b = match.binop(e0, ("+",))
    try:
        if b:
            base = iter_value(ge, b[1])
            if base is not None and base[0] in ("fwd", "rev"):
                return (base[0], (base[1] + ge.ev(b[2])) & M64)
            return None
    except Stop:
        return None
    c = match.call_named(e0, ITER_FACTORIES)
    if c is not None and "callee" in e0 and e0.get("member_call") and strip_casts(kids(e0)[0])["k"] == "This":
        nm = c["callee"]["name"]
        if nm in ("cbegin", "begin"):
            return ("fwd", 0)
        if nm in ("crbegin", "rbegin"):
            return ("rev", 0)
        return ("end", "rev" if nm.startswith(("cr", "r")) else "fwd")
    return None


def scan_start(ge, node):
    """index at which a scan over this view starts: from cbegin()+E / crbegin()+E / ptr_+E inside node"""
    for y in ir.walk(node):
        b = match.binop(y, ("+",))
        if not b:
            continue
        base = strip_casts(b[1])
        if ref_of(base) in ge.iters and ge.iters[ref_of(base)][0] in ("fwd", "rev"):
            try:
                it = ge.iters[ref_of(base)]
                return it[0], (it[1] + ge.ev(b[2])) & M64
            except Stop:
                continue
        c = match.call_named(base, ("cbegin", "begin", "crbegin", "rbegin"))
        try:
            if c is not None and "callee" in base and strip_casts(kids(base)[0])["k"] == "This":
                off = ge.ev(b[2])
                return ("rev" if c["callee"]["name"] in ("crbegin", "rbegin") else "fwd"), off
            if match.this_field(base) == "ptr_":
                return "fwd", ge.ev(b[2])
        except Stop:
            continue
    for y in ir.walk(node):
        c = match.call_named(y, ("cbegin", "begin", "crbegin", "rbegin"))
        if c is not None and "callee" in y and y.get("member_call") and strip_casts(kids(y)[0])["k"] == "This":
            return ("rev" if c["callee"]["name"] in ("crbegin", "rbegin") else "fwd"), 0
        if y["k"] == "DeclRefExpr" and y["ref"]["id"] in ge.iters and ge.iters[y["ref"]["id"]][0] in ("fwd", "rev"):
            return ge.iters[y["ref"]["id"]]
    return None


def spec(name, S, pos, n, ssz):
    """std::string_view guard semantics: ('throw',) | ('ret', v) | ('scan', dir, start_index) | ('sub', off, len)"""
    if name == "at":
        return ("throw",) if pos >= S else ("access", pos)
    if name == "substr":
        return ("throw",) if pos > S else ("sub", pos, min(n, S - pos))
    if name == "copy":
        return ("throw",) if pos > S else ("copy", pos, min(n, S - pos))
    if name == "find":
        if pos > S:
            return ("ret", NPOS)
        if ssz == 0:
            return ("ret", pos)
        return ("scan", "fwd", pos)
    if name == "rfind":
        if ssz > S:
            return ("ret", NPOS)
        p = min(pos, S - ssz)
        if ssz == 0:
            return ("ret", p)
        return ("scan", "fwd", p)
    if name == "find_first_of":
        if pos >= S or ssz == 0:
            return ("ret", NPOS)
        return ("scan", "fwd", pos)
    if name == "find_last_of":
        if S == 0 or ssz == 0:
            return ("ret", NPOS)
        return ("scan", "rev", min(pos, S - 1))
    if name == "find_first_not_of":
        if pos >= S:
            return ("ret", NPOS)
        if ssz == 0:
            return ("ret", pos)
        return ("scan", "fwd", pos)
    if name == "find_last_not_of":
        if S == 0:
            return ("ret", NPOS)
        p = min(pos, S - 1)
        if ssz == 0:
            return ("ret", p)
        return ("scan", "rev", p)
    return None


def check_guards(ck, tu):
    fns = {}
    for fn in tu.find(record=SV):
        if fn.name in ("at", "substr", "copy") or (fn.name in ("find", "rfind", "find_first_of", "find_last_of", "find_first_not_of", "find_last_not_of")
                                                   and fn.params and "tlx::StringView" in fn.params[0]["ty"]):
            fns[fn.name] = fn
    ck.require(len(fns) == 9, "StringView guard functions not all instantiated: %s" % sorted(fns))
    for name, fn in sorted(fns.items()):
        roles = {}
        for p in fn.params:
            if "tlx::StringView" in p["ty"]:
                roles["s"] = p["did"]
            elif p["name"] in ("pos",):
                roles["pos"] = p["did"]
            elif p["name"] in ("n",):
                roles["n"] = p["did"]
        cases = 0
        bad = None
        for S in (0, 1, 2, 3):
            for pos in (0, 1, 2, 3, 4, NPOS - 1, NPOS):
                for n in ((0, 1, 2, 5, NPOS) if "n" in roles else (0,)):
                    for ssz in ((0, 1, 2, 4) if "s" in roles else (1,)):
                        cases += 1
                        args = {}
                        if "pos" in roles:
                            args[roles["pos"]] = pos
                        if "n" in roles:
                            args[roles["n"]] = n
                        ge = GuardEval(fn, S, args, {roles["s"]: ssz} if "s" in roles else {})
                        want = spec(name, S, pos, n, ssz)
                        try:
                            ge.run(fn.body)
                            got = ("fallthrough",)
                        except Stop as st:
                            if st.kind == "throw":
                                got = ("throw",)
                            elif st.kind == "return":
                                e = st.payload
                                try:
                                    got = ("ret", ge.ev(e))
                                except Stop:
                                    es = strip_casts(e)
                                    if name == "substr" and es["k"] in ("CXXConstructExpr", "CXXTemporaryObjectExpr") and len(kids(es)) == 2:
                                        off = scan_offset(ge, kids(es)[0])
                                        try:
                                            ln = ge.ev(kids(es)[1])
                                        except Stop:
                                            ln = None
                                        got = ("sub", off, ln)
                                    elif name == "at":
                                        p = match.index_parts(e)
                                        got = ("access", ge.ev(p[1])) if p and match.this_field(p[0]) == "ptr_" else ("opaque",)
                                    else:
                                        ss = scan_start(ge, e)
                                        got = ("scan", ss[0], (S - 1 - ss[1]) & M64 if ss and ss[0] == "rev" else ss[1]) if ss else ("opaque",)
                            elif st.kind == "scan":
                                node = st.payload
                                if name == "copy":
                                    cp = [y for y in ir.walk(node) if "callee" in y and y["callee"]["name"] in ("copy", "copy_n", "memcpy")]
                                    got = ("opaque",)
                                    if cp:
                                        a = kids(cp[0])
                                        nm_ = cp[0]["callee"]["name"]
                                        if nm_ == "copy":
                                            o1 = scan_offset(ge, a[0])
                                            o2 = scan_offset(ge, a[1])
                                            ln_ = (o2 - o1) & M64 if o1 is not None and o2 is not None else None
                                        else:
                                            # copy_n(first, n, out) / memcpy(out, first, n)
                                            o1 = scan_offset(ge, a[0] if nm_ == "copy_n" else a[1])
                                            try:
                                                ln_ = ge.ev(a[1] if nm_ == "copy_n" else a[2])
                                            except Stop:
                                                ln_ = None
                                        got = ("copy", o1, ln_)
                                else:
                                    ss = scan_start(ge, node)
                                    got = ("scan", ss[0], (S - 1 - ss[1]) & M64 if ss and ss[0] == "rev" else ss[1]) if ss else ("opaque",)
                            else:
                                got = ("opaque",)
                        if got == ("opaque",):
                            raise dtable.Undecidable("%s: guard prefix of %s not understood" % (fn.loc, name))
                        # a scan over an empty range yields npos - provided it starts at the (only) valid position of the empty view
                        if got[0] == "scan" and want[0] == "ret" and want[1] == NPOS and S == 0:
                            raw = (S - 1 - got[2]) & M64 if got[1] == "rev" else got[2]
                            if raw == 0:
                                continue
                            if bad is None:
                                bad = (S, pos, n, ssz, ("scan", got[1], got[2]), want)
                            continue
                        if name == "copy" and got[0] == "copy" and want[0] == "copy" and want[2] == 0 and got[2] == 0:
                            continue
                        if got != want and bad is None:
                            bad = (S, pos, n, ssz, got, want)
        if bad:
            S, pos, n, ssz, got, want = bad

            def f(v):
                return "npos" if v == NPOS else "npos-1" if v == NPOS - 1 else str(v)
            ck.violation("GUARD-TABLES", fn.qname, sig(fn),
                         "%s on a view of size %d with pos=%s%s%s behaves as %s where std::string_view requires %s"
                         % (name, S, f(pos), (", n=" + f(n)) if "n" in roles else "", (", argument size=%d" % ssz) if "s" in roles else "",
                            fmt_out(got), fmt_out(want)), fn.loc)
        else:
            ck.ok("GUARD-TABLES", SV + "::" + sig(fn), "%d small-model cases (size 0..3, pos incl. npos, n, argument size): throw / early return / clamped scan start agree with std::string_view" % cases,
                  sample=dict(rule="GUARD-TABLES", fn=sig(fn), cases=cases))
            ck.states += cases


def scan_offset(ge, e):
    """offset relative to data() of an expression data() [+ E [+ F]]"""
    e = strip_casts(e)
    c = match.call_named(e, ("data", "begin", "cbegin"))
    if (c is not None and "callee" in e) or match.this_field(e) == "ptr_":
        return 0
    b = match.binop(e, ("+",))
    if b:
        base = scan_offset(ge, b[1])
        if base is not None:
            try:
                return (base + ge.ev(b[2])) & M64
            except Stop:
                return None
    return None


def fmt_out(o):
    def f(v):
        return "npos" if v == NPOS else str(v)
    if o[0] == "ret":
        return "return %s" % f(o[1])
    if o[0] == "scan":
        return "%s scan from index %s" % ("backward" if o[1] == "rev" else "forward", f(o[2]))
    if o[0] in ("sub", "copy"):
        return "%s(offset %s, length %s)" % (o[0], f(o[1]) if o[1] is not None else "?", f(o[2]) if o[2] is not None else "?")
    return str(o)


# ---------------------------------------------------------------- other rules
def check_primitives(ck, tu):
    n = 0
    fns = [f for f in tu.functions if f.record == SV or (f.record is None and f.qname.startswith("tlx::operator") and any("StringView" in p["ty"] for p in f.params))]
    for fn in fns:
        n += 1
        for x in fn.nodes():
            if "callee" in x and x["callee"]["name"] in CSTR_BANNED:
                ck.violation("NO-CSTR-PRIMITIVE", fn.qname, sig(fn) + ":" + x["callee"]["name"],
                             "%s treats the length-delimited view as NUL-terminated: bytes after an embedded NUL are ignored" % x["callee"]["name"], fn.nloc(x))
            if "callee" in x and x["callee"]["name"] == "strlen":
                okk = fn.kind == "ctor" and len(fn.params) == 1 and fn.params[0]["ty"] == "const char *"
                if not okk:
                    ck.violation("NO-CSTR-PRIMITIVE", fn.qname, sig(fn) + ":strlen", "strlen outside the const char* constructor", fn.nloc(x))
            if "callee" in x and x["callee"]["name"] == "lexicographical_compare" and len(kids(x)) == 4:
                ck.violation("BYTE-ORDER-UNSIGNED", fn.qname, sig(fn),
                             "std::lexicographical_compare on char iterators orders bytes as (signed) char; std::string_view orders them as unsigned char (char_traits)", fn.nloc(x))
            # hand-written ordering of two bytes read from memory as plain char
            if x["k"] == "BinaryOperator" and x.get("op") in ("<", ">", "<=", ">="):
                ops = [strip_casts(o) for o in kids(x)]
                def is_char_read(o):
                    t = (o.get("ty") or "").replace("const ", "").strip()
                    return t == "char" and (o["k"] == "ArraySubscriptExpr" or (o["k"] == "UnaryOperator" and o.get("op") == "*"))
                # an explicit conversion to unsigned char in between makes the operand type unsigned: strip_casts removed it, so look at the direct children
                direct = [(k.get("ty") or "") for k in kids(x)]
                converted = any(z["k"] in ("CXXStaticCastExpr", "CStyleCastExpr", "CXXFunctionalCastExpr") and "unsigned char" in (z.get("ty") or "")
                                for k in kids(x) for z in ir.walk(k))
                if all(is_char_read(o) for o in ops) and not converted:
                    ck.violation("BYTE-ORDER-UNSIGNED", fn.qname, sig(fn) + ":" + dtable.describe(x)[:40],
                                 "two bytes of the views are ordered as plain (signed) char: %s; std::string_view orders them as unsigned char, so 0x80..0xFF sort "
                                 "after ASCII" % dtable.describe(x)[:60], fn.nloc(x))
            # raw memory primitives on the view: (ptr_ + a, len) must stay inside [0, size_)
            if "callee" in x and x["callee"]["name"] in ("memchr", "memcmp", "memcpy", "compare", "find") and ("std::char_traits" in x["callee"]["qname"] or x["callee"]["name"].startswith("mem")):
                check_scan_bound(ck, fn, x)
    ck.ok("NO-CSTR-PRIMITIVE", "StringView members and operators", "%d functions scanned for NUL-terminated primitives" % n)
    ck.ok("BYTE-ORDER-UNSIGNED", "StringView members and operators", "%d functions scanned for signed byte ordering" % n)


def scan_bound_grid(fn, call, base_off, ln):
    """the call's (offset, length) evaluated on the small model for every combination of sizes and integer parameters
    that reaches it: -> None (all inside), (S, off, len, params) of a combination that runs past the view, or "?" """
    ints = [p for p in fn.params if "tlx::StringView" not in p["ty"] and any(t in p["ty"] for t in ("unsigned long", "size_t", "size_type"))]
    views = [p for p in fn.params if "tlx::StringView" in p["ty"]]
    ids = {y["id"] for y in ir.walk(call)}
    reached = 0
    import itertools
    for S in (0, 1, 2, 3):
        for iv in itertools.product((0, 1, 2, 3, 4, NPOS), repeat=len(ints)):
            for vv in itertools.product((0, 1, 2, 4), repeat=len(views)):
                ge = GuardEval(fn, S, {p["did"]: v for p, v in zip(ints, iv)}, {p["did"]: v for p, v in zip(views, vv)})
                try:
                    ge.run(fn.body)
                    continue
                except Stop as st:
                    if st.kind not in ("scan", "return") or st.payload is None or not any(y["id"] in ids for y in ir.walk(st.payload)):
                        continue
                try:
                    off = ge.ev(base_off) if base_off is not None else 0
                    n = ge.ev(ln)
                except Stop:
                    return "?"
                reached += 1
                if off > S or n > S - off:
                    return (S, off, n, iv, vv)
    return None if reached else "?"


SCAN_LEN_ARG = {"find": 1, "compare": 2, "memcmp": 2, "memcpy": 2, "memchr": 2, "copy": 2, "move": 2}


def check_scan_bound(ck, fn, call):
    args = kids(call)
    name = call["callee"]["name"]
    li = SCAN_LEN_ARG.get(name) if len(args) >= 3 else None
    if li is None:
        return
    base = strip_casts(args[0])
    off = None
    if match.this_field(base) == "ptr_":
        off = "0"
    else:
        b = match.binop(base, ("+",))
        if b and match.this_field(b[1]) == "ptr_":
            off = dtable.describe(b[2])
        elif ref_of(base) is not None:
            return            # cursor variable: covered by the loop's own bounds
        else:
            return
    ln = strip_casts(args[li])
    lt = dtable.describe(ln)
    okk = False
    if off == "0" and (match.this_field(ln) == "size_" or match.call_named(ln, ("min",))):
        okk = True
    if off != "0":
        bb = match.binop(ln, ("-",))
        if bb and match.this_field(bb[1]) == "size_" and dtable.describe(bb[2]) == off:
            okk = True
        m = match.call_named(ln, ("min",))
        if m:
            for a in kids(m):
                b2 = match.binop(a, ("-",))
                if b2 and match.this_field(b2[1]) == "size_" and dtable.describe(b2[2]) == off:
                    okk = True
    f = match.field_of(ln)
    if not okk and f and f[1] == "size_" and strip_casts(f[0])["k"] != "This":
        # other view's size: needs a dominating size_ >= other.size_ (+ off) test
        g = cfgm.CFG(fn)
        for y in fn.nodes():
            bq = match.binop(y, (">=", "<"))
            if bq and match.this_field(bq[1]) == "size_":
                okk = True
    if okk:
        ck.ok("SCAN-BOUND", "%s %s" % (sig(fn), name), "(ptr_ + %s, %s) stays inside the view" % (off, lt), nontrivial=False)
        return
    b0 = match.binop(base, ("+",))
    r = scan_bound_grid(fn, call, b0[2] if b0 else None, args[li])
    if r is None:
        ck.ok("SCAN-BOUND", "%s %s" % (sig(fn), name), "(ptr_ + %s, %s) stays inside the view on the small model (sizes 0..3, parameters incl. npos)" % (off, lt), nontrivial=False)
    elif r == "?":
        raise dtable.Undecidable("%s: range of %s(ptr_ + %s, %s) not understood" % (fn.loc, name, off, lt))
    else:
        S, o_, n_, iv, vv = r
        ck.violation("SCAN-BOUND", fn.qname, sig(fn) + ":" + name,
                     "%s scans %s bytes from ptr_ + %s: on a view of size %d that is %s bytes from offset %s, past the end of the view"
                     % (name, lt, off, S, "npos" if n_ == NPOS else n_, o_), fn.nloc(call))


def check_pos_reaches(ck, tu):
    """a position parameter that is range-checked must flow (through any chain of locals) into an address of the data:
    ptr_ / begin()-family / an iterator local derived from them, plus or indexed by a value that depends on pos; or be
    forwarded to another member"""
    for fn in tu.find(record=SV):
        pos = [p for p in fn.params if p["name"] == "pos"]
        if not pos or not fn.body:
            continue
        did = pos[0]["did"]
        guarded = any(match.binop(y, (">", ">=", "<", "<=")) and ref_of(match.binop(y, (">", ">=", "<", "<="))[1]) == did for y in fn.nodes())
        if not guarded:
            continue

        def mentions(e, ids):
            return any(y["k"] == "DeclRefExpr" and y["ref"]["id"] in ids for y in ir.walk(e))

        def is_data(e, iters):
            for y in ir.walk(e):
                if y["k"] == "MemberExpr" and match.this_field(y) == "ptr_":
                    return True
                if "callee" in y and y.get("member_call") and y["callee"]["name"] in ("data",) + ITER_FACTORIES and strip_casts(kids(y)[0])["k"] == "This":
                    return True
                if y["k"] == "DeclRefExpr" and y["ref"]["id"] in iters:
                    return True
            return False
        defs = []        # (target did, rhs expr)
        for y in fn.nodes():
            if y["k"] == "VarDecl" and kids(y) and kids(y)[0] is not None:
                defs.append((y["did"], kids(y)[0]))
            bq = match.binop(y, ("=", "+=", "-=")) if y["k"] in ("BinaryOperator", "CompoundAssignOperator", "CXXOperatorCallExpr") else None
            if bq and ref_of(bq[1]) is not None:
                defs.append((ref_of(bq[1]), bq[2]))
        tainted, iters = {did}, set()
        changed = True
        while changed:
            changed = False
            for d, rhs in defs:
                if d not in tainted and mentions(rhs, tainted):
                    tainted.add(d); changed = True
                if d not in iters and is_data(rhs, iters):
                    iters.add(d); changed = True
        in_access = False
        for y in fn.nodes():
            bq = match.binop(y, ("+", "-")) if y["k"] in ("BinaryOperator", "CXXOperatorCallExpr") else None
            if bq:
                for addr, idx in ((bq[1], bq[2]), (bq[2], bq[1])):
                    if is_data(addr, iters) and mentions(idx, tainted):
                        in_access = True
            p2 = match.index_parts(y) if y["k"] in ("ArraySubscriptExpr", "CXXOperatorCallExpr") else None
            if p2 and is_data(p2[0], iters) and mentions(p2[1], tainted):
                in_access = True
            if "callee" in y and y["callee"].get("record") == SV and y["callee"]["name"] not in ("size", "empty") and \
                    any(mentions(a_, tainted) for a_ in kids(y)[1:] if a_ is not None):
                in_access = True           # forwarded to another member
        if in_access:
            ck.ok("POS-REACHES-ACCESS", SV + "::" + sig(fn), "the validated position flows into the accessed address", nontrivial=False)
        else:
            ck.violation("POS-REACHES-ACCESS", fn.qname, sig(fn), "pos is range-checked but never used to address the data: the operation always works on the beginning of the view", fn.loc)


REL = {">": (False, True), "<=": (True, True), ">=": (True, False)}


def check_relational(ck, tu):
    for fn in tu.find(record=SV):
        if fn.kind != "operator" or fn.d.get("op") not in REL or len(fn.params) != 1:
            continue
        e = kids([x for x in fn.nodes() if x["k"] == "ReturnStmt"][0])[0]
        neg = False
        u = match.unop(e, ("!",))
        if u:
            neg = True
            e = u[1]
        e = strip_casts(e)
        okk = False
        if "callee" in e and e["callee"]["name"] in ("operator<", "compare"):
            a = kids(e)
            obj, arg = strip_casts(a[0]), strip_casts(a[1])
            d = match.deref_of(arg)
            swapped = ref_of(obj) == fn.params[0]["did"] and d is not None and strip_casts(d)["k"] == "This"
            straight = obj["k"] == "This" and ref_of(arg) == fn.params[0]["did"]
            if e["callee"]["name"] == "operator<" and (swapped or straight):
                okk = (neg, swapped) == REL[fn.d["op"]]
        else:
            b = match.binop(e, ("<", ">", "<=", ">="))
            if b and const_int(b[2]) == 0 and match.call_named(b[1], ("compare",)):
                okk = (b[0] == fn.d["op"]) and not neg
        if okk:
            ck.ok("REL-FROM-COMPARE", "%s::operator%s" % (SV, fn.d["op"]), "derived from the same ordering primitive with the right operand order / negation")
        else:
            ck.violation("REL-FROM-COMPARE", fn.qname, "operator" + fn.d["op"], "operator%s is not the matching derivation of operator< / compare()" % fn.d["op"], fn.loc)
    # operator< and compare must agree: both built on one primitive
    lt = [f for f in tu.find(record=SV) if f.kind == "operator" and f.d.get("op") == "<"]
    cmpf = [f for f in tu.find(record=SV, name="compare") if len(f.params) == 1 and "StringView" in f.params[0]["ty"]]
    if lt and cmpf:
        def prims(f):
            return sorted(set(x["callee"]["qname"] for x in f.nodes() if "callee" in x and x["k"] == "CallExpr" and not x["callee"]["qname"].startswith("std::min")))
        pl, pc = prims(lt[0]), prims(cmpf[0])
        via = any(x["callee"]["name"] == "compare" for x in lt[0].nodes() if "callee" in x)
        if via or pl == pc:
            ck.ok("REL-FROM-COMPARE", SV + "::operator< vs compare", "operator< and compare() are built on the same primitive (%s)" % ("compare" if via else ",".join(pc)))
        else:
            ck.violation("REL-FROM-COMPARE", lt[0].qname, "lt-vs-compare", "operator< (%s) and compare() (%s) order bytes with different primitives" % (pl, pc), lt[0].loc)


FWD = ("find", "rfind", "find_first_of", "find_last_of", "find_first_not_of", "find_last_not_of")


def check_overloads(ck, tu):
    for fn in tu.find(record=SV):
        if fn.name not in FWD or not fn.params or "StringView" in fn.params[0]["ty"]:
            continue
        calls = [x for x in fn.nodes() if "callee" in x and x["callee"]["name"] == fn.name and x.get("member_call")]
        okk = False
        why = "does not forward to the StringView overload"
        if not calls:
            ck.ok("OVERLOAD-ROLES", SV + "::" + sig(fn), "own implementation (not a forwarding overload): covered by SCAN-BOUND only", nontrivial=False)
            continue
        if len(calls) == 1:
            a = kids(calls[0])[1:]
            view = strip_casts(a[0])
            while view["k"] in ("CXXFunctionalCastExpr",):
                view = strip_casts(kids(view)[0])
            vargs = kids(view) if view["k"] in ("CXXConstructExpr", "CXXTemporaryObjectExpr") else []
            pn = {p["name"]: p["did"] for p in fn.params}
            pos_ok = len(a) > 1 and ref_of(a[1]) == pn.get("pos")
            if fn.params[0]["ty"] == "char":
                ad = strip_casts(vargs[0]) if vargs else None
                okk = bool(pos_ok and len(vargs) == 2 and ad["k"] == "UnaryOperator" and ad["op"] == "&" and ref_of(kids(ad)[0]) == fn.params[0]["did"] and const_int(vargs[1]) == 1)
                why = "the character overload must search for StringView(&c, 1) at pos"
            elif len(fn.params) == 3:
                okk = bool(pos_ok and len(vargs) == 2 and ref_of(vargs[0]) == fn.params[0]["did"] and ref_of(vargs[1]) == pn.get("n"))
                why = "the (s, pos, n) overload must search for StringView(s, n) at pos"
            else:
                okk = bool(pos_ok and len(vargs) == 1 and ref_of(vargs[0]) == fn.params[0]["did"])
                why = "the (s, pos) overload must search for StringView(s) at pos"
        if okk:
            ck.ok("OVERLOAD-ROLES", SV + "::" + sig(fn), "forwards (pattern, pos) in their roles", nontrivial=False)
        else:
            ck.violation("OVERLOAD-ROLES", fn.qname, sig(fn), why, fn.loc)


def run(ck):
    ck.explanation = (
        "GUARD-TABLES: the integer prefix (range checks, clamping, early returns, start of the scan) of at/substr/copy and the six find-family "
        "members is evaluated on a small model (view size 0..3, pos incl. npos and npos-1, n, argument size) with 64-bit wrap-around and compared with "
        "std::string_view's rules; because these prefixes are piecewise linear with unit coefficients the small model covers every ordering of "
        "(pos, size, argument size). NO-CSTR-PRIMITIVE / BYTE-ORDER-UNSIGNED: no NUL-terminated primitive and no signed-char ordering inside the "
        "class; SCAN-BOUND: raw mem*/char_traits calls are limited to size_ - offset; POS-REACHES-ACCESS: a validated position is part of the "
        "accessed address; REL-FROM-COMPARE: relational operators derive from one primitive with the right operand order; OVERLOAD-ROLES: the 18 "
        "forwarding overloads pass (pattern, pos, n) in their roles. Search results as values are not decided.")
    tu = ir.extract("witness/C18_string_view.cpp")
    check_primitives(ck, tu)
    check_guards(ck, tu)
    check_pos_reaches(ck, tu)
    check_relational(ck, tu)
    check_overloads(ck, tu)
    ck.floor("GUARD-TABLES", 9)
    ck.floor("POS-REACHES-ACCESS", 8)
    ck.floor("REL-FROM-COMPARE", 4)
    ck.floor("OVERLOAD-ROLES", 18)
