"""C18 — StringView vs std::string_view: banned NUL-terminated primitives, unsigned byte
order, guard tables (small-model evaluation of the clamping/early-return prefix up to the first access),
validated position reaches the access, raw scan bounds, relational derivation, overload roles.

Verdict policy of this file: a violation is reported only for a concrete point of an evaluation (a row of the small model, a
row of the truth table over the sign of compare(), forwarded arguments that resolve to the wrong parameters, a call of a
C-string primitive on memory that provably belongs to a view, a relational comparison of two operands whose types are known
to be plain char).  Whatever is not understood is recorded as 'cannot decide' (ck.deferred / dtable.Undecidable -> exit 2)."""
from engine import ir, dtable, match, cfg as cfgm
from engine.ir import kids, strip_casts, const_int, ref_of

SV = "tlx::StringView"
M64 = (1 << 64) - 1
NPOS = M64
CSTR_BANNED = ("strcmp", "strncmp", "strchr", "strrchr", "strstr", "strcpy", "strncpy", "strcat", "strspn", "strcspn", "strpbrk", "strcoll")


def sig(fn):
    return "%s(%s)" % (fn.name, ",".join(p["ty"].replace("tlx::StringView", "SV").replace("unsigned long", "size_t") for p in fn.params))


# ---------------------------------------------------------------- small-model evaluation of a StringView member
class Stop(Exception):
    """end of one evaluated path: kind = throw | return | range | opaque"""
    def __init__(self, kind, payload=None):
        self.kind, self.payload = kind, payload


class Fork(Exception):
    """a branch depends on bytes of the view: the driver re-runs the path once per outcome"""


class _Break(Exception):
    pass


class _Continue(Exception):
    pass


UNSIGNED64 = ("unsigned long", "unsigned long long")
SIGNED64 = ("long", "long long")
FOREIGN = ("F",)
UNINIT = ("U",)
ITER_BEGIN = {"begin": "fwd", "cbegin": "fwd", "data": "fwd", "rbegin": "rev", "crbegin": "rev"}
ITER_END = {"end": "fwd", "cend": "fwd", "rend": "rev", "crend": "rev"}
ITER_FACTORIES = tuple(ITER_BEGIN) + tuple(ITER_END)
# calls that read a block of the view through one pointer: name -> (index of the pointer arguments that may be the view, index of the length)
BLOCK_READS = {"compare": ((0, 1), 2), "memcmp": ((0, 1), 2), "find": ((0,), 1), "memchr": ((0,), 2), "memcpy": ((1,), 2), "memmove": ((1,), 2),
               "copy": ((1,), 2), "move": ((1,), 2), "copy_n": ((0,), 1)}


# std algorithms that return the FIRST position of [first, last) with some property (last if there is none)
FIRST_MATCH = ("std::search", "std::find_first_of", "std::find_if", "std::find_if_not", "std::find")
# std algorithms that return the LAST position of [first, last) where the pattern occurs (last if there is none, and last for an
# empty pattern): the first match of std::search on the mirrored range
LAST_MATCH = ("std::find_end",)
# std algorithms on [first, last) whose meaning is known
RANGE_ALGOS = FIRST_MATCH + LAST_MATCH + ("std::copy", "std::move", "std::equal", "std::mismatch", "std::lexicographical_compare")


def bare_ty(t):
    t = (t or "").strip()
    while t.startswith("const "):
        t = t[6:]
    t = t.rstrip("&").strip()
    while t.endswith("const"):
        t = t[:-5].strip()
    return t


def is_P(v):
    return isinstance(v, tuple) and v[0] == "P"


def is_C(v):
    return isinstance(v, tuple) and v[0] == "C"


def is_int(v):
    return isinstance(v, int)


def c_free(v):
    """index of the byte of the view that the data value v is a free test of (by choosing that byte alone the test can be
    made true and false): the byte itself, ("C", index), or ("C", None, index) = whether that byte occurs in a non-empty set
    of foreign bytes; None for any other data value"""
    if len(v) == 3:
        return v[2]
    return v[1]


def is_Q(v):
    return isinstance(v, tuple) and v[0] == "Q"


def is_L(v):
    return isinstance(v, tuple) and v[0] == "L"


def is_F(v):
    """a pointer / object outside this view: FOREIGN, ("Q", view parameter, offset) = a position in the memory of a
    StringView parameter (its size is part of the small model, its bytes are data), or ("L", call operator, values of the
    by-copy captures) = a closure object"""
    return v == FOREIGN or is_Q(v) or is_L(v)


def sval(v):
    return v - (1 << 64) if v >> 63 else v


class GuardEval:
    """evaluates a StringView member on one point of the small model (size_, integer parameters, sizes of StringView
    parameters).  Values: 64-bit integers (two's complement), ("P", dir, offset) = a position of this view (pointer, iterator or
    reverse iterator), ("V", offset, length) = a StringView into this view, ("C", index|None) = a byte read from memory (data),
    FOREIGN = a pointer / object that does not belong to this view.  Every byte of the view that is read is recorded in
    self.reads as (index, length|None); a call of an algorithm on a range [first, last) of this view ends the path with
    Stop("range").  A branch on data asks the oracle (Fork).  Anything else that is not understood ends the path with
    Stop("opaque"): the caller must not draw a conclusion from it."""
    MAX_ITER = 40

    def __init__(self, fn, size, args, views, oracle=(), watch=None):
        self.fn = fn
        self.S = size
        self.env = dict(args)        # did -> value
        self.views = dict(views)     # did -> size of a StringView parameter
        self.oracle, self.oi = list(oracle), 0
        self.reads = []
        self.decisions = []          # per data-dependent branch taken: index of the byte of the view it freely depends on | None
        self.depth = 0
        self.watch = watch           # optional (call node id, offset expr | None, length expr): evaluated when the call is reached
        self.hits = []

    # ------------------------------------------------------------ helpers
    def opaque(self, e):
        raise Stop("opaque", e)

    def index_of(self, p):
        return p[2] if p[1] == "fwd" else (self.S - 1 - p[2]) & M64

    def read(self, p, length=1, node=None, prim=None):
        # self.oi: data-dependent branches taken before this read; free: each of them was a test of one byte of the view that no
        # other one looked at and that a content of the view can make go either way - so some content takes this path
        free = all(t is not None for t in self.decisions) and len(set(self.decisions)) == len(self.decisions)
        self.reads.append((self.index_of(p), length, p[1], prim, self.oi, free))
        return ("C", self.index_of(p)) if length == 1 else ("C", None)

    def truth(self, e):
        v = self.ev(e)
        if is_int(v):
            return v != 0
        if is_C(v):
            if self.oi < len(self.oracle):
                self.oi += 1
                self.decisions.append(c_free(v))
                return self.oracle[self.oi - 1]
            raise Fork()
        self.opaque(e)

    def convert(self, v, ty, e):
        """integer conversion to the type ty"""
        if not is_int(v):
            return v
        t = bare_ty(ty)
        if t in UNSIGNED64 or t in SIGNED64:
            return v & M64
        if t == "unsigned int":
            return v & 0xFFFFFFFF
        if t == "int":
            v &= 0xFFFFFFFF
            return (v | (M64 ^ 0xFFFFFFFF)) if v >> 31 else v
        if t == "bool":
            return int(v != 0)
        self.opaque(e)

    def mentions_view(self, e):
        for y in ir.walk(e):
            if y["k"] == "This":
                return True
            if y["k"] == "DeclRefExpr" and isinstance(self.env.get(y["ref"]["id"]), tuple) and self.env[y["ref"]["id"]][0] in ("P", "V", "C"):
                return True
        return False

    def arg(self, a):
        """value of a call argument; an expression that does not involve this view at all is FOREIGN"""
        try:
            return self.ev(a)
        except Stop as st:
            if st.kind != "opaque" or a is None or self.mentions_view(a):
                raise
            return FOREIGN

    def lvalue_did(self, e):
        e = strip_casts(e)
        while e is not None and e["k"] == "ParenExpr":
            e = strip_casts(kids(e)[0])
        if e is not None and e["k"] == "DeclRefExpr" and e["ref"].get("kind") in ("local", "param"):
            return e["ref"]["id"]
        return None

    def assign(self, lhs, v, e):
        d = self.lvalue_did(lhs)
        if d is not None:
            if d in self.views:
                self.opaque(e)
            self.env[d] = v
            return v
        # a store through a pointer that does not belong to this view (the output buffer of copy)
        l0 = strip_casts(lhs)
        tgt = match.index_parts(l0) or ((match.deref_of(l0), None) if match.deref_of(l0) is not None else None)
        if tgt:
            base = self.arg(tgt[0])
            if tgt[1] is not None:
                self.arg(tgt[1])
            if is_F(base) or base == ("C", None):
                return v
        self.opaque(e)

    def arith(self, op, x, y, e, signed=False):
        if is_P(x) and is_int(y) and op in ("+", "-"):
            return ("P", x[1], (x[2] + y if op == "+" else x[2] - y) & M64)
        if is_int(x) and is_P(y) and op == "+":
            return ("P", y[1], (y[2] + x) & M64)
        if is_Q(x) and is_int(y) and op in ("+", "-"):
            return ("Q", x[1], (x[2] + y if op == "+" else x[2] - y) & M64)
        if is_int(x) and is_Q(y) and op == "+":
            return ("Q", y[1], (y[2] + x) & M64)
        if is_Q(x) and is_Q(y) and x[1] == y[1]:
            if op == "-":
                return (x[2] - y[2]) & M64
            if op in ("<", ">", "<=", ">=", "==", "!="):
                x, y, signed = x[2], y[2], False
        if is_P(x) and is_P(y):
            if x[1] != y[1]:
                self.opaque(e)
            if op == "-":
                return (x[2] - y[2]) & M64
            x, y, signed = x[2], y[2], False
            if op not in ("<", ">", "<=", ">=", "==", "!="):
                self.opaque(e)
        if is_C(x) or is_C(y):
            # data combined / compared with a number, a position or a foreign pointer (hit != nullptr, iter == cend(), hit - ptr_)
            if all(is_C(v) or is_int(v) or is_P(v) or is_F(v) for v in (x, y)):
                for a_, b_ in ((x, y), (y, x)):
                    if is_C(a_) and len(a_) == 3 and op in ("==", "!=") and (b_ == FOREIGN or b_ == 0):
                        return a_                       # found / not found of a membership test: still a free test of that byte
                return ("C", None)
            self.opaque(e)
        if not (is_int(x) and is_int(y)):
            self.opaque(e)
        if op == "+":
            return (x + y) & M64
        if op == "-":
            return (x - y) & M64
        if op == "*":
            return (x * y) & M64
        if op in ("/", "%") and y != 0 and not (signed and ((x >> 63) or (y >> 63))):
            return x // y if op == "/" else x % y
        if op in ("<", ">", "<=", ">=", "==", "!="):
            if signed:
                x, y = sval(x), sval(y)
            return int({"<": x < y, ">": x > y, "<=": x <= y, ">=": x >= y, "==": x == y, "!=": x != y}[op])
        self.opaque(e)

    def operand_signed(self, a, b, e):
        ta, tb = bare_ty(a.get("ty")), bare_ty(b.get("ty"))
        sa, sb = ta in SIGNED64 + ("int",), tb in SIGNED64 + ("int",)
        ua, ub = ta in UNSIGNED64 + ("unsigned int", "bool"), tb in UNSIGNED64 + ("unsigned int", "bool")
        if sa and sb:
            return True
        if ua and ub:
            return False
        return None

    # ------------------------------------------------------------ expressions
    def ev(self, e):
        if e is None:
            self.opaque(e)
        k = e["k"]
        if k in ("ParenExpr", "ExprWithCleanups", "MaterializeTemporaryExpr", "CXXBindTemporaryExpr", "ConstantExpr"):
            return self.ev(kids(e)[0])
        if k in ("IntegerLiteral", "CXXBoolLiteralExpr"):
            return self.convert(int(e["val"]) & M64, e.get("ty"), e)
        if "cval" in e and bare_ty(e.get("ty")) in UNSIGNED64 + SIGNED64 + ("int", "unsigned int", "bool"):
            return self.convert(int(e["cval"]) & M64, e.get("ty"), e)
        if k in ("ImplicitCastExpr", "CStyleCastExpr", "CXXStaticCastExpr", "CXXFunctionalCastExpr", "CXXConstCastExpr") and kids(e):
            v = self.ev(kids(e)[0])
            if e.get("cast") in ("IntegralCast", "IntegralToBoolean") or (is_int(v) and k != "ImplicitCastExpr"):
                return self.convert(v, e.get("ty"), e)
            if e.get("cast") == "PointerToBoolean":
                self.opaque(e)
            if is_C(v):
                return ("C", None) if e.get("cast") in ("IntegralCast", "IntegralToBoolean") or k != "ImplicitCastExpr" else v
            return v
        if k in ("NullPtr", "CXXNullPtrLiteralExpr", "GNUNullExpr"):
            return FOREIGN
        if k == "LambdaExpr":
            # a closure: a predicate handed to an algorithm sees the bytes the algorithm shows it, nothing else; called in
            # this function its body is evaluated (call_closure).  Variables captured by reference are the variables of the
            # environment; of those captured by copy the value at this point is kept.
            if e.get("fn") is None:
                return FOREIGN
            snap = tuple(sorted((c["id"], self.env[c["id"]]) for c in e.get("captures", [])
                                if c.get("id") is not None and not c.get("byref") and c["id"] in self.env))
            return ("L", e["fn"], snap)
        if k == "DeclRefExpr":
            did = e["ref"]["id"]
            if did in self.env:
                v = self.env[did]
                if v == UNINIT:
                    self.opaque(e)
                return v
            if did in self.views:
                self.opaque(e)
            if e["ref"].get("qname") == SV + "::npos":
                return NPOS
            self.opaque(e)
        if k == "MemberExpr":
            f = match.field_of(e)
            if e.get("member") == "npos" and e.get("owner") == SV:
                return NPOS
            if f and e.get("owner") == SV:
                base = strip_casts(f[0])
                if base["k"] == "This":
                    if f[1] == "size_":
                        return self.S
                    if f[1] == "ptr_":
                        return ("P", "fwd", 0)
                if ref_of(base) in self.views:
                    if f[1] == "size_":
                        return self.views[ref_of(base)]
                    if f[1] == "ptr_":
                        return ("Q", ref_of(base), 0)
            self.opaque(e)
        if k in ("CXXConstructExpr", "CXXTemporaryObjectExpr"):
            return self.construct(e)
        if k == "CXXOperatorCallExpr" and e["callee"]["name"] == "operator()":
            return self.call_closure(e)
        if k == "UnaryOperator" or (k == "CXXOperatorCallExpr" and len(kids(e)) == 1) or \
                (k == "CXXOperatorCallExpr" and e.get("op") in ("++", "--")):
            return self.unary(e)
        if k == "ConditionalOperator":
            c0, a, b2 = kids(e)
            return self.ev(a) if self.truth(c0) else self.ev(b2)
        ip = match.index_parts(e) if k in ("ArraySubscriptExpr", "CXXOperatorCallExpr") else None
        if ip:
            base, idx = self.ev(ip[0]), self.ev(ip[1])
            if is_P(base) and is_int(idx):
                return self.read(("P", base[1], (base[2] + idx) & M64), 1, e)
            if is_F(base) and (is_int(idx) or is_C(idx)):
                return ("C", None)
            self.opaque(e)
        if k in ("BinaryOperator", "CompoundAssignOperator") or (k == "CXXOperatorCallExpr" and len(kids(e)) == 2):
            return self.binary(e)
        if "callee" in e:
            return self.call(e)
        self.opaque(e)

    def construct(self, e):
        a = [x for x in kids(e) if x is not None and x["k"] != "DefaultArg"]
        ty = bare_ty(e.get("ty"))
        if ty == SV:
            vals = [self.arg(x) for x in a]
            if len(vals) == 1 and isinstance(vals[0], tuple) and vals[0][0] == "V":
                return vals[0]
            if len(vals) == 2 and is_P(vals[0]) and vals[0][1] == "fwd" and is_int(vals[1]):
                return ("V", vals[0][2], vals[1])
            if len(vals) == 2 and is_P(vals[0]) and is_P(vals[1]) and vals[0][1] == "fwd" and vals[1][1] == "fwd":
                return ("V", vals[0][2], (vals[1][2] - vals[0][2]) & M64)
            if vals and is_F(vals[0]) and all(is_F(v) or is_int(v) for v in vals):
                return FOREIGN
            self.opaque(e)
        if len(a) == 1:
            v = self.ev(a[0])
            if "reverse_iterator" in ty and is_P(v):
                if v[1] == "rev":
                    return v
                return ("P", "rev", (self.S - v[2]) & M64)       # reverse_iterator(it): *rit == *(it - 1)
            if is_P(v) and (ty.endswith("*") or "iterator" in ty):
                return v
            if is_int(v):
                return self.convert(v, ty, e)
            if is_F(v):
                return v
        self.opaque(e)

    def unary(self, e):
        op = e.get("op")
        x = kids(e)[0]
        if op in ("++", "--"):
            d = self.lvalue_did(x)
            if d is None or d not in self.env or d in self.views:
                self.opaque(e)
            old = self.env[d]
            new = self.arith("+" if op == "++" else "-", old, 1, e)
            self.env[d] = new
            post = bool(e.get("postfix")) if e["k"] == "UnaryOperator" else len(kids(e)) == 2
            return old if post else new
        if e["k"] == "CXXOperatorCallExpr" and op not in ("*", "!", "-"):
            self.opaque(e)
        if op == "!":
            return int(not self.truth(x))
        if op == "*":
            v = self.ev(x)
            if is_P(v):
                return self.read(v, 1, e)
            if is_F(v):
                return ("C", None)
            self.opaque(e)
        if op == "&":
            x0 = strip_casts(x)
            inner = match.index_parts(x0)
            if inner:
                base, idx = self.ev(inner[0]), self.ev(inner[1])
                if is_P(base) and is_int(idx):
                    return ("P", base[1], (base[2] + idx) & M64)
            elif match.deref_of(x0) is not None:
                v = self.ev(match.deref_of(x0))
                if is_P(v) or is_F(v):
                    return v
            elif x0["k"] == "DeclRefExpr" and not self.mentions_view(x0) and x0["ref"]["id"] not in self.views:
                return FOREIGN
            self.opaque(e)
        if op in ("-", "+") and e["k"] == "UnaryOperator":
            v = self.ev(x)
            if is_int(v):
                return self.convert((-v if op == "-" else v) & M64, e.get("ty"), e)
        self.opaque(e)

    def binary(self, e):
        op = e.get("op")
        l, r = kids(e)[0], kids(e)[1]
        if op == ",":
            self.ev(l)
            return self.ev(r)
        if op == "&&":
            return int(self.truth(l) and self.truth(r))
        if op == "||":
            return int(self.truth(l) or self.truth(r))
        if op == "=":
            return self.assign(l, self.ev(r), e)
        if op in ("+=", "-="):
            d = self.lvalue_did(l)
            if d is None or d not in self.env or d in self.views:
                self.opaque(e)
            v = self.arith(op[0], self.env[d], self.ev(r), e)
            if is_int(v):
                v = self.convert(v, l.get("ty"), e)
            self.env[d] = v
            return v
        if op in ("+", "-", "*", "/", "%", "<", ">", "<=", ">=", "==", "!="):
            x, y = self.ev(l), self.ev(r)
            signed = False
            if is_int(x) and is_int(y):
                signed = self.operand_signed(l, r, e) if op not in ("+", "-", "*", "/", "%") else bare_ty(e.get("ty")) in SIGNED64 + ("int",)
                if signed is None:
                    if (x >> 63) or (y >> 63):
                        self.opaque(e)
                    signed = False
            v = self.arith(op, x, y, e, signed)
            if is_int(v) and op in ("+", "-", "*", "/", "%") and e["k"] != "CXXOperatorCallExpr":
                v = self.convert(v, e.get("ty"), e)
            return v
        self.opaque(e)

    def call(self, e):
        name = e["callee"]["name"]
        qn = e["callee"].get("qname") or ""
        args = [a for a in kids(e) if a is not None and a["k"] != "DefaultArg"]
        if len(args) != len([a for a in kids(e) if a is not None]):
            self.opaque(e)
        if e.get("member_call"):
            obj = strip_casts(args[0])
            rest = args[1:]
            if e["callee"].get("record") == SV and obj["k"] == "This":
                if name in ("size", "length") and not rest:
                    return self.S
                if name == "empty" and not rest:
                    return int(self.S == 0)
                if name in ITER_BEGIN and not rest:
                    return ("P", ITER_BEGIN[name], 0)
                if name in ITER_END and not rest:
                    return ("P", ITER_END[name], self.S)
                if name == "front" and not rest:
                    return self.read(("P", "fwd", 0), 1, e)
                if name == "back" and not rest:
                    return self.read(("P", "fwd", (self.S - 1) & M64), 1, e)
                if name == "operator[]" and len(rest) == 1:
                    i = self.ev(rest[0])
                    if is_int(i):
                        return self.read(("P", "fwd", i), 1, e)
                # another member of the class: understood only as an algorithm on a range [first, last) of this view
                # or as a function of positions found before (index_of(hit), reverse_distance(crbegin(), hit))
                vals = [self.arg(a) for a in rest]
                if any(is_C(v) for v in vals) and all(is_C(v) or is_P(v) or is_int(v) for v in vals):
                    return ("C", None)
                r = self.inline(e, vals, rest)
                if r is not NotImplemented:
                    return r
                return self.algorithm(e, name, qn, vals, rest)
            if e["callee"].get("record") == SV and ref_of(obj) in self.views:
                sz = self.views[ref_of(obj)]
                if name in ("size", "length") and not rest:
                    return sz
                if name == "empty" and not rest:
                    return int(sz == 0)
                if name in ITER_BEGIN and ITER_BEGIN[name] == "fwd" and not rest:
                    return ("Q", ref_of(obj), 0)
                if name in ITER_END and ITER_END[name] == "fwd" and not rest:
                    return ("Q", ref_of(obj), sz)
                if name in ITER_FACTORIES and not rest:
                    return FOREIGN
            self.opaque(e)
        vals = [self.arg(a) for a in args]
        if name in ("min", "max") and qn in ("std::min", "std::max") and len(vals) == 2:
            x, y = vals
            if is_int(x) and is_int(y):
                t = bare_ty((e["callee"].get("targs") or [""])[0])
                if t in UNSIGNED64 + ("unsigned int",):
                    return min(x, y) if name == "min" else max(x, y)
                if t in SIGNED64 + ("int",):
                    return (min if name == "min" else max)(x, y, key=sval)
            self.opaque(e)
        if qn == "std::distance" and len(vals) == 2:
            if is_P(vals[0]) and is_P(vals[1]) and vals[0][1] == vals[1][1]:
                return (vals[1][2] - vals[0][2]) & M64
            if (is_P(vals[0]) or is_C(vals[0])) and (is_P(vals[1]) or is_C(vals[1])):
                return ("C", None)
            self.opaque(e)
        if qn in ("std::next", "std::prev") and vals and is_P(vals[0]) and all(is_int(v) for v in vals[1:]) and len(vals) <= 2:
            n = vals[1] if len(vals) == 2 else 1
            return ("P", vals[0][1], (vals[0][2] + (n if qn == "std::next" else -n)) & M64)
        return self.algorithm(e, name, qn, vals, args)

    def inline(self, e, vals, args):
        """evaluates the body of another member called on *this (a private helper): parameters are bound to the argument
        values, a throw inside it ends the path as a throw of the caller"""
        tu = getattr(self.fn, "tu", None)
        cal = tu.by_did.get(e["callee"].get("did")) if tu is not None else None
        if cal is None or cal.body is None or cal.did == self.fn.did or self.depth >= 3 or len(cal.params) != len(vals):
            return NotImplemented
        return self.bind_and_run(cal, e, vals, args)

    def bind_and_run(self, cal, e, vals, args):
        for prm, v, a in zip(cal.params, vals, args):
            t = bare_ty(prm["ty"])
            if t == SV:
                d = ref_of(match.strip_conv(a))
                if d not in self.views:
                    return NotImplemented
                self.views[prm["did"]] = self.views[d]
            elif (prm["ty"] or "").rstrip().endswith("&") and "const" not in prm["ty"]:
                return NotImplemented                       # an out-parameter
            else:
                self.env[prm["did"]] = v
        self.depth += 1
        try:
            self.run(cal.body)
        except Stop as st:
            if st.kind == "return":
                return st.payload[0] if st.payload[0] is not None else 0
            raise
        finally:
            self.depth -= 1
        if bare_ty(cal.d.get("ret") or e["callee"].get("ret")) == "void":
            return 0
        self.opaque(e)

    def call_closure(self, e):
        """a call of a closure object created on this path: the body of its call operator is evaluated like a private
        helper.  A variable captured by reference is the variable itself (same declaration id); a variable captured by copy
        has, during the call, the value it had when the closure was created - a closure that changes its own copy is not
        followed.  Anything else that is called with operator() (a functor, a std::function, a closure that comes from
        elsewhere) is not understood."""
        a = [x for x in kids(e) if x is not None]
        if not a or any(x["k"] == "DefaultArg" for x in a):
            self.opaque(e)
        clo = self.ev(a[0])
        tu = getattr(self.fn, "tu", None)
        if not is_L(clo) or tu is None or clo[1] != e["callee"].get("did"):
            self.opaque(e)
        cal = tu.by_did.get(clo[1])
        rest = a[1:]
        if cal is None or cal.body is None or cal.kind != "lambda" or self.depth >= 3 or len(cal.params) != len(rest):
            self.opaque(e)
        vals = [self.arg(x) for x in rest]
        outer = {d: self.env.get(d, UNINIT) for d, _ in clo[2]}
        for d, v in clo[2]:
            self.env[d] = v
        r = self.bind_and_run(cal, e, vals, rest)
        for d, v in clo[2]:
            if self.env.get(d) != v:
                self.opaque(e)                              # a mutable closure changed its copy
            self.env[d] = outer[d]
        if r is NotImplemented:
            self.opaque(e)
        return r

    def algorithm(self, e, name, qn, vals, args):
        if self.watch is not None and self.depth == 0 and e["id"] == self.watch[0]:     # node ids are per function
            off = self.ev(self.watch[1]) if self.watch[1] is not None else 0
            n = self.ev(self.watch[2])
            if not (is_int(off) and is_int(n)):
                self.opaque(e)
            self.hits.append((off, n))
        if any(isinstance(v, tuple) and v[0] == "V" for v in vals):
            self.opaque(e)
        ps = [i for i, v in enumerate(vals) if is_P(v)]
        if len(ps) >= 2 and ps[:2] == [0, 1] and vals[0][1] == vals[1][1] and len(ps) == 2:
            if qn not in RANGE_ALGOS:
                self.opaque(e)          # what an unknown function does with [first, last) is not known (std::find_end looks for the LAST match)
            raise Stop("range", (vals[0][1], vals[0][2], vals[1][2], qn, e))
        if len(ps) == 1 and (("std::char_traits" in qn or name.startswith("mem") or qn in ("std::copy_n", "std::equal", "std::mismatch"))):
            # a primitive that reads a block of bytes through one pointer into this view
            length = None
            if name in BLOCK_READS:
                where, li = BLOCK_READS[name]
                if ps[0] not in where:
                    self.opaque(e)
                if li < len(vals) and is_int(vals[li]):
                    length = vals[li]
            self.read(vals[ps[0]], length, e, name if length is not None else None)
            return ("C", None)
        if not ps and any(is_C(v) for v in vals) and all(is_C(v) or is_int(v) or is_F(v) for v in vals):
            if qn == "std::char_traits::find" and len(vals) == 3 and is_F(vals[0]) and not is_L(vals[0]) and is_int(vals[1]) and 1 <= vals[1] <= 8 \
                    and is_C(vals[2]) and len(vals[2]) == 2 and vals[2][1] is not None:
                return ("C", None, vals[2][1])      # does this byte of the view occur in a non-empty set of foreign bytes
            return ("C", None)          # a function of bytes that were read (char_traits::eq / find(set, n, byte) / tolower ...)
        self.opaque(e)

    # ------------------------------------------------------------ statements
    def run(self, s):
        if s is None:
            return
        k = s["k"]
        if k == "CompoundStmt":
            for c in kids(s):
                self.run(c)
            return
        if k == "NullStmt":
            return
        if k == "IfStmt":
            if "init" in s or "condvar" in s:
                self.opaque(s)
            c, t, e = (kids(s) + [None])[:3]
            if self.truth(c):
                self.run(t)
            elif e is not None:
                self.run(e)
            return
        if k == "ReturnStmt":
            raise Stop("return", (self.ev(kids(s)[0]) if kids(s) and kids(s)[0] is not None else None, s))
        if k == "CXXThrowExpr":
            raise Stop("throw", s)
        if k == "DeclStmt":
            for v in kids(s):
                if v["k"] != "VarDecl":
                    self.opaque(s)
                if (v.get("ty") or "").rstrip().endswith("&"):
                    self.opaque(s)              # a reference alias: not followed here
                self.env[v["did"]] = self.ev(kids(v)[0]) if kids(v) and kids(v)[0] is not None else UNINIT
            return
        if k in ("ForStmt", "WhileStmt", "DoStmt"):
            if "condvar" in s:
                self.opaque(s)
            init, cond, inc, body = match.loop_parts(s)
            if init is not None:
                self.run(init)
            first = k == "DoStmt"
            for _ in range(self.MAX_ITER):
                if not first and cond is not None and not self.truth(cond):
                    return
                first = False
                try:
                    self.run(body)
                except _Break:
                    return
                except _Continue:
                    pass
                if inc is not None:
                    self.ev(inc)
            self.opaque(s)
        if k == "BreakStmt":
            raise _Break()
        if k == "ContinueStmt":
            raise _Continue()
        if k in ("CXXStaticCastExpr", "CStyleCastExpr", "CXXFunctionalCastExpr") and bare_ty(s.get("ty")) == "void":
            return
        if k in ("SwitchStmt", "GotoStmt", "LabelStmt", "CXXTryStmt", "CXXForRangeStmt", "AttributedStmt"):
            self.opaque(s)
        self.ev(s)


def explore(fn, S, args, views, watch=None, max_forks=6):
    """all paths of fn on one point of the small model: list of (kind, payload, reads, hits); kind = return | throw | range |
    fallthrough | opaque | cut (fork limit)"""
    out = []
    stack = [()]
    while stack:
        orc = stack.pop()
        ge = GuardEval(fn, S, args, views, orc, watch)
        try:
            ge.run(fn.body)
            out.append(("fallthrough", None, ge.reads, ge.hits))
        except Stop as st:
            out.append((st.kind, st.payload, ge.reads, ge.hits))
        except (_Break, _Continue):
            out.append(("opaque", None, ge.reads, ge.hits))
        except Fork:
            if len(orc) >= max_forks:
                out.append(("cut", None, ge.reads, ge.hits))
            else:
                stack.append(orc + (True,))
                stack.append(orc + (False,))
    return out


DIRECTION = {"find": "fwd", "rfind": "rev", "find_first_of": "fwd", "find_last_of": "rev", "find_first_not_of": "fwd", "find_last_not_of": "rev"}


def spec(name, S, pos, n, ssz):
    """std::string_view semantics on the small model: ('throw',) | ('ret', v) | ('access', i) | ('sub', off, len) |
    ('copy', off, len) | ('scan', dir, index of the first candidate)"""
    if name == "at":
        return ("throw",) if pos >= S else ("access", pos)
    if name == "substr":
        return ("throw",) if pos > S else ("sub", pos, min(n, S - pos))
    if name == "copy":
        return ("throw",) if pos > S else ("copy", pos, min(n, S - pos))
    if name == "find":
        if pos > S:
            return ("ret", NPOS)
        if ssz == 0:
            return ("ret", pos)
        return ("scan", "fwd", pos)
    if name == "rfind":
        if ssz > S:
            return ("ret", NPOS)
        p = min(pos, S - ssz)
        if ssz == 0:
            return ("ret", p)
        return ("scan", "rev", p)
    if name == "find_first_of":
        if pos >= S or ssz == 0:
            return ("ret", NPOS)
        return ("scan", "fwd", pos)
    if name == "find_last_of":
        if S == 0 or ssz == 0:
            return ("ret", NPOS)
        return ("scan", "rev", min(pos, S - 1))
    if name == "find_first_not_of":
        if pos >= S:
            return ("ret", NPOS)
        if ssz == 0:
            return ("ret", pos)
        return ("scan", "fwd", pos)
    if name == "find_last_not_of":
        if S == 0:
            return ("ret", NPOS)
        p = min(pos, S - 1)
        if ssz == 0:
            return ("ret", p)
        return ("scan", "rev", p)
    return None


def guard_roles(fn, name):
    """parameter roles by position and type, as fixed by the std::string_view interface (names are free)"""
    tys = [bare_ty(p["ty"]) for p in fn.params]
    want = {"at": ["I"], "substr": ["I", "I"], "copy": ["char *", "I", "I"]}.get(name, [SV, "I"])
    if len(tys) != len(want) or any((w == "I" and t not in UNSIGNED64) or (w != "I" and t != w) for t, w in zip(tys, want)):
        raise dtable.Undecidable("%s: parameters of %s are not those of the std::string_view member: %s" % (fn.loc, name, tys))
    d = [p["did"] for p in fn.params]
    if name == "at":
        return {"pos": d[0]}
    if name == "substr":
        return {"pos": d[0], "n": d[1]}
    if name == "copy":
        return {"out": d[0], "n": d[1], "pos": d[2]}
    return {"s": d[0], "pos": d[1]}


def outcome(name, paths):
    """what the member does on one point of the small model, from the evaluated paths: an outcome tuple like spec()'s,
    ('scan', dir|None, index, 'range'|'read', info), or ('opaque', why)"""
    lead = paths[0]
    if not any(p[2] for p in paths):
        if len(paths) != 1:
            return ("opaque", "paths differ without a read")
        kind, payload = lead[0], lead[1]
        if kind == "throw":
            return ("throw",)
        if kind == "range":
            d, o1, o2, qn, node = payload
            if name == "copy":
                if qn in ("std::copy", "std::move") and d == "fwd":
                    return ("copy", o1, (o2 - o1) & M64)
                return ("opaque", "range handed to %s" % qn)
            if name in DIRECTION and qn in LAST_MATCH:
                # the last occurrence in [o1, o2) is the first one met when the same bytes are walked in the other direction
                S_ = lead_S(lead)
                d, o1, o2 = ("rev" if d == "fwd" else "fwd"), (S_ - o2) & M64, (S_ - o1) & M64
            if name in DIRECTION and qn in FIRST_MATCH + LAST_MATCH:
                return ("scan", d, o1 if d == "fwd" else (lead_S(lead) - 1 - o1) & M64, "range", (o1, o2, qn))
            return ("opaque", "range handed to %s" % qn)
        if kind == "return":
            v = payload[0]
            if is_int(v) and name not in ("at", "substr"):
                return ("ret", v)
            if name == "substr" and isinstance(v, tuple) and v[0] == "V":
                return ("sub", v[1], v[2])
            return ("opaque", "returned value not understood")
        return ("opaque", "%s at line %s" % ({"opaque": "construct not understood", "cut": "too many data-dependent branches"}.get(kind, kind),
                                           payload.get("l", "?") if isinstance(payload, dict) else "?"))
    r1 = lead[2][0]
    if any(not p[2] or p[2][0][:2] != r1[:2] for p in paths):
        return ("opaque", "first read differs between paths")
    if name == "at":
        if len(paths) == 1 and lead[0] == "return" and lead[1][0] == ("C", r1[0]) and len(lead[2]) == 1:
            return ("access", r1[0])
        return ("opaque", "element access not understood")
    if name == "copy":
        if len(paths) != 1 or lead[0] != "return":
            return ("opaque", "copy loop not understood")
        rd = lead[2]
        if len(rd) == 1 and rd[0][1] != 1:
            if rd[0][1] is not None and rd[0][3] in ("copy_n", "memcpy", "memmove", "copy", "move"):
                return ("copy", rd[0][0], rd[0][1])
            return ("opaque", "block read by an unknown primitive")
        idxs = sorted(r[0] for r in rd)
        if all(r[1] == 1 for r in rd) and all(x == idxs[0] + i for i, x in enumerate(idxs)):
            return ("copy", idxs[0], len(idxs))             # every byte of [first, first + count) read once, in any order
        return ("opaque", "copy loop does not read consecutive bytes")
    if name in DIRECTION:
        # the read that follows the first one at another place of the view tells the direction of the scan
        seconds = {next(r[0] for r in p[2] if r[0] != r1[0]) for p in paths if any(r[0] != r1[0] for r in p[2])}
        d = None
        if seconds and all(x > r1[0] for x in seconds):
            d = "fwd"
        elif seconds and all(x < r1[0] for x in seconds):
            d = "rev"
        elif seconds:
            return ("opaque", "scan order not understood")
        return ("scan", d, r1[0], "read", r1[1])
    return ("opaque", "read in %s" % name)


def lead_S(path):
    return path[4]


def judge(name, got, want, S, ssz):
    """'ok' | 'bad' (the evaluated behaviour differs from std::string_view's for some content) | 'undecided'"""
    if got[0] == "opaque":
        return "undecided"
    if name in ("at", "substr"):
        return "ok" if got == want else "bad"
    if name == "copy":
        if got[0] == "ret":
            return "ok" if want[0] == "copy" and want[2] == 0 and got[1] == 0 else "bad"
        if got[0] == "copy" and want[0] == "copy" and got[2] == 0 and want[2] == 0:
            return "ok"
        return "ok" if got == want else "bad"
    # find family
    if got[0] == "throw":
        return "bad"

    def fits(first_index_or_off, rng_len):
        return name not in ("find", "rfind") or rng_len >= ssz
    if got[0] == "ret":
        if want[0] == "ret":
            return "ok" if got[1] == want[1] else "bad"
        if name == "find" and ssz > S - want[2]:
            return "ok" if got[1] == NPOS else "bad"       # the pattern cannot fit behind pos: npos whatever the bytes are
        return "bad"                                         # a fixed answer where the answer depends on the bytes
    _, d, idx, kind, info = got
    forced = None                                            # the scan's answer if it does not depend on the bytes
    if kind == "range":
        o1, o2, qn = info
        if o1 > S or o2 > S:
            return "bad"                                     # the range handed to the algorithm leaves the view
        if o2 != S:
            return "undecided"
        if ssz == 0:
            if o1 < S and qn == "std::search":
                forced = idx
            elif qn == "std::find_first_of":
                forced = NPOS
            else:
                return "undecided"
        elif o1 == S or not fits(idx, S - o1):
            forced = NPOS
        if name == "rfind" and d == "rev" and ssz >= 1:
            idx = (idx - (ssz - 1)) & M64                    # a reverse range starts at the last byte of the first candidate
    else:
        ln = info
        if idx > S or (ln == 1 and idx >= S) or (ln is not None and ln > S - idx):
            return "bad"                                     # reads bytes outside the view
        if ln is None and idx == S:
            return "undecided"
        if ssz == 0:
            return "undecided"
    if want[0] == "ret":
        if forced is not None:
            return "ok" if forced == want[1] else "bad"
        return "bad" if kind == "range" else "undecided"
    wforced = NPOS if (name == "find" and ssz > S - want[2]) else None
    if forced is not None or wforced is not None:
        if forced == wforced:
            return "ok"
        return "bad" if kind == "range" else "undecided"
    if idx == want[2] and kind == "range" and ssz >= 1 and (info[1] - info[0]) & M64 == (ssz if name in ("find", "rfind") else 1):
        return "ok"                                          # room for one candidate only: the direction makes no difference here
    return "ok" if idx == want[2] and (d is None or d == want[1]) else "bad"


def read_outside(paths, S):
    """a read of the evaluated paths that leaves [0, S): (index, length, number of data-dependent branches taken before it,
    whether some content of the view certainly takes that path), a certain one first; None if every read of known extent
    stays inside the view"""
    found = None
    for p in paths:
        for r in p[2]:
            idx, ln, forks, free = r[0], r[1], r[4], r[5]
            if idx > S or (ln is not None and ln > S - idx):
                if forks == 0 or free:
                    return (idx, ln, forks, True)
                found = found or (idx, ln, forks, False)
                break                                   # what follows the first such read of a path says nothing more
    return found


def check_guards(ck, tu):
    fns = {}
    for fn in tu.find(record=SV):
        if fn.name in ("at", "substr", "copy") or (fn.name in DIRECTION and fn.params and bare_ty(fn.params[0]["ty"]) == SV):
            fns[fn.name] = fn
    ck.require(len(fns) == 9, "StringView guard functions not all instantiated: %s" % sorted(fns))
    for name, fn in sorted(fns.items()):
        roles = guard_roles(fn, name)
        cases = 0
        bad = None
        undecided = None
        for S in (0, 1, 2, 3):
            for pos in (0, 1, 2, 3, 4, NPOS - 1, NPOS):
                for n in ((0, 1, 2, 5, NPOS) if "n" in roles else (0,)):
                    for ssz in ((0, 1, 2, 4) if "s" in roles else (1,)):
                        cases += 1
                        args = {roles["pos"]: pos}
                        if "n" in roles:
                            args[roles["n"]] = n
                        if "out" in roles:
                            args[roles["out"]] = FOREIGN
                        paths = [p + (S,) for p in explore(fn, S, args, {roles["s"]: ssz} if "s" in roles else {})]
                        want = spec(name, S, pos, n, ssz)
                        got = outcome(name, paths)
                        verdict = judge(name, got, want, S, ssz)
                        out = read_outside(paths, S) if verdict == "ok" else None
                        if out and out[3]:
                            # the model point alone leads to this read, or the model point and a content of the view (each branch
                            # before it tested another byte of the view, freely)
                            verdict, got = "bad", ("outside", out[0], out[1], out[2])
                        elif out:
                            # later in the scan, behind branches on bytes: whether some content takes that path is not known
                            verdict, got = "undecided", ("opaque", "after %d data-dependent branches the scan reads %s outside the view" % (out[2], fmt_read(out)))
                        if verdict == "bad" and bad is None:
                            bad = (S, pos, n, ssz, got, want)
                        elif verdict == "undecided" and undecided is None:
                            undecided = (S, pos, n, ssz, got)

        def f(v):
            return "npos" if v == NPOS else "npos-1" if v == NPOS - 1 else str(v)
        if bad:
            S, pos, n, ssz, got, want = bad
            ck.violation("GUARD-TABLES", fn.qname, sig(fn),
                         "%s on a view of size %d with pos=%s%s%s behaves as %s where std::string_view requires %s"
                         % (name, S, f(pos), (", n=" + f(n)) if "n" in roles else "", (", argument size=%d" % ssz) if "s" in roles else "",
                            fmt_out(got), fmt_out(want)), fn.loc)
        elif undecided:
            S, pos, n, ssz, got = undecided
            raise dtable.Undecidable("%s: guard prefix of %s not understood (size %d, pos=%s%s%s: %s)"
                                     % (fn.loc, name, S, f(pos), (", n=" + f(n)) if "n" in roles else "", (", argument size=%d" % ssz) if "s" in roles else "",
                                        got[1] if got[0] == "opaque" else fmt_out(got)))
        else:
            ck.ok("GUARD-TABLES", SV + "::" + sig(fn), "%d small-model cases (size 0..3, pos incl. npos, n, argument size): throw / early return / clamped scan start agree with std::string_view" % cases,
                  sample=dict(rule="GUARD-TABLES", fn=sig(fn), cases=cases))
            ck.states += cases


def fmt_read(r):
    return "byte %s" % (r[0] if r[0] < NPOS - 64 else "npos-%d" % (NPOS - r[0])) if r[1] == 1 else "%s bytes from offset %s" % (r[1], r[0])


def fmt_out(o):
    def f(v):
        return "npos" if v == NPOS else "?" if v is None else str(v)
    if o[0] == "outside":
        return "a read of %s, outside the view%s" % (fmt_read(o[1:]), (" (after %d other byte%s of the view had been tested, each once)" % (o[3], "s" if o[3] > 1 else "")) if o[3] else "")
    if o[0] == "ret":
        return "return %s" % f(o[1])
    if o[0] == "scan":
        return "%sscan from index %s" % ({"rev": "backward ", "fwd": "forward "}.get(o[1], ""), f(o[2]))
    if o[0] in ("sub", "copy"):
        return "%s(offset %s, length %s)" % (o[0], f(o[1]), f(o[2]))
    if o[0] == "access":
        return "access to byte %s" % f(o[1])
    return str(o[0])


# ---------------------------------------------------------------- other rules
CAST_KINDS = ("ImplicitCastExpr", "CStyleCastExpr", "CXXStaticCastExpr", "CXXFunctionalCastExpr", "CXXReinterpretCastExpr", "CXXConstCastExpr", "ParenExpr")
UNSIGNED_TYPES = ("unsigned char", "unsigned short", "unsigned int", "unsigned long", "unsigned long long", "unsigned", "bool",
                  "uint8_t", "std::uint8_t", "uint16_t", "std::uint16_t", "uint32_t", "std::uint32_t", "uint64_t", "std::uint64_t", "size_t", "std::size_t")
SIGNED_TYPES = ("char", "signed char", "short", "int", "long", "long long", "int8_t", "std::int8_t", "int32_t", "std::int32_t", "ptrdiff_t", "std::ptrdiff_t")
VIEW_DATA_CALLS = ("data",) + ITER_FACTORIES


def local_defs(fn):
    """declaration id -> list of expressions that may define the variable (initialisers, right-hand sides, operands of += / ++)"""
    defs = {}
    for y in fn.nodes():
        if y["k"] == "VarDecl" and y.get("did") is not None and kids(y) and kids(y)[0] is not None:
            defs.setdefault(y["did"], []).append(kids(y)[0])
        bq = match.binop(y, ("=", "+=", "-=")) if y["k"] in ("BinaryOperator", "CompoundAssignOperator", "CXXOperatorCallExpr") else None
        if bq and ref_of(bq[1]) is not None:
            defs.setdefault(ref_of(bq[1]), []).append(bq[2])
    return defs


def pointer_origin(fn, e, defs, seen=()):
    """where a pointer handed to a C-string primitive comes from: 'view' (memory of a StringView: ptr_ / data() / begin() of
    any view, possibly through locals and offsets), 'cstr' (a const char* parameter or a string literal: NUL-terminated by
    contract, not a view) or 'unknown'"""
    out = set()
    for y in ir.walk(e):
        k = y["k"]
        if k == "MemberExpr" and y.get("member") == "ptr_" and y.get("owner") == SV:
            out.add("view")
        elif k == "This":
            out.add("view")
        elif "callee" in y and y["callee"].get("record") == SV and y["callee"]["name"] in VIEW_DATA_CALLS:
            out.add("view")
        elif k == "StringLiteral":
            out.add("cstr")
        elif k == "DeclRefExpr" and y["ref"].get("kind") in ("param", "local"):
            d = y["ref"]["id"]
            t = bare_ty(y.get("ty"))
            if SV in t:
                out.add("view")
                continue
            if not t.endswith("*"):
                continue                                   # an integer offset does not change where the pointer points into
            if d in seen:
                continue
            sub = [pointer_origin(fn, r, defs, seen + (d,)) for r in defs.get(d, [])]
            if y["ref"]["kind"] == "param" and t in ("const char *", "char *"):
                sub.append("cstr")
            out.update(sub or ["unknown"])
        elif "callee" in y and k != "CXXOperatorCallExpr":
            out.add("unknown")
    if "view" in out:
        return "view"
    return "cstr" if out == {"cstr"} else "unknown"


def cast_chain(n):
    """(types of the conversions applied on top of the core expression, core expression)"""
    tys = []
    while n is not None and n["k"] in CAST_KINDS and kids(n):
        if n["k"] != "ParenExpr":
            tys.append((bare_ty(n.get("ty")), n["k"] != "ImplicitCastExpr"))
        n = kids(n)[0]
    return tys, n


def byte_order_of(x):
    """how a relational comparison orders two bytes read from memory: 'signed' | 'unsigned' | 'unknown' | None (not a
    comparison of two plain-char reads)"""
    sides = []
    for o in kids(x):
        tys, core = cast_chain(o)
        if core is None or bare_ty(core.get("ty")) != "char" or not (core["k"] == "ArraySubscriptExpr" or (core["k"] == "UnaryOperator" and core.get("op") == "*")):
            return None
        kind = "signed"
        for t, explicit in reversed(tys):                   # innermost conversion first: it fixes how the byte is widened
            if t in UNSIGNED_TYPES:
                kind = "unsigned"
                break
            if t in SIGNED_TYPES:
                continue
            kind = "unknown"
            break
        sides.append(kind)
    if sides[0] == sides[1]:
        return sides[0]
    return "unknown"


def check_primitives(ck, tu):
    n = 0
    fns = [f for f in tu.functions if f.record == SV or (f.record is None and f.qname.startswith("tlx::operator") and any("StringView" in p["ty"] for p in f.params))]
    for fn in fns:
        n += 1
        defs = None
        for x in fn.nodes():
            if "callee" in x and x["callee"]["name"] in CSTR_BANNED + ("strlen",):
                nm = x["callee"]["name"]
                defs = defs if defs is not None else local_defs(fn)
                origins = [pointer_origin(fn, a, defs) for a in kids(x) if a is not None and (bare_ty(a.get("ty")).endswith("*") or bare_ty(a.get("ty")).endswith("]"))]
                if "view" in origins:
                    ck.violation("NO-CSTR-PRIMITIVE", fn.qname, sig(fn) + ":" + nm,
                                 "%s treats the length-delimited view as NUL-terminated: bytes after an embedded NUL are ignored" % nm if nm != "strlen" else
                                 "strlen measures the memory of a view: it stops at an embedded NUL and runs past the end of a view that is not NUL-terminated", fn.nloc(x))
                elif not origins or "unknown" in origins:
                    ck.deferred.append("%s: origin of the pointer handed to %s in %s not understood" % (fn.nloc(x), nm, sig(fn)))
                # else: every pointer is a const char* parameter / literal - a C string by contract, not a view (what the const char* constructor does)
            if "callee" in x and x["callee"]["name"] == "lexicographical_compare" and len(kids(x)) == 4:
                t = bare_ty(kids(x)[0].get("ty")) if kids(x)[0] is not None else ""
                if "unsigned char" in t or "uint8_t" in t:
                    pass
                elif "char" in t:
                    ck.violation("BYTE-ORDER-UNSIGNED", fn.qname, sig(fn),
                                 "std::lexicographical_compare on char iterators orders bytes as (signed) char; std::string_view orders them as unsigned char (char_traits)", fn.nloc(x))
            # hand-written ordering of two bytes read from memory as plain char
            if x["k"] == "BinaryOperator" and x.get("op") in ("<", ">", "<=", ">="):
                order = byte_order_of(x)
                if order == "signed":
                    ck.violation("BYTE-ORDER-UNSIGNED", fn.qname, sig(fn) + ":" + dtable.describe(x)[:40],
                                 "two bytes of the views are ordered as plain (signed) char: %s; std::string_view orders them as unsigned char, so 0x80..0xFF sort "
                                 "after ASCII" % dtable.describe(x)[:60], fn.nloc(x))
                elif order == "unknown":
                    ck.deferred.append("%s: byte comparison %s in %s: signedness of the operands not understood" % (fn.nloc(x), dtable.describe(x)[:60], sig(fn)))
            # raw memory primitives on the view: (ptr_ + a, len) must stay inside [0, size_)
            if "callee" in x and x["callee"]["name"] in ("memchr", "memcmp", "memcpy", "compare", "find") and ("std::char_traits" in x["callee"]["qname"] or x["callee"]["name"].startswith("mem")):
                ck.guarded(lambda: check_scan_bound(ck, fn, x))
    ck.ok("NO-CSTR-PRIMITIVE", "StringView members and operators", "%d functions scanned for NUL-terminated primitives" % n)
    ck.ok("BYTE-ORDER-UNSIGNED", "StringView members and operators", "%d functions scanned for signed byte ordering" % n)


def scan_bound_grid(fn, call, base_off, ln):
    """the call's (offset, length) evaluated on the small model whenever an evaluated path reaches the call (short-circuit
    conditions, early returns and loops included): -> None (all inside), (S, off, len, params) of a combination that runs
    past the view, or "?" (some path was not understood / the call was never reached)"""
    ints = [p for p in fn.params if bare_ty(p["ty"]) in UNSIGNED64]
    views = [p for p in fn.params if bare_ty(p["ty"]) == SV]
    others = [p for p in fn.params if p not in ints and p not in views]
    reached = 0
    unclear = False
    import itertools
    for S in (0, 1, 2, 3):
        for iv in itertools.product((0, 1, 2, 3, 4, NPOS), repeat=len(ints)):
            for vv in itertools.product((0, 1, 2, 4), repeat=len(views)):
                env = {p["did"]: v for p, v in zip(ints, iv)}
                env.update({p["did"]: FOREIGN for p in others})
                for kind, payload, reads, hits in explore(fn, S, env, {p["did"]: v for p, v in zip(views, vv)}, watch=(call["id"], base_off, ln)):
                    for off, n in hits:
                        reached += 1
                        if off > S or n > S - off:
                            return (S, off, n, iv, vv)
                    if kind in ("opaque", "cut", "fallthrough") and not (kind == "fallthrough" and fn.d.get("ret", "") == "void"):
                        unclear = True
    return "?" if unclear or not reached else None


SCAN_LEN_ARG = {"find": 1, "compare": 2, "memcmp": 2, "memcpy": 2, "memchr": 2, "copy": 2, "move": 2}


def check_scan_bound(ck, fn, call):
    args = kids(call)
    name = call["callee"]["name"]
    li = SCAN_LEN_ARG.get(name) if len(args) >= 3 else None
    if li is None:
        return
    base = strip_casts(args[0])
    off = None
    if match.this_field(base) == "ptr_":
        off = "0"
    else:
        b = match.binop(base, ("+",))
        if b and match.this_field(b[1]) == "ptr_":
            off = dtable.describe(b[2])
        elif ref_of(base) is not None:
            return            # cursor variable: covered by the loop's own bounds
        else:
            return
    ln = strip_casts(args[li])
    lt = dtable.describe(ln)
    okk = False
    if off == "0" and (match.this_field(ln) == "size_" or match.call_named(ln, ("min",))):
        okk = True
    if off != "0":
        bb = match.binop(ln, ("-",))
        if bb and match.this_field(bb[1]) == "size_" and dtable.describe(bb[2]) == off:
            okk = True
        m = match.call_named(ln, ("min",))
        if m:
            for a in kids(m):
                b2 = match.binop(a, ("-",))
                if b2 and match.this_field(b2[1]) == "size_" and dtable.describe(b2[2]) == off:
                    okk = True
    f = match.field_of(ln)
    if not okk and f and f[1] == "size_" and strip_casts(f[0])["k"] != "This":
        # other view's size: needs a dominating size_ >= other.size_ (+ off) test
        g = cfgm.CFG(fn)
        for y in fn.nodes():
            bq = match.binop(y, (">=", "<"))
            if bq and match.this_field(bq[1]) == "size_":
                okk = True
    if okk:
        ck.ok("SCAN-BOUND", "%s %s" % (sig(fn), name), "(ptr_ + %s, %s) stays inside the view" % (off, lt), nontrivial=False)
        return
    b0 = match.binop(base, ("+",))
    r = scan_bound_grid(fn, call, b0[2] if b0 else None, args[li])
    if r is None:
        ck.ok("SCAN-BOUND", "%s %s" % (sig(fn), name), "(ptr_ + %s, %s) stays inside the view on the small model (sizes 0..3, parameters incl. npos)" % (off, lt), nontrivial=False)
    elif r == "?":
        raise dtable.Undecidable("%s: range of %s(ptr_ + %s, %s) not understood" % (fn.loc, name, off, lt))
    else:
        S, o_, n_, iv, vv = r
        ck.violation("SCAN-BOUND", fn.qname, sig(fn) + ":" + name,
                     "%s scans %s bytes from ptr_ + %s: on a view of size %d that is %s bytes from offset %s, past the end of the view"
                     % (name, lt, off, S, "npos" if n_ == NPOS else n_, o_), fn.nloc(call))


def check_pos_reaches(ck, tu):
    """the position parameter of at/substr/copy and the find family must take part in the address that is accessed: the member
    is evaluated on the small model for every position inside the view; if the first byte it touches (the offset of the
    sub-view / copy / scan) is the same for all of them, the operation ignores pos - a concrete pair of calls shows it"""
    for fn in tu.find(record=SV):
        name = fn.name
        if not (name in ("at", "substr", "copy") or (name in DIRECTION and fn.params and bare_ty(fn.params[0]["ty"]) == SV)) or not fn.body:
            continue
        roles = guard_roles(fn, name)
        seen = {}            # (S, n, ssz) -> {pos: touched index}
        unclear = None
        for S in (2, 3):
            for pos in range(S):
                args = {roles["pos"]: pos}
                if "n" in roles:
                    args[roles["n"]] = 5
                if "out" in roles:
                    args[roles["out"]] = FOREIGN
                got = outcome(name, [q + (S,) for q in explore(fn, S, args, {roles["s"]: 1} if "s" in roles else {})])
                if got[0] in ("access", "sub", "copy"):
                    seen.setdefault(S, {})[pos] = got[1]
                elif got[0] == "scan":
                    seen.setdefault(S, {})[pos] = got[2]
                elif got[0] == "opaque":
                    unclear = unclear or "size %d, pos=%d: %s" % (S, pos, got[1])
        moved = any(len(set(m.values())) > 1 for m in seen.values())
        stuck = [(S, m) for S, m in sorted(seen.items()) if len(m) >= 2 and len(set(m.values())) == 1]
        if moved:
            ck.ok("POS-REACHES-ACCESS", SV + "::" + sig(fn), "the validated position flows into the accessed address", nontrivial=False)
        elif stuck and not unclear:
            S, m = stuck[-1]
            ps = sorted(m)
            ck.violation("POS-REACHES-ACCESS", fn.qname, sig(fn), "pos is range-checked but never used to address the data: on a view of size %d the calls with pos=%d and "
                         "pos=%d both start at byte %d - the operation always works on the same place of the view" % (S, ps[0], ps[-1], m[ps[0]]), fn.loc)
        else:
            ck.deferred.append("%s: how %s uses its position is not understood (%s)" % (fn.loc, name, unclear or "no access reached on the small model"))


REL = {">": lambda c: c > 0, "<=": lambda c: c <= 0, ">=": lambda c: c >= 0, "<": lambda c: c < 0, "==": lambda c: c == 0, "!=": lambda c: c != 0}


class NotUnderstood(Exception):
    pass


class RelEval:
    """evaluates a relational member of StringView for one value c of this->compare(other): calls of compare() and of the
    relational members on (*this, other) in either order are the atoms, everything else is integer / boolean logic"""

    def __init__(self, fn, c):
        self.fn, self.c = fn, c
        self.other = fn.params[0]["did"]
        self.env, self.alias = {}, {}

    def operand(self, e):
        e0 = strip_casts(e)
        while e0 is not None and e0["k"] in ("ParenExpr", "MaterializeTemporaryExpr", "ExprWithCleanups", "CXXBindTemporaryExpr") and kids(e0):
            e0 = strip_casts(kids(e0)[0])
        if e0 is None:
            return None
        if e0["k"] == "This":
            return "T"
        d = match.deref_of(e0)
        if d is not None and strip_casts(d)["k"] == "This":
            return "T"
        if e0["k"] == "DeclRefExpr":
            if e0["ref"]["id"] == self.other:
                return "O"
            return self.alias.get(e0["ref"]["id"])
        if e0["k"] in ("CXXConstructExpr", "CXXTemporaryObjectExpr") and bare_ty(e0.get("ty")) == SV and len(kids(e0)) == 1:
            return self.operand(kids(e0)[0])
        return None

    def ev(self, e):
        if e is None:
            raise NotUnderstood("empty expression")
        k = e["k"]
        if k in ("ParenExpr", "ExprWithCleanups", "MaterializeTemporaryExpr", "ImplicitCastExpr", "CXXStaticCastExpr", "CStyleCastExpr", "CXXFunctionalCastExpr") and kids(e):
            v = self.ev(kids(e)[0])
            t = bare_ty(e.get("ty"))
            if t == "bool":
                return int(v != 0)
            if t in ("int", "long", "bool") or k in ("ParenExpr", "ExprWithCleanups", "MaterializeTemporaryExpr"):
                return v
            raise NotUnderstood("conversion to %s" % t)
        if k in ("IntegerLiteral", "CXXBoolLiteralExpr"):
            return int(e["val"])
        if k == "DeclRefExpr" and e["ref"]["id"] in self.env:
            return self.env[e["ref"]["id"]]
        if k == "UnaryOperator" and e.get("op") in ("!", "-"):
            v = self.ev(kids(e)[0])
            return int(not v) if e["op"] == "!" else -v
        if k == "ConditionalOperator":
            c0, a, b = kids(e)
            return self.ev(a) if self.ev(c0) else self.ev(b)
        if k == "BinaryOperator":
            op = e["op"]
            if op == "&&":
                return int(bool(self.ev(kids(e)[0])) and bool(self.ev(kids(e)[1])))
            if op == "||":
                return int(bool(self.ev(kids(e)[0])) or bool(self.ev(kids(e)[1])))
            if op in ("<", ">", "<=", ">=", "==", "!="):
                x, y = self.ev(kids(e)[0]), self.ev(kids(e)[1])
                return int({"<": x < y, ">": x > y, "<=": x <= y, ">=": x >= y, "==": x == y, "!=": x != y}[op])
            if op in ("-", "+", "*"):
                x, y = self.ev(kids(e)[0]), self.ev(kids(e)[1])
                return x - y if op == "-" else x + y if op == "+" else x * y
        if "callee" in e and e["callee"].get("record") == SV and e["callee"].get("did") != self.fn.did and len(kids(e)) == 2:
            a, b = self.operand(kids(e)[0]), self.operand(kids(e)[1])
            nm = e["callee"]["name"]
            if a and b and (e.get("member_call") or k == "CXXOperatorCallExpr"):
                c = 0 if a == b else self.c if a == "T" else -self.c
                if nm == "compare":
                    return c
                if nm.startswith("operator") and nm[8:] in REL:
                    return int(REL[nm[8:]](c))
        raise NotUnderstood("%s at line %s" % (dtable.describe(e)[:50], e.get("l")))

    def run(self, s):
        """-> returned value, or None if s falls through"""
        k = s["k"]
        if k == "CompoundStmt":
            for x in kids(s):
                r = self.run(x)
                if r is not None:
                    return r
            return None
        if k == "ReturnStmt" and kids(s):
            return int(self.ev(kids(s)[0]))
        if k == "IfStmt" and "init" not in s and "condvar" not in s:
            c, t, e = (kids(s) + [None])[:3]
            br = t if self.ev(c) else e
            return self.run(br) if br is not None else None
        if k == "DeclStmt":
            for v in kids(s):
                if v["k"] != "VarDecl" or not kids(v) or kids(v)[0] is None:
                    raise NotUnderstood("declaration at line %s" % s.get("l"))
                if bare_ty(v.get("ty")) == SV:
                    o = self.operand(kids(v)[0])
                    if o is None:
                        raise NotUnderstood("view %s at line %s" % (v.get("name"), s.get("l")))
                    self.alias[v["did"]] = o
                else:
                    self.env[v["did"]] = self.ev(kids(v)[0])
            return None
        if k == "NullStmt":
            return None
        raise NotUnderstood("%s at line %s" % (k, s.get("l")))


def rel_table(fn, op):
    """-> None (agrees with c OP 0 for every sign of compare()), (c, got) of a disagreeing row; raises NotUnderstood"""
    for c in (-1, 0, 1, -7, 7):
        r = RelEval(fn, c).run(fn.body)
        if r is None:
            raise NotUnderstood("falls off the end")
        if bool(r) != bool(REL[op](c)):
            if abs(c) > 1:
                raise NotUnderstood("the result depends on the magnitude of compare(), not only on its sign")
            return c, bool(r)
    return None


def order_family(fn):
    """which byte order the ordering primitives used directly in fn implement: set of 'unsigned' | 'signed' | 'unknown'"""
    out = set()
    for x in fn.nodes():
        if "callee" in x and x["k"] == "CallExpr":
            q = x["callee"]["qname"]
            if q in ("std::char_traits::compare", "std::char_traits::lt", "memcmp", "std::memcmp"):
                out.add("unsigned")
            elif x["callee"]["name"] == "lexicographical_compare" and len(kids(x)) == 4 and "char" in bare_ty((kids(x)[0] or {}).get("ty")) \
                    and "unsigned char" not in bare_ty((kids(x)[0] or {}).get("ty")):
                out.add("signed")
            elif q in ("std::min", "std::max", "std::equal", "std::distance"):
                pass
            else:
                out.add("unknown")
        elif "callee" in x and x["callee"].get("record") == SV and x["callee"]["name"] not in ("size", "length", "empty", "data") + ITER_FACTORIES:
            out.add("unknown")
        if x["k"] == "BinaryOperator" and x.get("op") in ("<", ">", "<=", ">="):
            o = byte_order_of(x)
            if o:
                out.add(o)
    return out


def check_relational(ck, tu):
    for fn in tu.find(record=SV):
        if fn.kind != "operator" or fn.d.get("op") not in (">", "<=", ">=") or len(fn.params) != 1 or not fn.body:
            continue
        op = fn.d["op"]
        try:
            bad = rel_table(fn, op)
        except NotUnderstood as e:
            ck.deferred.append("%s: operator%s is not understood as a function of compare() / operator<: %s" % (fn.loc, op, e))
            continue
        if bad is None:
            ck.ok("REL-FROM-COMPARE", "%s::operator%s" % (SV, op), "derived from the same ordering primitive with the right operand order / negation")
        else:
            c, got = bad
            ck.violation("REL-FROM-COMPARE", fn.qname, "operator" + op, "operator%s is not the matching derivation of operator< / compare(): when this->compare(other) %s 0 "
                         "it returns %s" % (op, "<" if c < 0 else ">" if c > 0 else "==", str(got).lower()), fn.loc)
    # operator< and compare must agree: both built on one primitive
    lt = [f for f in tu.find(record=SV) if f.kind == "operator" and f.d.get("op") == "<" and len(f.params) == 1 and f.body]
    cmpf = [f for f in tu.find(record=SV, name="compare") if len(f.params) == 1 and "StringView" in f.params[0]["ty"]]
    if lt and cmpf:
        try:
            bad = rel_table(lt[0], "<")
            if bad is None:
                ck.ok("REL-FROM-COMPARE", SV + "::operator< vs compare", "operator< and compare() are built on the same primitive (compare)")
            else:
                ck.violation("REL-FROM-COMPARE", lt[0].qname, "lt-vs-compare", "operator< disagrees with compare(): when this->compare(other) %s 0 it returns %s"
                             % ("<" if bad[0] < 0 else ">" if bad[0] > 0 else "==", str(bad[1]).lower()), lt[0].loc)
        except NotUnderstood as e:
            fl, fc = order_family(lt[0]), order_family(cmpf[0])
            if fl == {"unsigned"} and fc == {"unsigned"}:
                ck.ok("REL-FROM-COMPARE", SV + "::operator< vs compare", "operator< and compare() order bytes with primitives of the same (unsigned) family")
            elif {fl and min(fl), fc and min(fc)} == {"signed", "unsigned"} and len(fl) == 1 and len(fc) == 1:
                ck.violation("REL-FROM-COMPARE", lt[0].qname, "lt-vs-compare", "operator< (%s byte order) and compare() (%s byte order) order bytes with different primitives: "
                             "they disagree on bytes 0x80..0xFF" % (min(fl), min(fc)), lt[0].loc)
            else:
                ck.deferred.append("%s: operator< is neither derived from compare() nor built on a known byte-ordering primitive: %s" % (lt[0].loc, e))


FWD = ("find", "rfind", "find_first_of", "find_last_of", "find_first_not_of", "find_last_not_of")


def resolve_arg(fn, e, defs, written, depth=0):
    """a forwarded argument as a term over the parameters: ('param', i) | ('int', v) | ('addr', i) | ('view', term, ...) |
    ('strlen', term) | ('?', text).  Locals that are defined once and never written afterwards stand for their initialiser."""
    e0 = strip_casts(e)
    while e0 is not None and e0["k"] in ("ParenExpr", "MaterializeTemporaryExpr", "ExprWithCleanups", "CXXBindTemporaryExpr") and kids(e0):
        e0 = strip_casts(kids(e0)[0])
    if e0 is None:
        return ("?", "nothing")
    c = const_int(e0)
    if c is not None and e0["k"] != "DeclRefExpr":
        return ("int", c & M64)
    if e0["k"] == "DefaultArg":
        return ("?", "default argument") if const_int(e0) is None else ("int", const_int(e0) & M64)
    if e0["k"] == "DeclRefExpr":
        d = e0["ref"]["id"]
        i = fn.param_index(d)
        if i is not None:
            return ("param", i) if d not in written else ("?", "parameter %s is modified" % e0["ref"]["name"])
        if len(defs.get(d, [])) == 1 and d not in written and depth < 6:
            return resolve_arg(fn, defs[d][0], defs, written, depth + 1)
        if c is not None:
            return ("int", c & M64)
        return ("?", dtable.describe(e0)[:40])
    if e0["k"] == "UnaryOperator" and e0.get("op") == "&":
        t = resolve_arg(fn, kids(e0)[0], defs, written, depth + 1)
        return ("addr", t[1]) if t[0] == "param" else ("?", dtable.describe(e0)[:40])
    if e0["k"] in ("CXXConstructExpr", "CXXTemporaryObjectExpr") and bare_ty(e0.get("ty")) == SV:
        return ("view",) + tuple(resolve_arg(fn, a, defs, written, depth + 1) for a in kids(e0) if a is not None and a["k"] != "DefaultArg")
    if "callee" in e0 and e0["callee"]["name"] in ("strlen", "length") and len(kids(e0)) == 1 and \
            (e0["callee"]["name"] == "strlen" or e0["callee"]["qname"] == "std::char_traits::length"):
        return ("strlen", resolve_arg(fn, kids(e0)[0], defs, written, depth + 1))
    return ("?", dtable.describe(e0)[:40])


def has_unknown(t):
    return t[0] == "?" or any(isinstance(x, tuple) and has_unknown(x) for x in t[1:])


def fmt_term(fn, t):
    if t[0] == "param":
        return fn.params[t[1]]["name"] or "#%d" % t[1]
    if t[0] == "int":
        return "npos" if t[1] == NPOS else str(t[1])
    if t[0] == "addr":
        return "&" + (fn.params[t[1]]["name"] or "#%d" % t[1])
    if t[0] == "view":
        return "StringView(%s)" % ", ".join(fmt_term(fn, x) for x in t[1:])
    if t[0] == "strlen":
        return "strlen(%s)" % fmt_term(fn, t[1])
    return "?"


class _Ret(Exception):
    def __init__(self, v):
        self.v = v


INT_TYPES = UNSIGNED64 + SIGNED64 + ("int", "unsigned int", "bool")


class FwdEval:
    """evaluates a forwarding overload of the find family on one point (pos, n) of a small model.  Values: 64-bit integers,
    ("p", base, offset) = a pointer into the C string of parameter k (base ("s", k)) or to the character parameter k itself
    (base ("a", k)), ("null",), ("chr", k) = the character parameter, ("v", pointer, length) = a
    StringView (constructors are evaluated from their initialiser lists), ("call", pointer, length, pos) = the result of
    calling another overload of the same member on *this, reduced to what the StringView overload is asked to search for.
    Conditions are decided on the integers of the model; whatever else is met raises NotUnderstood."""

    def __init__(self, tu, fn, env, strlen=None):
        self.tu, self.fn, self.env, self.depth = tu, fn, dict(env), 0
        self.strlen = strlen or {}          # base of a C string parameter -> its length on this point of the model

    def cstr_len(self, p, e):
        """strlen(p) for a pointer into a C string parameter whose length is part of the model"""
        if isinstance(p, tuple) and p[0] == "p" and p[1] in self.strlen and p[2] <= self.strlen[p[1]]:
            return self.strlen[p[1]] - p[2]
        self.nu(e, "length of the C string")

    def nu(self, e, what=None):
        raise NotUnderstood("%s at line %s" % (what or (dtable.describe(e)[:50] if e is not None else "nothing"), (e or {}).get("l", "?")))

    def conv(self, v, ty, e):
        if not is_int(v):
            return v
        t = bare_ty(ty)
        if t in UNSIGNED64 + SIGNED64:
            return v & M64
        if t == "unsigned int":
            return v & 0xFFFFFFFF
        if t == "int":
            v &= 0xFFFFFFFF
            return (v | (M64 ^ 0xFFFFFFFF)) if v >> 31 else v
        if t == "bool":
            return int(v != 0)
        self.nu(e, "conversion to %s" % t)

    def truth(self, e):
        v = self.ev(e)
        if is_int(v):
            return v != 0
        if isinstance(v, tuple) and v[0] == "p":
            return True                                     # a pointer into an object that exists
        if v == ("null",):
            return False
        self.nu(e, "condition %s" % dtable.describe(e)[:40])

    def lvalue(self, e):
        e = strip_casts(e)
        while e is not None and e["k"] == "ParenExpr":
            e = strip_casts(kids(e)[0])
        if e is not None and e["k"] == "DeclRefExpr" and e["ref"].get("kind") in ("local", "param") and e["ref"]["id"] in self.env:
            if isinstance(self.env[e["ref"]["id"]], tuple) and self.env[e["ref"]["id"]][0] == "chr":
                self.nu(e, "the character parameter is modified")
            return e["ref"]["id"]
        self.nu(e, "assignment target %s" % (dtable.describe(e)[:40] if e is not None else "?"))

    def arith(self, op, x, y, e, signed):
        px, py = isinstance(x, tuple) and x[0] == "p", isinstance(y, tuple) and y[0] == "p"
        if px and is_int(y) and op in ("+", "-"):
            return ("p", x[1], (x[2] + y if op == "+" else x[2] - y) & M64)
        if is_int(x) and py and op == "+":
            return ("p", y[1], (y[2] + x) & M64)
        if px and py and x[1] == y[1]:
            if op == "-":
                return (x[2] - y[2]) & M64
            if op in ("==", "!="):
                return int((x[2] == y[2]) == (op == "=="))
            if op in ("<", ">", "<=", ">=") and not (x[2] >> 63) and not (y[2] >> 63):
                x, y, signed = x[2], y[2], False
        if (px and y == ("null",)) or (x == ("null",) and py):
            if op in ("==", "!="):
                return int(op == "!=")
        if x == ("null",) and y == ("null",) and op in ("==", "!="):
            return int(op == "==")
        if not (is_int(x) and is_int(y)):
            self.nu(e)
        if op == "+":
            return (x + y) & M64
        if op == "-":
            return (x - y) & M64
        if op == "*":
            return (x * y) & M64
        if op in ("/", "%") and y != 0 and not (signed and ((x >> 63) or (y >> 63))):
            return x // y if op == "/" else x % y
        if op in ("<", ">", "<=", ">=", "==", "!="):
            if signed:
                x, y = sval(x), sval(y)
            return int({"<": x < y, ">": x > y, "<=": x <= y, ">=": x >= y, "==": x == y, "!=": x != y}[op])
        self.nu(e)

    def ev(self, e):
        if e is None:
            self.nu(e)
        k = e["k"]
        if k in ("ParenExpr", "ExprWithCleanups", "MaterializeTemporaryExpr", "CXXBindTemporaryExpr", "ConstantExpr"):
            return self.ev(kids(e)[0])
        if k in ("IntegerLiteral", "CXXBoolLiteralExpr", "CharacterLiteral") and bare_ty(e.get("ty")) in INT_TYPES:
            return self.conv(int(e["val"]) & M64, e.get("ty"), e)
        if "cval" in e and bare_ty(e.get("ty")) in INT_TYPES:
            return self.conv(int(e["cval"]) & M64, e.get("ty"), e)
        if k in ("ImplicitCastExpr", "CStyleCastExpr", "CXXStaticCastExpr", "CXXFunctionalCastExpr", "CXXConstCastExpr") and kids(e):
            v = self.ev(kids(e)[0])
            c = e.get("cast")
            if is_int(v):
                if c in ("IntegralCast", "IntegralToBoolean") or k != "ImplicitCastExpr":
                    return self.conv(v, e.get("ty"), e)
                if c in (None, "NoOp", "LValueToRValue"):
                    return v
                self.nu(e, "conversion %s" % c)
            if c == "PointerToBoolean":
                return int(self.truth(kids(e)[0]))
            if c in (None, "NoOp", "LValueToRValue", "ConstructorConversion"):
                return v
            self.nu(e, "conversion %s" % c)
        if k in ("NullPtr", "CXXNullPtrLiteralExpr", "GNUNullExpr"):
            return ("null",)
        if k == "DeclRefExpr":
            did = e["ref"]["id"]
            if did in self.env:
                if self.env[did] == UNINIT:
                    self.nu(e, "uninitialised %s" % e["ref"].get("name"))
                return self.env[did]
            if e["ref"].get("qname") == SV + "::npos":
                return NPOS
            self.nu(e)
        if k == "MemberExpr":
            if e.get("member") == "npos" and e.get("owner") == SV:
                return NPOS
            f = match.field_of(e)
            if f and e.get("owner") == SV and strip_casts(f[0])["k"] != "This" and f[1] in ("ptr_", "size_"):
                v = self.ev(f[0])
                if isinstance(v, tuple) and v[0] == "v":
                    return v[1] if f[1] == "ptr_" else v[2]
            self.nu(e)
        if k in ("CXXConstructExpr", "CXXTemporaryObjectExpr"):
            return self.construct(e)
        if k == "ConditionalOperator":
            c0, a, b = kids(e)
            return self.ev(a) if self.truth(c0) else self.ev(b)
        if k == "UnaryOperator":
            return self.unary(e)
        if k in ("BinaryOperator", "CompoundAssignOperator"):
            return self.binary(e)
        if "callee" in e and k in ("CallExpr", "CXXMemberCallExpr"):
            return self.call(e)
        self.nu(e)

    def unary(self, e):
        op, x = e.get("op"), kids(e)[0]
        if op == "!":
            return int(not self.truth(x))
        if op in ("-", "+"):
            v = self.ev(x)
            if is_int(v):
                return self.conv((-v if op == "-" else v) & M64, e.get("ty"), e)
            self.nu(e)
        if op in ("++", "--"):
            d = self.lvalue(x)
            old = self.env[d]
            new = self.arith("+" if op == "++" else "-", old, 1, e, False)
            if is_int(new):
                new = self.conv(new, x.get("ty"), e)
            self.env[d] = new
            return old if e.get("postfix") else new
        if op == "&":
            x0 = strip_casts(x)
            while x0 is not None and x0["k"] == "ParenExpr":
                x0 = strip_casts(kids(x0)[0])
            if x0 is not None and x0["k"] == "DeclRefExpr" and isinstance(self.env.get(x0["ref"]["id"]), tuple) and self.env[x0["ref"]["id"]][0] == "chr" \
                    and self.fn.param_index(x0["ref"]["id"]) == self.env[x0["ref"]["id"]][1]:
                return ("p", ("a", self.env[x0["ref"]["id"]][1]), 0)
            ip = match.index_parts(x0) if x0 is not None else None
            if ip:
                return self.arith("+", self.ev(ip[0]), self.ev(ip[1]), e, False)
            if x0 is not None and match.deref_of(x0) is not None:
                v = self.ev(match.deref_of(x0))
                if isinstance(v, tuple) and v[0] == "p":
                    return v
        self.nu(e)

    def binary(self, e):
        op = e.get("op")
        l, r = kids(e)[0], kids(e)[1]
        if op == ",":
            self.ev(l)
            return self.ev(r)
        if op == "&&":
            return int(self.truth(l) and self.truth(r))
        if op == "||":
            return int(self.truth(l) or self.truth(r))
        if op == "=":
            d = self.lvalue(l)
            v = self.ev(r)
            self.env[d] = v
            return v
        if op in ("+=", "-="):
            d = self.lvalue(l)
            v = self.arith(op[0], self.env[d], self.ev(r), e, False)
            if is_int(v):
                v = self.conv(v, l.get("ty"), e)
            self.env[d] = v
            return v
        if op in ("+", "-", "*", "/", "%", "<", ">", "<=", ">=", "==", "!="):
            x, y = self.ev(l), self.ev(r)
            signed = False
            if is_int(x) and is_int(y):
                if op in ("+", "-", "*", "/", "%"):
                    signed = bare_ty(e.get("ty")) in SIGNED64 + ("int",)
                else:
                    ta, tb = bare_ty(l.get("ty")), bare_ty(r.get("ty"))
                    if ta in SIGNED64 + ("int",) and tb in SIGNED64 + ("int",):
                        signed = True
                    elif not (ta in UNSIGNED64 + ("unsigned int", "bool") and tb in UNSIGNED64 + ("unsigned int", "bool")) and ((x >> 63) or (y >> 63)):
                        self.nu(e, "comparison of mixed signedness")
            v = self.arith(op, x, y, e, signed)
            if is_int(v) and op in ("+", "-", "*", "/", "%"):
                v = self.conv(v, e.get("ty"), e)
            return v
        self.nu(e)

    def construct(self, e):
        a = [x for x in kids(e) if x is not None]
        if any(x["k"] == "DefaultArg" for x in a):
            self.nu(e, "default argument")
        if bare_ty(e.get("ty")) != SV:
            if len(a) == 1:
                return self.conv(self.ev(a[0]), e.get("ty"), e) if bare_ty(e.get("ty")) in INT_TYPES else self.nu(e)
            self.nu(e)
        cal = self.tu.by_did.get(e["callee"].get("did"))
        if cal is None or cal.kind != "ctor" or len(cal.params) != len(a) or self.depth >= 4 or (cal.body is not None and kids(cal.body)):
            self.nu(e, "constructor %s" % dtable.describe(e)[:40])
        vals = [self.ev(x) for x in a]
        saved, self.env = self.env, {prm["did"]: v for prm, v in zip(cal.params, vals)}
        self.depth += 1
        try:
            ptr = size = None
            for i in cal.inits:
                if i.get("e") is None:
                    self.nu(e, "constructor initialiser")
                if i.get("delegating"):
                    r = self.ev(i["e"])
                    if not (isinstance(r, tuple) and r[0] == "v"):
                        self.nu(e, "delegating constructor")
                    return r
                if i.get("field") == "ptr_":
                    ptr = self.ev(i["e"])
                elif i.get("field") == "size_":
                    size = self.ev(i["e"])
                else:
                    self.nu(e, "constructor initialiser")
        finally:
            self.depth -= 1
            self.env = saved
        if isinstance(ptr, tuple) and ptr[0] in ("p", "null") and is_int(size):
            return ("v", ptr, size)
        self.nu(e, "constructed view")

    def call(self, e):
        name, qn = e["callee"]["name"], e["callee"].get("qname") or ""
        a = [x for x in kids(e) if x is not None]
        if any(x["k"] == "DefaultArg" for x in a):
            self.nu(e, "default argument")
        if (name == "strlen" and qn in ("strlen", "std::strlen")) or qn == "std::char_traits::length":
            if len(a) == 1:
                return self.cstr_len(self.ev(a[0]), e)
            self.nu(e)
        if qn in ("std::min", "std::max") and len(a) == 2:
            x, y = self.ev(a[0]), self.ev(a[1])
            t = bare_ty((e["callee"].get("targs") or [""])[0])
            if is_int(x) and is_int(y) and t in UNSIGNED64 + ("unsigned int",):
                return min(x, y) if name == "min" else max(x, y)
            if is_int(x) and is_int(y) and t in SIGNED64 + ("int",):
                return (min if name == "min" else max)(x, y, key=sval)
            self.nu(e)
        if e.get("member_call"):
            obj = strip_casts(a[0])
            if not (obj["k"] == "This" or (match.deref_of(obj) is not None and strip_casts(match.deref_of(obj))["k"] == "This")):
                self.nu(e, "member call on another object")
            a = a[1:]
        cal = self.tu.by_did.get(e["callee"].get("did"))
        if cal is None or len(cal.params) != len(a):
            self.nu(e, "call of %s" % name)
        vals = [self.ev(x) for x in a]
        if e.get("member_call") and e["callee"].get("record") == SV and name == self.fn.name and self.depth == 0:
            if cal.did == self.fn.did:
                self.nu(e, "the overload calls itself")
            tt = [bare_ty(q["ty"]) for q in cal.params]
            isp = lambda v: isinstance(v, tuple) and v[0] in ("p", "null")
            if tt == [SV, "unsigned long"] and isinstance(vals[0], tuple) and vals[0][0] == "v" and is_int(vals[1]):
                return ("call", vals[0][1], vals[0][2], vals[1])
            if tt == ["char *", "unsigned long", "unsigned long"] and isp(vals[0]) and is_int(vals[1]) and is_int(vals[2]):
                return ("call", vals[0], vals[2], vals[1])
            if tt == ["char *", "unsigned long"] and is_int(vals[1]):
                return ("call", vals[0], self.cstr_len(vals[0], e), vals[1])
            self.nu(e, "call of the %s overload" % sig(cal))
        # a helper (static or called on *this): its body is evaluated with the parameters bound by value
        if cal.body is None or cal.kind not in ("method", "function") or self.depth >= 3:
            self.nu(e, "call of %s" % name)
        for prm, v in zip(cal.params, vals):
            if (prm["ty"] or "").rstrip().endswith("&") and not (prm["ty"] or "").lstrip().startswith("const "):
                self.nu(e, "reference parameter of %s" % name)
            if isinstance(v, tuple) and v[0] == "chr" and (prm["ty"] or "").rstrip().endswith("&"):
                self.nu(e, "the character parameter is passed by reference")      # its address may be taken there
            self.env[prm["did"]] = v
        self.depth += 1
        try:
            self.run(cal.body)
        except _Ret as r:
            if r.v is None:
                self.nu(e, "call of %s" % name)
            return r.v
        finally:
            self.depth -= 1
        self.nu(e, "call of %s" % name)

    def run(self, s):
        if s is None:
            return
        k = s["k"]
        if k == "CompoundStmt":
            for c in kids(s):
                self.run(c)
            return
        if k == "NullStmt":
            return
        if k == "IfStmt":
            if "init" in s or "condvar" in s:
                self.nu(s, "if with a declaration")
            c, t, e = (kids(s) + [None])[:3]
            if self.truth(c):
                self.run(t)
            elif e is not None:
                self.run(e)
            return
        if k == "ReturnStmt":
            raise _Ret(self.ev(kids(s)[0]) if kids(s) and kids(s)[0] is not None else None)
        if k == "DeclStmt":
            for v in kids(s):
                if v["k"] != "VarDecl" or (v.get("ty") or "").rstrip().endswith("&"):
                    self.nu(s, "declaration")
                self.env[v["did"]] = self.ev(kids(v)[0]) if kids(v) and kids(v)[0] is not None else UNINIT
            return
        if k in ("UnaryOperator", "BinaryOperator", "CompoundAssignOperator", "ParenExpr", "ExprWithCleanups") or \
                (k in ("CXXStaticCastExpr", "CStyleCastExpr", "CXXFunctionalCastExpr") and bare_ty(s.get("ty")) == "void"):
            if bare_ty(s.get("ty")) == "void" and k not in ("UnaryOperator", "BinaryOperator", "CompoundAssignOperator"):
                return
            self.ev(s)
            return
        self.nu(s, k)


def fwd_fmt(v):
    if is_int(v):
        return "npos" if v == NPOS else "npos-%d" % (NPOS - v) if v > NPOS - 64 else str(v)
    if v == ("null",):
        return "nullptr"
    if v[0] == "p":
        b = ("&" if v[1][0] == "a" else "") + "#%d" % v[1][1]
        return b if v[2] == 0 else "%s + %s" % (b, fwd_fmt(v[2]))
    return "?"


def fwd_table(tu, fn, kind):
    """evaluates the forwarding overload on a small model of (pos, n): -> None (every point ends in a call of another overload
    that asks for the required pattern at the required position) or (pos, n, pointer, length, position) of a point that does
    not; raises NotUnderstood.  The integer constants of the function (and their neighbours) are part of the model, so that a
    branch on one of them is taken both ways."""
    consts = set()
    for y in fn.nodes():
        c = const_int(y) if y["k"] in ("IntegerLiteral", "CharacterLiteral") or "cval" in y else None
        if c is not None:
            consts.update(((c - 1) & M64, c & M64, (c + 1) & M64))
    pv = [1, 0, 2, 5, NPOS - 1, NPOS] + sorted(consts - {0, 1, 2, 5, NPOS - 1, NPOS})
    nv = [None]
    if kind == "spn":
        nv = [3, 0, 1, 7, NPOS - 1, NPOS] + sorted(consts - {0, 1, 3, 7, NPOS - 1, NPOS})
    elif kind == "sp":
        nv = [3, 0, 1, 7] + sorted(c for c in consts - {0, 1, 3, 7} if c < 1 << 32)       # n stands for strlen(s) here
    if len(pv) * len(nv) > 4000:
        raise NotUnderstood("too many constants")
    d = [q["did"] for q in fn.params]
    base = ("p", ("a" if kind == "chr" else "s", 0), 0)
    for pos in pv:
        for n in nv:
            env = {d[0]: ("chr", 0) if kind == "chr" else base, d[1]: pos}
            if kind == "spn":
                env[d[2]] = n
            fe = FwdEval(tu, fn, env, {base[1]: n} if kind == "sp" else None)
            try:
                fe.run(fn.body)
                raise NotUnderstood("falls off the end")
            except _Ret as r:
                v = r.v
            except RecursionError:
                raise NotUnderstood("recursion")
            if not (isinstance(v, tuple) and v[0] == "call"):
                raise NotUnderstood("the returned value is not the result of another %s overload (pos=%s)" % (fn.name, fwd_fmt(pos)))
            wlen = 1 if kind == "chr" else n
            if v[3] != pos or v[2] != wlen or (v[1] != base and wlen != 0):
                return pos, n, v[1], v[2], v[3]
    return None


def overload_by_evaluation(ck, tu, fn, kind, why, deferred_msg):
    """second line of OVERLOAD-ROLES for overloads that are not one straight-line forwarding call"""
    try:
        bad = fwd_table(tu, fn, kind)
    except NotUnderstood as e:
        ck.deferred.append("%s (%s)" % (deferred_msg, e))
        return
    if bad is None:
        ck.ok("OVERLOAD-ROLES", SV + "::" + sig(fn), "on a small model of (pos, n) every path ends in a call of another overload that is asked for the pattern and the position "
              "in their roles", nontrivial=False)
    else:
        pos, n, ptr, ln, at = bad
        name = lambda k: fn.params[k]["name"] or "#%d" % k
        txt = lambda v: fwd_fmt(v).replace("#0", name(0))
        ck.violation("OVERLOAD-ROLES", fn.qname, sig(fn), "%s: with %s=%s%s it searches for StringView(%s, %s) at %s"
                     % (why, name(1), fwd_fmt(pos), "" if n is None else ", %s=%s" % (name(2) if kind == "spn" else "strlen(%s)" % name(0), fwd_fmt(n)), txt(ptr), txt(ln), fwd_fmt(at)), fn.loc)


def check_overloads(ck, tu):
    for fn in tu.find(record=SV):
        if fn.name not in FWD or not fn.params or "StringView" in fn.params[0]["ty"]:
            continue
        calls = [x for x in fn.nodes() if "callee" in x and x["callee"]["name"] == fn.name and x.get("member_call") and x["callee"].get("record") == SV]
        if not calls:
            ck.ok("OVERLOAD-ROLES", SV + "::" + sig(fn), "own implementation (not a forwarding overload): covered by SCAN-BOUND only", nontrivial=False)
            continue
        # roles by position and type, as fixed by the std::string_view interface: (char c, pos) | (const char* s, pos, n) | (const char* s, pos)
        tys = [bare_ty(p["ty"]) for p in fn.params]
        if tys == ["char", "unsigned long"]:
            kind = "chr"
            want = (("view", ("addr", 0), ("int", 1)), ("param", 1))
            alts = ()
            why = "the character overload must search for StringView(&c, 1) at pos"
        elif tys == ["char *", "unsigned long", "unsigned long"]:
            kind = "spn"
            want = (("view", ("param", 0), ("param", 2)), ("param", 1))
            alts = ()
            why = "the (s, pos, n) overload must search for StringView(s, n) at pos"
        elif tys == ["char *", "unsigned long"]:
            kind = "sp"
            want = (("view", ("param", 0)), ("param", 1))
            alts = ((("view", ("param", 0), ("strlen", ("param", 0))), ("param", 1)),)
            why = "the (s, pos) overload must search for StringView(s) at pos"
        else:
            ck.deferred.append("%s: parameters of the %s overload are not those of a std::string_view overload: %s" % (fn.loc, fn.name, tys))
            continue
        straight = not any(y["k"] in ("IfStmt", "ForStmt", "WhileStmt", "DoStmt", "SwitchStmt", "ConditionalOperator", "GotoStmt", "CXXTryStmt") for y in fn.nodes())
        call = calls[0]
        a = [x for x in kids(call)[1:] if x is not None]
        target = tu.by_did.get(call["callee"].get("did"))
        obj = strip_casts(kids(call)[0])
        defs = local_defs(fn)
        written = {ref_of(match.binop(y, ("=", "+=", "-="))[1]) for y in fn.nodes()
                   if y["k"] in ("BinaryOperator", "CompoundAssignOperator", "CXXOperatorCallExpr") and match.binop(y, ("=", "+=", "-="))}
        written |= {ref_of(match.unop(y, ("++", "--"))[1]) for y in fn.nodes() if match.unop(y, ("++", "--"))}
        rets = [y for y in fn.nodes() if y["k"] == "ReturnStmt"]
        returned = len(rets) == 1 and kids(rets[0]) and (strip_casts(kids(rets[0])[0]) is call or
                                                          (ref_of(kids(rets[0])[0]) is not None and len(defs.get(ref_of(kids(rets[0])[0]), [])) == 1
                                                           and strip_casts(defs[ref_of(kids(rets[0])[0])][0]) is call and ref_of(kids(rets[0])[0]) not in written))
        if len(calls) == 1 and straight and obj["k"] == "This" and len(a) == 3 and target is not None and tys == ["char *", "unsigned long"] and \
                [bare_ty(q["ty"]) for q in target.params] == ["char *", "unsigned long", "unsigned long"]:
            # the (s, pos) overload expressed through the (s, pos, n) overload: n must be the length of the C string
            got3 = tuple(resolve_arg(fn, x, defs, written) for x in a)
            if got3 == (("param", 0), ("param", 1), ("strlen", ("param", 0))) and returned:
                ck.ok("OVERLOAD-ROLES", SV + "::" + sig(fn), "forwards (s, pos, strlen(s)) to the (s, pos, n) overload", nontrivial=False)
            elif any(has_unknown(t) for t in got3) or not returned:
                overload_by_evaluation(ck, tu, fn, kind, why, "%s: arguments forwarded by the %s overload not understood: %s(%s)"
                                       % (fn.loc, sig(fn), fn.name, ", ".join(fmt_term(fn, t) for t in got3)))
            else:
                ck.violation("OVERLOAD-ROLES", fn.qname, sig(fn), "%s: it calls %s(%s)" % (why, fn.name, ", ".join(fmt_term(fn, t) for t in got3)), fn.loc)
            continue
        if len(calls) != 1 or not straight or obj["k"] != "This" or len(a) != 2 or target is None or not target.params or bare_ty(target.params[0]["ty"]) != SV:
            overload_by_evaluation(ck, tu, fn, kind, why, "%s: the %s overload calls %s, but not as one straight-line forwarding call on *this to the StringView overload"
                                   % (fn.loc, sig(fn), fn.name))
            continue
        got = (resolve_arg(fn, a[0], defs, written), resolve_arg(fn, a[1], defs, written))
        if got == want or got in alts:
            if returned:
                ck.ok("OVERLOAD-ROLES", SV + "::" + sig(fn), "forwards (pattern, pos) in their roles", nontrivial=False)
            else:
                overload_by_evaluation(ck, tu, fn, kind, why, "%s: the %s overload forwards correctly but what it returns is not understood" % (fn.loc, sig(fn)))
        elif has_unknown(got[0]) or has_unknown(got[1]):
            overload_by_evaluation(ck, tu, fn, kind, why, "%s: arguments forwarded by the %s overload not understood: %s(%s, %s)"
                                   % (fn.loc, sig(fn), fn.name, fmt_term(fn, got[0]), fmt_term(fn, got[1])))
        else:
            ck.violation("OVERLOAD-ROLES", fn.qname, sig(fn), "%s: it searches for %s at %s" % (why, fmt_term(fn, got[0]), fmt_term(fn, got[1])), fn.loc)


def run(ck):
    ck.explanation = (
        "GUARD-TABLES: at/substr/copy and the six find-family members are evaluated on a small model (view size 0..3, pos incl. npos and "
        "npos-1, n, argument size) with 64-bit wrap-around: integers, positions of the view (pointers, iterators, reverse iterators), sub-views and "
        "bytes read from memory are the values; the evaluation follows locals, loops, early returns, private helpers and closures called in the "
        "function up to the first byte of the view that is read or the range handed to an algorithm (std::find_end = the first match of the "
        "mirrored range), and what happens there (throw / fixed answer / offset and length / start and "
        "direction of the scan) is compared with std::string_view's rules; because these prefixes are piecewise linear with unit coefficients "
        "the small model covers every ordering of (pos, size, argument size). Every later read of an evaluated path must stay inside the view as well: "
        "one outside is reported if the model point alone leads to it, or the model point and a content of the view (each branch before it tested "
        "another byte of the view for membership in the non-empty argument), otherwise it is 'cannot decide'. "
        "A difference is reported only for an evaluated point of the model; "
        "a construct the evaluation does not understand is 'cannot decide'. NO-CSTR-PRIMITIVE / BYTE-ORDER-UNSIGNED: no NUL-terminated "
        "primitive on memory of a view and no signed-char ordering inside the class; SCAN-BOUND: raw mem*/char_traits calls are limited to "
        "size_ - offset (evaluated on the same model where the shape is not the usual one); POS-REACHES-ACCESS: the first byte touched moves with "
        "pos; REL-FROM-COMPARE: truth table of the relational members over the sign of compare(); OVERLOAD-ROLES: the 18 forwarding overloads "
        "pass (pattern, pos, n) in their roles (roles by position and type); an overload that is not one straight-line call is evaluated on a small "
        "model of (pos, n / strlen(s)) incl. the constants it mentions: every path must end in a call of another overload of the member that is "
        "asked for the same bytes (constructors are evaluated from their initialiser lists) at pos. Search results as values are not decided.")
    tu = ir.extract("witness/C18_string_view.cpp")
    # a rule that cannot decide its construct (exit 2) must not hide what another rule reports
    for rule in (check_primitives, check_guards, check_pos_reaches, check_relational, check_overloads):
        ck.guarded(lambda: rule(ck, tu))
    ck.floor("GUARD-TABLES", 9)
    ck.floor("POS-REACHES-ACCESS", 8)
    ck.floor("REL-FROM-COMPARE", 4)
    ck.floor("OVERLOAD-ROLES", 18)
