"""C18 — StringView vs std::string_view.

Where the members look (small-model evaluation, bytes of the views are symbolic): banned NUL-terminated primitives
(NO-CSTR-PRIMITIVE), unsigned byte order (BYTE-ORDER-UNSIGNED), guard tables of at / substr / copy and the find family
(GUARD-TABLES: the clamping / early-return prefix up to the first access), the validated position reaches the access
(POS-REACHES-ACCESS), raw scan bounds (SCAN-BOUND), relational derivation (REL-FROM-COMPARE), overload roles (OVERLOAD-ROLES).

What the members answer (concrete evaluation, class ConcEval: the function is interpreted on concrete views / C strings /
std::strings and integers and the outcome - value, bytes left in the view, byte referred to, throw / no throw - is compared with
a Python reference of std::string_view's definition):
  COMPARE-VALUE         the six overloads of compare(): sign of the result incl. the size tie-break (a proper prefix is smaller),
                        bytes as unsigned char, substr clamping of (pos1, n1) / (pos2, n2), throw iff pos > size()
  OPERATOR-VALUE        the member operators == != < > <= >= and the 24 non-member overloads against std::string / const char*
  PREFIX-SUFFIX-VALUE   starts_with / ends_with (view, char, C string if there is one), remove_prefix / remove_suffix (which bytes
                        remain, n <= size() as std::string_view requires)
  FIND-VALUE            find / rfind / find_first_of / find_last_of / find_first_not_of / find_last_not_of (view, pos) and, if
                        there is one, (const char*, pos): the index returned
  ELEMENT-ACCESS-VALUE  front() back() operator[] at(): which byte of the view is referred to; at() throws iff pos >= size()
  TO-STRING-VALUE       to_string() and the conversion to std::string: the bytes of the view, embedded NUL bytes kept
The argument families are exhaustive small ones: every byte string over {00, 41, 80} up to length 2 (3 in the thorough tier) plus
strings with 7f / ff and prefixes of each other, the default-constructed view, views of distinct bytes, positions and counts
0..4, size() - 1, size(), size() + 1, 2^31, 2^32, 2^32 + 1, 2^63, npos - 1, npos.
Operands that share storage: what a member of std::string_view answers depends on the bytes of its operands only, not on where
they lie.  Every member that takes a second view / C string / std::string (compare, the operators, starts_with / ends_with, the
find family) is therefore also evaluated with both operands in ONE memory block: every pair of sub-ranges of the buffers over
{00, 41, 80} up to length 2 (3 in the thorough tier) and 41 41 41, 41 00 80, 41 80 41 (same start with different lengths, the same
range twice, one object on both sides, nested, overlapping, adjacent), every sub-range of a NUL-terminated buffer against every
pointer into that buffer, every sub-range of a std::string against that std::string.  Pointers are (block, offset): == / != of
pointers is decided (different blocks are unequal), their ordering and difference only inside one block.

Verdict policy of this file: a violation is reported only for a concrete point of an evaluation (a row of the small model, a
row of the truth table over the sign of compare(), forwarded arguments that resolve to the wrong parameters, a call of a
C-string primitive on memory that provably belongs to a view, a relational comparison of two operands whose types are known
to be plain char, a concrete call whose interpreted outcome differs from the reference or reads a byte outside the memory of
its arguments).  Whatever is not understood is recorded as 'cannot decide' (ck.deferred / dtable.Undecidable -> exit 2): a
construct the concrete interpreter does not model, undefined or unspecified behaviour it runs into (signed overflow, ordering
of pointers into different objects, a result that depends on the magnitude - not the sign - of what a compare primitive
returns), a member of the interface that is not there or has other parameters.

Forms the evaluators follow beyond plain statements: private helpers and closures, plain aggregates (struct Window { first,
length } built by = { a, b }, field by field or copied; structs declared inside a function), std::pair / std::make_pair /
std::tie(a, b) = pair, switch with labels at the top level of its body (fall-through included), range-based for over a view,
and - in the small model of the guards - local arrays of small integers used as byte-membership tables (bool wanted[256] = {};
wanted[(unsigned char)c] = true; ... wanted[(unsigned char)*cur]): an index that is not known to lie inside the array or an
element that was never written ends the evaluation as 'cannot decide'."""
import itertools
import re

from engine import ir, dtable, match, cfg as cfgm
from engine.ir import kids, strip_casts, const_int, ref_of

SV = "tlx::StringView"
M64 = (1 << 64) - 1
NPOS = M64
CSTR_BANNED = ("strcmp", "strncmp", "strchr", "strrchr", "strstr", "strcpy", "strncpy", "strcat", "strspn", "strcspn", "strpbrk", "strcoll")


def sig(fn):
    return "%s(%s)" % (fn.name, ",".join(p["ty"].replace("tlx::StringView", "SV").replace("unsigned long", "size_t") for p in fn.params))


# ---------------------------------------------------------------- small-model evaluation of a StringView member
class Stop(Exception):
    """end of one evaluated path: kind = throw | return | range | opaque | undefined (an access to a local array that is not
    known to be defined: no conclusion at all is drawn from such a path)"""
    def __init__(self, kind, payload=None):
        self.kind, self.payload = kind, payload


class Fork(Exception):
    """a branch depends on bytes of the view: the driver re-runs the path once per outcome"""


class _Break(Exception):
    pass


class _Continue(Exception):
    pass


UNSIGNED64 = ("unsigned long", "unsigned long long")
SIGNED64 = ("long", "long long")
FOREIGN = ("F",)
UNINIT = ("U",)
ITER_BEGIN = {"begin": "fwd", "cbegin": "fwd", "data": "fwd", "rbegin": "rev", "crbegin": "rev"}
ITER_END = {"end": "fwd", "cend": "fwd", "rend": "rev", "crend": "rev"}
ITER_FACTORIES = tuple(ITER_BEGIN) + tuple(ITER_END)
# calls that read a block of the view through one pointer: name -> (index of the pointer arguments that may be the view, index of the length)
BLOCK_READS = {"compare": ((0, 1), 2), "memcmp": ((0, 1), 2), "find": ((0,), 1), "memchr": ((0,), 2), "memcpy": ((1,), 2), "memmove": ((1,), 2),
               "copy": ((1,), 2), "move": ((1,), 2), "copy_n": ((0,), 1)}


# std algorithms that return the FIRST position of [first, last) with some property (last if there is none)
FIRST_MATCH = ("std::search", "std::find_first_of", "std::find_if", "std::find_if_not", "std::find")
# std algorithms that return the LAST position of [first, last) where the pattern occurs (last if there is none, and last for an
# empty pattern): the first match of std::search on the mirrored range
LAST_MATCH = ("std::find_end",)
# std algorithms on [first, last) whose meaning is known
RANGE_ALGOS = FIRST_MATCH + LAST_MATCH + ("std::copy", "std::move", "std::equal", "std::mismatch", "std::lexicographical_compare")


def bare_ty(t):
    t = (t or "").strip()
    while t.startswith("const "):
        t = t[6:]
    t = t.rstrip("&").strip()
    while t.endswith("const"):
        t = t[:-5].strip()
    return t


def is_P(v):
    return isinstance(v, tuple) and v[0] == "P"


def is_C(v):
    return isinstance(v, tuple) and v[0] == "C"


def is_int(v):
    return isinstance(v, int)


def c_free(v):
    """index of the byte of the view that the data value v is a free test of (by choosing that byte alone the test can be
    made true and false): the byte itself, ("C", index), or ("C", None, index) = whether that byte occurs in a non-empty set
    of foreign bytes; None for any other data value"""
    if len(v) == 3:
        return v[2]
    return v[1]


def is_Q(v):
    return isinstance(v, tuple) and v[0] == "Q"


def is_L(v):
    return isinstance(v, tuple) and v[0] == "L"


def is_F(v):
    """a pointer / object outside this view: FOREIGN, ("Q", view parameter, offset) = a position in the memory of a
    StringView parameter (its size is part of the small model, its bytes are data), or ("L", call operator, values of the
    by-copy captures) = a closure object"""
    return v == FOREIGN or is_Q(v) or is_L(v)


def is_A(v):
    """("A", type, ((field name, value), ...)) = an object of a plain aggregate (struct Window { const char* first; size_type
    length; }) or a std::pair: a value, copied as a whole"""
    return isinstance(v, tuple) and v[0] == "A"


def is_T(v):
    """("T", number of elements, default, ((index | "D", value), ...)) = a local array of small integers: every element has the
    default value (0 after = {}, UNINIT without an initialiser) except where a store went to; "D" = the store went to an
    element chosen by data (a byte converted to unsigned char)"""
    return isinstance(v, tuple) and v[0] == "T"


def sval(v):
    return v - (1 << 64) if v >> 63 else v


def pair_elems(ty):
    """the two element types of std::pair<A, B>, or None"""
    t = bare_ty(ty)
    if not (t.startswith("std::pair<") and t.endswith(">")):
        return None
    inner, depth, cut = t[len("std::pair<"):-1], 0, []
    for i, ch in enumerate(inner):
        depth += ch in "<(" 
        depth -= ch in ">)"
        if ch == "," and depth == 0:
            cut.append(i)
    if len(cut) != 1:
        return None
    return inner[:cut[0]].strip(), inner[cut[0] + 1:].strip()


def switch_plan(s):
    """a switch whose labels all stand at the top level of its body: (condition, statements of the body in order, {case
    value: index of the statement the label stands before}, index for default | None); None for any other switch (a label
    inside a nested statement, a declaration in the head, a case without a constant value)"""
    c, body = (kids(s) + [None, None])[:2]
    if c is None or body is None or "init" in s or "condvar" in s or len(kids(s)) != 2:
        return None
    flat, labels, default = [], {}, [None]
    for x in (kids(body) if body["k"] == "CompoundStmt" else [body]):
        while x is not None and x["k"] in ("CaseStmt", "DefaultStmt"):
            if x["k"] == "CaseStmt":
                if "val" not in x or int(x["val"]) in labels or len(kids(x)) != 1:
                    return None
                labels[int(x["val"])] = len(flat)
            else:
                if default[0] is not None or len(kids(x)) != 1:
                    return None
                default[0] = len(flat)
            x = kids(x)[0]
        if x is not None:
            flat.append(x)
    if any(y["k"] in ("CaseStmt", "DefaultStmt", "SwitchStmt", "LabelStmt", "GotoStmt") for st in flat for y in ir.walk(st)):
        return None
    return c, flat, labels, default[0]


def tie_targets(lhs):
    """the lvalues a, b of std::tie(a, b) = ..., or None"""
    x = lhs
    while x is not None and x["k"] in ("MaterializeTemporaryExpr", "ExprWithCleanups", "CXXBindTemporaryExpr", "ParenExpr", "ImplicitCastExpr") and kids(x):
        x = kids(x)[0]
    if x is not None and "callee" in x and x["callee"].get("qname") == "std::tie" and all(a is not None and a["k"] != "DefaultArg" for a in kids(x)):
        return kids(x)
    return None


def plain_aggregate(tu, ty):
    """the record (qname, fields (name, ty, mid) in declaration order) of the plain aggregate ty: a struct of this translation
    unit without bases, constructors, assignment operators, destructor and default member initialisers, so that = { a, b }
    initialises the fields one by one and a copy copies them; None for any other type.  ty is the type as an expression
    spells it (a struct declared inside a function is spelled without its scope) or the qualified name that a member
    access gives as the owner."""
    t = bare_ty(ty)
    if t.startswith("struct "):
        t = t[7:]
    if tu is None or not t or t == SV or t.startswith("std::"):
        return None
    if t.startswith("(unnamed struct at ") or t.startswith("(anonymous struct at "):
        rs = [r for r in tu.records if r.get("full") == "" and r.get("fields")]     # the only struct without a name, if there is one only
    else:
        rs = [r for r in tu.records if t in (r.get("qname"), r.get("full"))]
    if len(rs) != 1 or rs[0].get("bases") or not rs[0].get("fields") or not rs[0].get("qname"):
        return None
    short = rs[0]["qname"].rsplit("::", 1)[-1]
    if any(m.get("name") in (short, "~" + short, "operator=") for m in rs[0].get("methods", [])):
        return None
    if any(f.get("has_init") or f.get("mid") is None or not f.get("name") for f in rs[0]["fields"]):
        return None
    if len({f["name"] for f in rs[0]["fields"]}) != len(rs[0]["fields"]):
        return None
    return rs[0]


TABLE_TY = re.compile(r"^(bool|char|unsigned char|signed char|int|unsigned int|unsigned long|long)\s*\[(\d+)\]$")
# conversions to these types keep every value 0..255
WIDE_INT = ("int", "unsigned int", "long", "unsigned long", "long long", "unsigned long long")


class GuardEval:
    """evaluates a StringView member on one point of the small model (size_, integer parameters, sizes of StringView
    parameters).  Values: 64-bit integers (two's complement), ("P", dir, offset) = a position of this view (pointer, iterator or
    reverse iterator), ("V", offset, length) = a StringView into this view, ("C", index|None) = a byte read from memory (data),
    FOREIGN = a pointer / object that does not belong to this view.  Every byte of the view that is read is recorded in
    self.reads as (index, length|None); a call of an algorithm on a range [first, last) of this view ends the path with
    Stop("range").  A branch on data asks the oracle (Fork).  Anything else that is not understood ends the path with
    Stop("opaque"): the caller must not draw a conclusion from it."""
    MAX_ITER = 40
    CASTS = ("ImplicitCastExpr", "CStyleCastExpr", "CXXStaticCastExpr", "CXXFunctionalCastExpr", "CXXConstCastExpr")

    def __init__(self, fn, size, args, views, oracle=(), watch=None):
        self.fn = fn
        self.S = size
        self.env = dict(args)        # did -> value
        self.views = dict(views)     # did -> size of a StringView parameter
        self.oracle, self.oi = list(oracle), 0
        self.reads = []
        self.decisions = []          # per data-dependent branch taken: index of the byte of the view it freely depends on | None
        self.depth = 0
        self.watch = watch           # optional (call node id, offset expr | None, length expr): evaluated when the call is reached
        self.hits = []

    # ------------------------------------------------------------ helpers
    def opaque(self, e):
        raise Stop("opaque", e)

    def index_of(self, p):
        return p[2] if p[1] == "fwd" else (self.S - 1 - p[2]) & M64

    def read(self, p, length=1, node=None, prim=None):
        # self.oi: data-dependent branches taken before this read; free: each of them was a test of one byte of the view that no
        # other one looked at and that a content of the view can make go either way - so some content takes this path
        free = all(t is not None for t in self.decisions) and len(set(self.decisions)) == len(self.decisions)
        self.reads.append((self.index_of(p), length, p[1], prim, self.oi, free))
        return ("C", self.index_of(p)) if length == 1 else ("C", None)

    def truth(self, e):
        v = self.ev(e)
        if is_int(v):
            return v != 0
        if is_C(v):
            if self.oi < len(self.oracle):
                self.oi += 1
                self.decisions.append(c_free(v))
                return self.oracle[self.oi - 1]
            raise Fork()
        self.opaque(e)

    def convert(self, v, ty, e):
        """integer conversion to the type ty"""
        if not is_int(v):
            return v
        t = bare_ty(ty)
        if t in UNSIGNED64 or t in SIGNED64:
            return v & M64
        if t == "unsigned int":
            return v & 0xFFFFFFFF
        if t == "int":
            v &= 0xFFFFFFFF
            return (v | (M64 ^ 0xFFFFFFFF)) if v >> 31 else v
        if t == "bool":
            return int(v != 0)
        if t in ("unsigned char", "unsigned short"):
            return v & (0xFF if t == "unsigned char" else 0xFFFF)
        if t in ("char", "signed char", "short"):
            bits = 16 if t == "short" else 8
            v &= (1 << bits) - 1
            return (v | (M64 ^ ((1 << bits) - 1))) if v >> (bits - 1) else v
        self.opaque(e)

    def mentions_view(self, e):
        for y in ir.walk(e):
            if y["k"] == "This":
                return True
            if y["k"] == "DeclRefExpr" and isinstance(self.env.get(y["ref"]["id"]), tuple) and self.env[y["ref"]["id"]][0] in ("P", "V", "C", "A", "T"):
                return True
        return False

    def arg(self, a):
        """value of a call argument; an expression that does not involve this view at all is FOREIGN"""
        try:
            return self.ev(a)
        except Stop as st:
            if st.kind != "opaque" or a is None or self.mentions_view(a):
                raise
            return FOREIGN

    def lvalue_did(self, e):
        e = strip_casts(e)
        while e is not None and e["k"] == "ParenExpr":
            e = strip_casts(kids(e)[0])
        if e is not None and e["k"] == "DeclRefExpr" and e["ref"].get("kind") in ("local", "param"):
            return e["ref"]["id"]
        return None

    def aggregate(self, ty):
        """field ids of the plain aggregate ty in declaration order (a struct of this translation unit without bases,
        constructors, assignment operators, destructor and default member initialisers); None for any other type"""
        r = plain_aggregate(getattr(self.fn, "tu", None), ty)
        return None if r is None else (r["qname"], [f["name"] for f in r["fields"]])

    def make_pair(self, ty, vals, e):
        """std::pair<A, B>(x, y) / std::make_pair(x, y) / a copy of a pair of the same type, from the values of the arguments"""
        el = pair_elems(ty)
        if el is None:
            self.opaque(e)
        if len(vals) == 2:
            out = []
            for v, t in zip(vals, el):
                if is_int(v):
                    v = self.convert(v, t, e)       # an element type that is not an integer type of the model: not understood
                elif not (is_P(v) or is_F(v)) or is_L(v) or not bare_ty(t).endswith("*"):
                    self.opaque(e)
                out.append(v)
            return ("A", bare_ty(ty), (("first", out[0]), ("second", out[1])))
        if len(vals) == 1 and is_A(vals[0]) and vals[0][1] == bare_ty(ty):
            return vals[0]
        self.opaque(e)

    def lv_slot(self, x, e):
        """the place an lvalue names: (declaration id of a local variable / parameter, None) or (declaration id of a local
        aggregate, field name)"""
        d = self.lvalue_did(x)
        if d is not None:
            if d not in self.env or d in self.views or is_T(self.env[d]):
                self.opaque(e)
            return d, None
        x0 = strip_casts(x)
        while x0 is not None and x0["k"] == "ParenExpr":
            x0 = strip_casts(kids(x0)[0])
        if x0 is not None and x0["k"] == "MemberExpr" and not x0.get("arrow") and kids(x0):
            od = self.lvalue_did(kids(x0)[0])
            obj = self.env.get(od) if od is not None else None
            if is_A(obj) and self.owner_is(x0, obj) and any(m == x0.get("member") for m, _ in obj[2]):
                return od, x0["member"]
        self.opaque(e)

    @staticmethod
    def owner_is(m, obj):
        return obj[1] == m.get("owner") or (m.get("owner") == "std::pair" and obj[1].startswith("std::pair<"))

    def lv_get(self, slot, e):
        v = self.env[slot[0]]
        if slot[1] is not None:
            v = dict(v[2])[slot[1]]
        if v == UNINIT:
            self.opaque(e)
        return v

    def lv_set(self, slot, v, e):
        if is_T(v):
            self.opaque(e)
        if slot[1] is None:
            self.env[slot[0]] = v
            return
        obj = self.env[slot[0]]
        if is_A(v):
            self.opaque(e)
        self.env[slot[0]] = ("A", obj[1], tuple((m, v if m == slot[1] else w) for m, w in obj[2]))

    def init_list(self, e):
        """= { a, b } of a plain aggregate (one initialiser per field, in the order of the fields) / = { } or = { v0, v1 } of a
        local array of small integers (the elements that are not named are zero)"""
        agg = self.aggregate(e.get("ty"))
        if agg is not None and len(kids(e)) == len(agg[1]):
            vals = []
            for x in kids(e):
                if x is None:
                    self.opaque(e)
                if x["k"] == "ImplicitValueInitExpr":
                    t = bare_ty(x.get("ty"))
                    v = 0 if t in UNSIGNED64 + SIGNED64 + ("int", "unsigned int", "bool") else FOREIGN if t.endswith("*") else None
                    if v is None:
                        self.opaque(e)
                else:
                    v = self.arg(x)
                if is_T(v):
                    self.opaque(e)
                vals.append(v)
            return ("A", agg[0], tuple(zip(agg[1], vals)))
        m = TABLE_TY.match(bare_ty(e.get("ty")))
        if m and len(kids(e)) <= int(m.group(2)):
            vals = [self.ev(x) for x in kids(e)]
            if all(is_int(v) for v in vals):
                return ("T", int(m.group(2)), 0, tuple(enumerate(vals)))
        self.opaque(e)

    def cast_value(self, e, v):
        """the value v of the operand of the cast e after the cast"""
        if e.get("cast") in ("IntegralCast", "IntegralToBoolean") or (is_int(v) and e["k"] != "ImplicitCastExpr"):
            return self.convert(v, e.get("ty"), e)
        if e.get("cast") == "PointerToBoolean":
            self.opaque(e)
        if is_C(v):
            return ("C", None) if e.get("cast") in ("IntegralCast", "IntegralToBoolean") or e["k"] != "ImplicitCastExpr" else v
        return v

    def table_index(self, x):
        """an index into a local table: (value, largest value that the type of the index admits | None, index of the byte of
        this view that the index is the unsigned char image of | None)"""
        chain = []
        n = x
        while n is not None and n["k"] in self.CASTS + ("ParenExpr",) and kids(n):
            chain.append(n)
            n = kids(n)[0]
        v = self.ev(n)
        byte = v[1] if is_C(v) and len(v) == 2 and bare_ty(n.get("ty")) in ("char", "unsigned char", "signed char") else None
        lim = None
        for c in reversed(chain):
            if c["k"] == "ParenExpr":
                continue
            t = bare_ty(c.get("ty"))
            v = self.cast_value(c, v)
            if t == "unsigned char":
                lim = 255                       # char -> unsigned char maps the 256 bytes one to one onto 0..255
            elif t == "bool":
                lim, byte = 1, None
            elif t not in WIDE_INT or lim is None:
                lim, byte = None, None          # a conversion that may change the value, or a plain char (negative index)
        if lim is None:
            byte = None
        return v, lim, byte

    def table_of(self, base):
        """declaration id of the local table that the expression base names, or None"""
        b = strip_casts(base)
        while b is not None and b["k"] == "ParenExpr":
            b = strip_casts(kids(b)[0])
        if b is not None and b["k"] == "DeclRefExpr" and is_T(self.env.get(b["ref"]["id"])):
            return b["ref"]["id"]
        return None

    def table_slot(self, tab, x, e):
        """the element of the table tab that the index expression x selects: an int, or "D" (chosen by data, inside the table)"""
        i, lim, byte = self.table_index(x)
        if is_int(i):
            if i >= tab[1]:
                raise Stop("undefined", e)      # outside the array
            return i, None
        if is_C(i) and lim is not None and lim < tab[1]:
            return "D", byte
        if is_C(i):
            raise Stop("undefined", e)          # an element chosen by data that is not known to lie inside the array (a plain char may be negative)
        self.opaque(e)

    def table_read(self, tab, x, e):
        slot, byte = self.table_slot(tab, x, e)
        _, n, dflt, stores = tab
        vals = [v for _, v in stores] + [dflt]
        if slot != "D" and all(i != "D" for i, _ in stores):
            v = dflt
            for i, w in stores:
                if i == slot:
                    v = w
            if v == UNINIT:
                raise Stop("undefined", e)      # an element that was never written
            return v
        if any(v == UNINIT for v in vals):
            raise Stop("undefined", e)
        if slot == "D" and not stores:
            return dflt                         # every element has this value
        if slot == "D" and byte is not None and dflt == 0 and 1 <= len(stores) <= 8 and all(w == 1 for _, w in stores):
            # a membership table: between one and eight of its (at least 256) elements are set, chosen by other data
            # than this byte - whether this byte of the view is among them can be made true and false by the byte alone
            return ("C", None, byte)
        return ("C", None)

    def assign(self, lhs, v, e):
        d = self.lvalue_did(lhs)
        if d is not None:
            if d in self.views or is_T(v) or is_T(self.env.get(d)):
                self.opaque(e)
            self.env[d] = v
            return v
        l0 = strip_casts(lhs)
        while l0 is not None and l0["k"] == "ParenExpr":
            l0 = strip_casts(kids(l0)[0])
        # std::tie(a, b) = a pair: a = first, b = second
        tt = tie_targets(lhs)
        if tt is not None:
            if not (is_A(v) and pair_elems(v[1]) is not None and len(tt) == 2):
                self.opaque(e)
            for t, (_, w) in zip(tt, v[2]):
                if w == UNINIT or is_A(w):
                    self.opaque(e)
                self.lv_set(self.lv_slot(t, e), self.convert(w, t.get("ty"), e), e)
            return v
        # a store to a field of a local aggregate
        if l0 is not None and l0["k"] == "MemberExpr" and not l0.get("arrow") and kids(l0) and is_A(self.env.get(self.lvalue_did(kids(l0)[0]))):
            self.lv_set(self.lv_slot(l0, e), v, e)
            return v
        # a store to an element of a local table
        tp = match.index_parts(l0) if l0 is not None and l0["k"] == "ArraySubscriptExpr" else None
        td = self.table_of(tp[0]) if tp else None
        if td is not None:
            if not (is_int(v) or (is_C(v) and len(v) == 2)):
                self.opaque(e)
            tab = self.env[td]
            slot, _ = self.table_slot(tab, tp[1], e)
            if len(tab[3]) >= 64:
                self.opaque(e)
            self.env[td] = ("T", tab[1], tab[2], tab[3] + ((slot, v if is_int(v) else ("C", None)),))
            return v
        # a store through a pointer that does not belong to this view (the output buffer of copy)
        l0 = strip_casts(lhs)
        tgt = match.index_parts(l0) or ((match.deref_of(l0), None) if match.deref_of(l0) is not None else None)
        if tgt:
            base = self.arg(tgt[0])
            if tgt[1] is not None:
                self.arg(tgt[1])
            if is_F(base) or base == ("C", None):
                return v
        self.opaque(e)

    def arith(self, op, x, y, e, signed=False):
        if is_P(x) and is_int(y) and op in ("+", "-"):
            return ("P", x[1], (x[2] + y if op == "+" else x[2] - y) & M64)
        if is_int(x) and is_P(y) and op == "+":
            return ("P", y[1], (y[2] + x) & M64)
        if is_Q(x) and is_int(y) and op in ("+", "-"):
            return ("Q", x[1], (x[2] + y if op == "+" else x[2] - y) & M64)
        if is_int(x) and is_Q(y) and op == "+":
            return ("Q", y[1], (y[2] + x) & M64)
        if is_Q(x) and is_Q(y) and x[1] == y[1]:
            if op == "-":
                return (x[2] - y[2]) & M64
            if op in ("<", ">", "<=", ">=", "==", "!="):
                x, y, signed = x[2], y[2], False
        if op in ("==", "!=") and ((is_P(x) and is_Q(y)) or (is_Q(x) and is_P(y)) or (is_Q(x) and is_Q(y) and x[1] != y[1])):
            # a position of this view against a position in the memory of a view parameter: in the model of the guards each view
            # has memory of its own, the two pointers are not equal (operands that share storage: FIND-VALUE evaluates those)
            return int(op == "!=")
        if is_P(x) and is_P(y):
            if x[1] != y[1]:
                self.opaque(e)
            if op == "-":
                return (x[2] - y[2]) & M64
            x, y, signed = x[2], y[2], False
            if op not in ("<", ">", "<=", ">=", "==", "!="):
                self.opaque(e)
        if is_C(x) or is_C(y):
            # data combined / compared with a number, a position or a foreign pointer (hit != nullptr, iter == cend(), hit - ptr_)
            if all(is_C(v) or is_int(v) or is_P(v) or is_F(v) for v in (x, y)):
                for a_, b_ in ((x, y), (y, x)):
                    if is_C(a_) and len(a_) == 3 and op in ("==", "!=") and (b_ == FOREIGN or b_ == 0):
                        return a_                       # found / not found of a membership test: still a free test of that byte
                return ("C", None)
            self.opaque(e)
        if not (is_int(x) and is_int(y)):
            self.opaque(e)
        if op == "+":
            return (x + y) & M64
        if op == "-":
            return (x - y) & M64
        if op == "*":
            return (x * y) & M64
        if op in ("/", "%") and y != 0 and not (signed and ((x >> 63) or (y >> 63))):
            return x // y if op == "/" else x % y
        if op in ("<", ">", "<=", ">=", "==", "!="):
            if signed:
                x, y = sval(x), sval(y)
            return int({"<": x < y, ">": x > y, "<=": x <= y, ">=": x >= y, "==": x == y, "!=": x != y}[op])
        self.opaque(e)

    def operand_signed(self, a, b, e):
        ta, tb = bare_ty(a.get("ty")), bare_ty(b.get("ty"))
        sa, sb = ta in SIGNED64 + ("int",), tb in SIGNED64 + ("int",)
        ua, ub = ta in UNSIGNED64 + ("unsigned int", "bool"), tb in UNSIGNED64 + ("unsigned int", "bool")
        if sa and sb:
            return True
        if ua and ub:
            return False
        return None

    # ------------------------------------------------------------ expressions
    def ev(self, e):
        if e is None:
            self.opaque(e)
        k = e["k"]
        if k in ("ParenExpr", "ExprWithCleanups", "MaterializeTemporaryExpr", "CXXBindTemporaryExpr", "ConstantExpr"):
            return self.ev(kids(e)[0])
        if k in ("IntegerLiteral", "CXXBoolLiteralExpr"):
            return self.convert(int(e["val"]) & M64, e.get("ty"), e)
        if "cval" in e and bare_ty(e.get("ty")) in UNSIGNED64 + SIGNED64 + ("int", "unsigned int", "bool"):
            return self.convert(int(e["cval"]) & M64, e.get("ty"), e)
        if k in self.CASTS and kids(e):
            return self.cast_value(e, self.ev(kids(e)[0]))
        if k in ("NullPtr", "CXXNullPtrLiteralExpr", "GNUNullExpr"):
            return FOREIGN
        if k == "InitListExpr":
            return self.init_list(e)
        if k == "LambdaExpr":
            # a closure: a predicate handed to an algorithm sees the bytes the algorithm shows it, nothing else; called in
            # this function its body is evaluated (call_closure).  Variables captured by reference are the variables of the
            # environment; of those captured by copy the value at this point is kept.
            if e.get("fn") is None:
                return FOREIGN
            snap = tuple(sorted((c["id"], self.env[c["id"]]) for c in e.get("captures", [])
                                if c.get("id") is not None and not c.get("byref") and c["id"] in self.env))
            return ("L", e["fn"], snap)
        if k == "DeclRefExpr":
            did = e["ref"]["id"]
            if did in self.env:
                v = self.env[did]
                if v == UNINIT:
                    self.opaque(e)
                return v
            if did in self.views:
                self.opaque(e)
            if e["ref"].get("qname") == SV + "::npos":
                return NPOS
            self.opaque(e)
        if k == "MemberExpr":
            f = match.field_of(e)
            if e.get("member") == "npos" and e.get("owner") == SV:
                return NPOS
            if f and e.get("owner") == SV:
                base = strip_casts(f[0])
                if base["k"] == "This":
                    if f[1] == "size_":
                        return self.S
                    if f[1] == "ptr_":
                        return ("P", "fwd", 0)
                if ref_of(base) in self.views:
                    if f[1] == "size_":
                        return self.views[ref_of(base)]
                    if f[1] == "ptr_":
                        return ("Q", ref_of(base), 0)
            if f and not e.get("arrow") and e.get("owner") != SV and (self.aggregate(e.get("owner")) is not None or e.get("owner") == "std::pair"):
                obj = self.ev(f[0])
                if is_A(obj) and self.owner_is(e, obj):
                    for m, v in obj[2]:
                        if m == e.get("member"):
                            if v == UNINIT:
                                self.opaque(e)
                            return v
            self.opaque(e)
        if k in ("CXXConstructExpr", "CXXTemporaryObjectExpr"):
            return self.construct(e)
        if k == "CXXOperatorCallExpr" and e["callee"]["name"] == "operator()":
            return self.call_closure(e)
        if k == "UnaryOperator" or (k == "CXXOperatorCallExpr" and len(kids(e)) == 1) or \
                (k == "CXXOperatorCallExpr" and e.get("op") in ("++", "--")):
            return self.unary(e)
        if k == "ConditionalOperator":
            c0, a, b2 = kids(e)
            return self.ev(a) if self.truth(c0) else self.ev(b2)
        ip = match.index_parts(e) if k in ("ArraySubscriptExpr", "CXXOperatorCallExpr") else None
        if ip and k == "ArraySubscriptExpr" and self.table_of(ip[0]) is not None:
            return self.table_read(self.env[self.table_of(ip[0])], ip[1], e)
        if ip:
            base, idx = self.ev(ip[0]), self.ev(ip[1])
            if is_P(base) and is_int(idx):
                return self.read(("P", base[1], (base[2] + idx) & M64), 1, e)
            if is_F(base) and (is_int(idx) or is_C(idx)):
                return ("C", None)
            self.opaque(e)
        if k in ("BinaryOperator", "CompoundAssignOperator") or (k == "CXXOperatorCallExpr" and len(kids(e)) == 2):
            return self.binary(e)
        if "callee" in e:
            return self.call(e)
        self.opaque(e)

    def construct(self, e):
        a = [x for x in kids(e) if x is not None and x["k"] != "DefaultArg"]
        ty = bare_ty(e.get("ty"))
        if ty == SV:
            vals = [self.arg(x) for x in a]
            if len(vals) == 1 and isinstance(vals[0], tuple) and vals[0][0] == "V":
                return vals[0]
            if len(vals) == 2 and is_P(vals[0]) and vals[0][1] == "fwd" and is_int(vals[1]):
                return ("V", vals[0][2], vals[1])
            if len(vals) == 2 and is_P(vals[0]) and is_P(vals[1]) and vals[0][1] == "fwd" and vals[1][1] == "fwd":
                return ("V", vals[0][2], (vals[1][2] - vals[0][2]) & M64)
            if vals and is_F(vals[0]) and all(is_F(v) or is_int(v) for v in vals):
                return FOREIGN
            self.opaque(e)
        if pair_elems(ty) is not None:
            return self.make_pair(ty, [self.arg(x) for x in a], e)
        agg = self.aggregate(ty)
        if agg is not None:
            if not a:
                return ("A", agg[0], tuple((m, UNINIT) for m in agg[1]))      # Window w; - the fields have no value yet
            v = self.ev(a[0]) if len(a) == 1 else None
            if is_A(v) and v[1] == agg[0]:
                return v                                                # the implicit copy / move constructor
            self.opaque(e)
        if len(a) == 1:
            v = self.ev(a[0])
            if is_A(v) or is_T(v):
                self.opaque(e)
            if "reverse_iterator" in ty and is_P(v):
                if v[1] == "rev":
                    return v
                return ("P", "rev", (self.S - v[2]) & M64)       # reverse_iterator(it): *rit == *(it - 1)
            if is_P(v) and (ty.endswith("*") or "iterator" in ty):
                return v
            if is_int(v):
                return self.convert(v, ty, e)
            if is_F(v):
                return v
        self.opaque(e)

    def unary(self, e):
        op = e.get("op")
        x = kids(e)[0]
        if op in ("++", "--"):
            slot = self.lv_slot(x, e)
            old = self.lv_get(slot, e)
            new = self.arith("+" if op == "++" else "-", old, 1, e)
            self.lv_set(slot, new, e)
            post = bool(e.get("postfix")) if e["k"] == "UnaryOperator" else len(kids(e)) == 2
            return old if post else new
        if e["k"] == "CXXOperatorCallExpr" and op not in ("*", "!", "-"):
            self.opaque(e)
        if op == "!":
            return int(not self.truth(x))
        if op == "*":
            v = self.ev(x)
            if is_P(v):
                return self.read(v, 1, e)
            if is_F(v):
                return ("C", None)
            self.opaque(e)
        if op == "&":
            x0 = strip_casts(x)
            inner = match.index_parts(x0)
            if inner:
                base, idx = self.ev(inner[0]), self.ev(inner[1])
                if is_P(base) and is_int(idx):
                    return ("P", base[1], (base[2] + idx) & M64)
            elif match.deref_of(x0) is not None:
                v = self.ev(match.deref_of(x0))
                if is_P(v) or is_F(v):
                    return v
            elif x0["k"] == "DeclRefExpr" and not self.mentions_view(x0) and x0["ref"]["id"] not in self.views:
                return FOREIGN
            self.opaque(e)
        if op in ("-", "+") and e["k"] == "UnaryOperator":
            v = self.ev(x)
            if is_int(v):
                return self.convert((-v if op == "-" else v) & M64, e.get("ty"), e)
        self.opaque(e)

    def binary(self, e):
        op = e.get("op")
        l, r = kids(e)[0], kids(e)[1]
        if op == ",":
            self.ev(l)
            return self.ev(r)
        if op == "&&":
            return int(self.truth(l) and self.truth(r))
        if op == "||":
            return int(self.truth(l) or self.truth(r))
        if op == "=":
            return self.assign(l, self.ev(r), e)
        if op in ("+=", "-="):
            slot = self.lv_slot(l, e)
            v = self.arith(op[0], self.lv_get(slot, e), self.ev(r), e)
            if is_int(v):
                v = self.convert(v, l.get("ty"), e)
            self.lv_set(slot, v, e)
            return v
        if op in ("+", "-", "*", "/", "%", "<", ">", "<=", ">=", "==", "!="):
            x, y = self.ev(l), self.ev(r)
            signed = False
            if is_int(x) and is_int(y):
                signed = self.operand_signed(l, r, e) if op not in ("+", "-", "*", "/", "%") else bare_ty(e.get("ty")) in SIGNED64 + ("int",)
                if signed is None:
                    if (x >> 63) or (y >> 63):
                        self.opaque(e)
                    signed = False
            v = self.arith(op, x, y, e, signed)
            if is_int(v) and op in ("+", "-", "*", "/", "%") and e["k"] != "CXXOperatorCallExpr":
                v = self.convert(v, e.get("ty"), e)
            return v
        self.opaque(e)

    def call(self, e):
        name = e["callee"]["name"]
        qn = e["callee"].get("qname") or ""
        args = [a for a in kids(e) if a is not None and a["k"] != "DefaultArg"]
        if len(args) != len([a for a in kids(e) if a is not None]):
            self.opaque(e)
        if e.get("member_call"):
            obj = strip_casts(args[0])
            rest = args[1:]
            if e["callee"].get("record") == SV and obj["k"] == "This":
                if name in ("size", "length") and not rest:
                    return self.S
                if name == "empty" and not rest:
                    return int(self.S == 0)
                if name in ITER_BEGIN and not rest:
                    return ("P", ITER_BEGIN[name], 0)
                if name in ITER_END and not rest:
                    return ("P", ITER_END[name], self.S)
                if name == "front" and not rest:
                    return self.read(("P", "fwd", 0), 1, e)
                if name == "back" and not rest:
                    return self.read(("P", "fwd", (self.S - 1) & M64), 1, e)
                if name == "operator[]" and len(rest) == 1:
                    i = self.ev(rest[0])
                    if is_int(i):
                        return self.read(("P", "fwd", i), 1, e)
                # another member of the class: understood only as an algorithm on a range [first, last) of this view
                # or as a function of positions found before (index_of(hit), reverse_distance(crbegin(), hit))
                vals = [self.arg(a) for a in rest]
                if any(is_C(v) for v in vals) and all(is_C(v) or is_P(v) or is_int(v) for v in vals):
                    return ("C", None)
                r = self.inline(e, vals, rest)
                if r is not NotImplemented:
                    return r
                return self.algorithm(e, name, qn, vals, rest)
            if e["callee"].get("record") == SV and ref_of(obj) in self.views:
                sz = self.views[ref_of(obj)]
                if name in ("size", "length") and not rest:
                    return sz
                if name == "empty" and not rest:
                    return int(sz == 0)
                if name in ITER_BEGIN and ITER_BEGIN[name] == "fwd" and not rest:
                    return ("Q", ref_of(obj), 0)
                if name in ITER_END and ITER_END[name] == "fwd" and not rest:
                    return ("Q", ref_of(obj), sz)
                if name in ITER_FACTORIES and not rest:
                    return FOREIGN
            self.opaque(e)
        vals = [self.arg(a) for a in args]
        if name in ("min", "max") and qn in ("std::min", "std::max") and len(vals) == 2:
            x, y = vals
            if is_int(x) and is_int(y):
                t = bare_ty((e["callee"].get("targs") or [""])[0])
                if t in UNSIGNED64 + ("unsigned int",):
                    return min(x, y) if name == "min" else max(x, y)
                if t in SIGNED64 + ("int",):
                    return (min if name == "min" else max)(x, y, key=sval)
            self.opaque(e)
        if qn == "std::make_pair" and len(vals) == 2:
            return self.make_pair(e.get("ty"), vals, e)
        if qn == "std::distance" and len(vals) == 2:
            if is_P(vals[0]) and is_P(vals[1]) and vals[0][1] == vals[1][1]:
                return (vals[1][2] - vals[0][2]) & M64
            if (is_P(vals[0]) or is_C(vals[0])) and (is_P(vals[1]) or is_C(vals[1])):
                return ("C", None)
            self.opaque(e)
        if qn in ("std::next", "std::prev") and vals and is_P(vals[0]) and all(is_int(v) for v in vals[1:]) and len(vals) <= 2:
            n = vals[1] if len(vals) == 2 else 1
            return ("P", vals[0][1], (vals[0][2] + (n if qn == "std::next" else -n)) & M64)
        return self.algorithm(e, name, qn, vals, args)

    def inline(self, e, vals, args):
        """evaluates the body of another member called on *this (a private helper): parameters are bound to the argument
        values, a throw inside it ends the path as a throw of the caller"""
        tu = getattr(self.fn, "tu", None)
        cal = tu.by_did.get(e["callee"].get("did")) if tu is not None else None
        if cal is None or cal.body is None or cal.did == self.fn.did or self.depth >= 3 or len(cal.params) != len(vals):
            return NotImplemented
        return self.bind_and_run(cal, e, vals, args)

    def bind_and_run(self, cal, e, vals, args):
        for prm, v, a in zip(cal.params, vals, args):
            t = bare_ty(prm["ty"])
            if t == SV:
                d = ref_of(match.strip_conv(a))
                if d not in self.views:
                    return NotImplemented
                self.views[prm["did"]] = self.views[d]
            elif (prm["ty"] or "").rstrip().endswith("&") and "const" not in prm["ty"]:
                return NotImplemented                       # an out-parameter
            elif is_T(v):
                return NotImplemented                       # a pointer to a local table: stores through it are not followed
            else:
                self.env[prm["did"]] = v
        self.depth += 1
        try:
            self.run(cal.body)
        except Stop as st:
            if st.kind == "return":
                return st.payload[0] if st.payload[0] is not None else 0
            raise
        finally:
            self.depth -= 1
        if bare_ty(cal.d.get("ret") or e["callee"].get("ret")) == "void":
            return 0
        self.opaque(e)

    def call_closure(self, e):
        """a call of a closure object created on this path: the body of its call operator is evaluated like a private
        helper.  A variable captured by reference is the variable itself (same declaration id); a variable captured by copy
        has, during the call, the value it had when the closure was created - a closure that changes its own copy is not
        followed.  Anything else that is called with operator() (a functor, a std::function, a closure that comes from
        elsewhere) is not understood."""
        a = [x for x in kids(e) if x is not None]
        if not a or any(x["k"] == "DefaultArg" for x in a):
            self.opaque(e)
        clo = self.ev(a[0])
        tu = getattr(self.fn, "tu", None)
        if not is_L(clo) or tu is None or clo[1] != e["callee"].get("did"):
            self.opaque(e)
        cal = tu.by_did.get(clo[1])
        rest = a[1:]
        if cal is None or cal.body is None or cal.kind != "lambda" or self.depth >= 3 or len(cal.params) != len(rest):
            self.opaque(e)
        vals = [self.arg(x) for x in rest]
        outer = {d: self.env.get(d, UNINIT) for d, _ in clo[2]}
        for d, v in clo[2]:
            self.env[d] = v
        r = self.bind_and_run(cal, e, vals, rest)
        for d, v in clo[2]:
            if self.env.get(d) != v:
                self.opaque(e)                              # a mutable closure changed its copy
            self.env[d] = outer[d]
        if r is NotImplemented:
            self.opaque(e)
        return r

    def algorithm(self, e, name, qn, vals, args):
        if self.watch is not None and self.depth == 0 and e["id"] == self.watch[0]:     # node ids are per function
            off = self.ev(self.watch[1]) if self.watch[1] is not None else 0
            n = self.ev(self.watch[2])
            if not (is_int(off) and is_int(n)):
                self.opaque(e)
            self.hits.append((off, n))
        if any(isinstance(v, tuple) and v[0] == "V" for v in vals):
            self.opaque(e)
        ps = [i for i, v in enumerate(vals) if is_P(v)]
        if len(ps) >= 2 and ps[:2] == [0, 1] and vals[0][1] == vals[1][1] and len(ps) == 2:
            if qn not in RANGE_ALGOS:
                self.opaque(e)          # what an unknown function does with [first, last) is not known (std::find_end looks for the LAST match)
            raise Stop("range", (vals[0][1], vals[0][2], vals[1][2], qn, e))
        if len(ps) == 1 and (("std::char_traits" in qn or name.startswith("mem") or qn in ("std::copy_n", "std::equal", "std::mismatch"))):
            # a primitive that reads a block of bytes through one pointer into this view
            length = None
            if name in BLOCK_READS:
                where, li = BLOCK_READS[name]
                if ps[0] not in where:
                    self.opaque(e)
                if li < len(vals) and is_int(vals[li]):
                    length = vals[li]
            self.read(vals[ps[0]], length, e, name if length is not None else None)
            return ("C", None)
        if not ps and any(is_C(v) for v in vals) and all(is_C(v) or is_int(v) or is_F(v) for v in vals):
            if qn == "std::char_traits::find" and len(vals) == 3 and is_F(vals[0]) and not is_L(vals[0]) and is_int(vals[1]) and 1 <= vals[1] <= 8 \
                    and is_C(vals[2]) and len(vals[2]) == 2 and vals[2][1] is not None:
                return ("C", None, vals[2][1])      # does this byte of the view occur in a non-empty set of foreign bytes
            return ("C", None)          # a function of bytes that were read (char_traits::eq / find(set, n, byte) / tolower ...)
        self.opaque(e)

    # ------------------------------------------------------------ statements
    def run(self, s):
        if s is None:
            return
        k = s["k"]
        if k == "CompoundStmt":
            for c in kids(s):
                self.run(c)
            return
        if k == "NullStmt":
            return
        if k == "IfStmt":
            if "init" in s or "condvar" in s:
                self.opaque(s)
            c, t, e = (kids(s) + [None])[:3]
            if self.truth(c):
                self.run(t)
            elif e is not None:
                self.run(e)
            return
        if k == "ReturnStmt":
            raise Stop("return", (self.ev(kids(s)[0]) if kids(s) and kids(s)[0] is not None else None, s))
        if k == "CXXThrowExpr":
            raise Stop("throw", s)
        if k == "DeclStmt":
            for v in kids(s):
                if v["k"] != "VarDecl":
                    self.opaque(s)
                if (v.get("ty") or "").rstrip().endswith("&"):
                    self.opaque(s)              # a reference alias: not followed here
                tm = TABLE_TY.match(bare_ty(v.get("ty")))
                if tm and not v.get("static"):
                    # a local array of small integers: = { ... } or no initialiser
                    init = kids(v)[0] if kids(v) else None
                    val = ("T", int(tm.group(2)), UNINIT, ()) if init is None else self.ev(init) if init["k"] == "InitListExpr" else None
                    if not is_T(val) or val[1] != int(tm.group(2)):
                        self.opaque(s)
                    self.env[v["did"]] = val
                    continue
                val = self.ev(kids(v)[0]) if kids(v) and kids(v)[0] is not None else UNINIT
                if is_T(val):
                    self.opaque(s)              # a pointer to a local table: stores through it are not followed
                self.env[v["did"]] = val
            return
        if k in ("ForStmt", "WhileStmt", "DoStmt"):
            if "condvar" in s:
                self.opaque(s)
            init, cond, inc, body = match.loop_parts(s)
            if init is not None:
                self.run(init)
            first = k == "DoStmt"
            for _ in range(self.MAX_ITER):
                if not first and cond is not None and not self.truth(cond):
                    return
                first = False
                try:
                    self.run(body)
                except _Break:
                    return
                except _Continue:
                    pass
                if inc is not None:
                    self.ev(inc)
            self.opaque(s)
        if k == "BreakStmt":
            raise _Break()
        if k == "ContinueStmt":
            raise _Continue()
        if k in ("CXXStaticCastExpr", "CStyleCastExpr", "CXXFunctionalCastExpr") and bare_ty(s.get("ty")) == "void":
            return
        if k == "CXXForRangeStmt":
            return self.range_for(s)
        if k == "SwitchStmt":
            plan = switch_plan(s)
            if plan is None:
                self.opaque(s)
            v = self.ev(plan[0])
            if not is_int(v):
                self.opaque(s)
            start = next((i for c, i in plan[2].items() if c & M64 == v), plan[3])
            if start is None:
                return
            try:
                for st in plan[1][start:]:          # from the label on, falling through the labels that follow
                    self.run(st)
            except _Break:
                pass
            return
        if k in ("GotoStmt", "LabelStmt", "CXXTryStmt", "AttributedStmt", "CaseStmt", "DefaultStmt"):
            self.opaque(s)
        self.ev(s)

    def range_for(self, s):
        """for (char c : s) over a StringView parameter (its bytes are data, its size is part of the small model) or over
        *this (byte 0, 1, ... size_ - 1 of this view are read); the loop variable is a char or a const char&"""
        rng, var, body = (kids(s) + [None, None, None])[:3]
        if rng is None or var is None or var["k"] != "VarDecl" or len(kids(s)) != 3 or bare_ty(var.get("ty")) != "char":
            self.opaque(s)
        vt = (var.get("ty") or "").strip()
        if (vt.endswith("&") or var.get("isref")) and not vt.startswith("const "):
            self.opaque(s)
        r0 = strip_casts(rng)
        while r0 is not None and r0["k"] == "ParenExpr":
            r0 = strip_casts(kids(r0)[0])
        if r0 is not None and r0["k"] == "DeclRefExpr" and r0["ref"]["id"] in self.views and bare_ty(r0.get("ty")) == SV:
            n, own = self.views[r0["ref"]["id"]], False
        elif r0 is not None and match.deref_of(r0) is not None and strip_casts(match.deref_of(r0))["k"] == "This":
            n, own = self.S, True
        else:
            self.opaque(s)
        if n > self.MAX_ITER:
            self.opaque(s)
        for i in range(n):
            self.env[var["did"]] = self.read(("P", "fwd", i), 1, s) if own else ("C", None)
            try:
                self.run(body)
            except _Break:
                return
            except _Continue:
                pass


def explore(fn, S, args, views, watch=None, max_forks=6):
    """all paths of fn on one point of the small model: list of (kind, payload, reads, hits); kind = return | throw | range |
    fallthrough | opaque | cut (fork limit)"""
    out = []
    stack = [()]
    while stack:
        orc = stack.pop()
        ge = GuardEval(fn, S, args, views, orc, watch)
        try:
            ge.run(fn.body)
            out.append(("fallthrough", None, ge.reads, ge.hits))
        except Stop as st:
            out.append((st.kind, st.payload, ge.reads, ge.hits))
        except (_Break, _Continue):
            out.append(("opaque", None, ge.reads, ge.hits))
        except Fork:
            if len(orc) >= max_forks:
                out.append(("cut", None, ge.reads, ge.hits))
            else:
                stack.append(orc + (True,))
                stack.append(orc + (False,))
    return out


DIRECTION = {"find": "fwd", "rfind": "rev", "find_first_of": "fwd", "find_last_of": "rev", "find_first_not_of": "fwd", "find_last_not_of": "rev"}


def spec(name, S, pos, n, ssz):
    """std::string_view semantics on the small model: ('throw',) | ('ret', v) | ('access', i) | ('sub', off, len) |
    ('copy', off, len) | ('scan', dir, index of the first candidate)"""
    if name == "at":
        return ("throw",) if pos >= S else ("access", pos)
    if name == "substr":
        return ("throw",) if pos > S else ("sub", pos, min(n, S - pos))
    if name == "copy":
        return ("throw",) if pos > S else ("copy", pos, min(n, S - pos))
    if name == "find":
        if pos > S:
            return ("ret", NPOS)
        if ssz == 0:
            return ("ret", pos)
        return ("scan", "fwd", pos)
    if name == "rfind":
        if ssz > S:
            return ("ret", NPOS)
        p = min(pos, S - ssz)
        if ssz == 0:
            return ("ret", p)
        return ("scan", "rev", p)
    if name == "find_first_of":
        if pos >= S or ssz == 0:
            return ("ret", NPOS)
        return ("scan", "fwd", pos)
    if name == "find_last_of":
        if S == 0 or ssz == 0:
            return ("ret", NPOS)
        return ("scan", "rev", min(pos, S - 1))
    if name == "find_first_not_of":
        if pos >= S:
            return ("ret", NPOS)
        if ssz == 0:
            return ("ret", pos)
        return ("scan", "fwd", pos)
    if name == "find_last_not_of":
        if S == 0:
            return ("ret", NPOS)
        p = min(pos, S - 1)
        if ssz == 0:
            return ("ret", p)
        return ("scan", "rev", p)
    return None


def guard_roles(fn, name):
    """parameter roles by position and type, as fixed by the std::string_view interface (names are free)"""
    tys = [bare_ty(p["ty"]) for p in fn.params]
    want = {"at": ["I"], "substr": ["I", "I"], "copy": ["char *", "I", "I"]}.get(name, [SV, "I"])
    if len(tys) != len(want) or any((w == "I" and t not in UNSIGNED64) or (w != "I" and t != w) for t, w in zip(tys, want)):
        raise dtable.Undecidable("%s: parameters of %s are not those of the std::string_view member: %s" % (fn.loc, name, tys))
    d = [p["did"] for p in fn.params]
    if name == "at":
        return {"pos": d[0]}
    if name == "substr":
        return {"pos": d[0], "n": d[1]}
    if name == "copy":
        return {"out": d[0], "n": d[1], "pos": d[2]}
    return {"s": d[0], "pos": d[1]}


def outcome(name, paths):
    """what the member does on one point of the small model, from the evaluated paths: an outcome tuple like spec()'s,
    ('scan', dir|None, index, 'range'|'read', info), or ('opaque', why)"""
    lead = paths[0]
    for p in paths:
        if p[0] == "undefined":
            # whatever was read before: the evaluation ran into an access to a local array that is not known to be defined
            return ("opaque", "element of a local array that may lie outside it or was never written, line %s" % (p[1].get("l", "?") if isinstance(p[1], dict) else "?"))
    if name in DIRECTION and len(paths) == 1 and lead[0] == "return" and is_int(lead[1][0]):
        # one path, no branch on bytes: whatever was read, the answer does not depend on the content of the view
        return ("ret", lead[1][0])
    if not any(p[2] for p in paths):
        if len(paths) != 1:
            return ("opaque", "paths differ without a read")
        kind, payload = lead[0], lead[1]
        if kind == "throw":
            return ("throw",)
        if kind == "range":
            d, o1, o2, qn, node = payload
            if name == "copy":
                if qn in ("std::copy", "std::move") and d == "fwd":
                    return ("copy", o1, (o2 - o1) & M64)
                return ("opaque", "range handed to %s" % qn)
            if name in DIRECTION and qn in LAST_MATCH:
                # the last occurrence in [o1, o2) is the first one met when the same bytes are walked in the other direction
                S_ = lead_S(lead)
                d, o1, o2 = ("rev" if d == "fwd" else "fwd"), (S_ - o2) & M64, (S_ - o1) & M64
            if name in DIRECTION and qn in FIRST_MATCH + LAST_MATCH:
                return ("scan", d, o1 if d == "fwd" else (lead_S(lead) - 1 - o1) & M64, "range", (o1, o2, qn))
            return ("opaque", "range handed to %s" % qn)
        if kind == "return":
            v = payload[0]
            if is_int(v) and name not in ("at", "substr"):
                return ("ret", v)
            if name == "substr" and isinstance(v, tuple) and v[0] == "V":
                return ("sub", v[1], v[2])
            return ("opaque", "returned value not understood")
        return ("opaque", "%s at line %s" % ({"opaque": "construct not understood", "cut": "too many data-dependent branches"}.get(kind, kind),
                                           payload.get("l", "?") if isinstance(payload, dict) else "?"))
    r1 = lead[2][0]
    if any(not p[2] or p[2][0][:2] != r1[:2] for p in paths):
        return ("opaque", "first read differs between paths")
    if name == "at":
        if len(paths) == 1 and lead[0] == "return" and lead[1][0] == ("C", r1[0]) and len(lead[2]) == 1:
            return ("access", r1[0])
        return ("opaque", "element access not understood")
    if name == "copy":
        if len(paths) != 1 or lead[0] != "return":
            return ("opaque", "copy loop not understood")
        rd = lead[2]
        if len(rd) == 1 and rd[0][1] != 1:
            if rd[0][1] is not None and rd[0][3] in ("copy_n", "memcpy", "memmove", "copy", "move"):
                return ("copy", rd[0][0], rd[0][1])
            return ("opaque", "block read by an unknown primitive")
        idxs = sorted(r[0] for r in rd)
        if all(r[1] == 1 for r in rd) and all(x == idxs[0] + i for i, x in enumerate(idxs)):
            return ("copy", idxs[0], len(idxs))             # every byte of [first, first + count) read once, in any order
        return ("opaque", "copy loop does not read consecutive bytes")
    if name in DIRECTION:
        # the read that follows the first one at another place of the view tells the direction of the scan
        seconds = {next(r[0] for r in p[2] if r[0] != r1[0]) for p in paths if any(r[0] != r1[0] for r in p[2])}
        d = None
        if seconds and all(x > r1[0] for x in seconds):
            d = "fwd"
        elif seconds and all(x < r1[0] for x in seconds):
            d = "rev"
        elif seconds:
            return ("opaque", "scan order not understood")
        return ("scan", d, r1[0], "read", r1[1])
    return ("opaque", "read in %s" % name)


def lead_S(path):
    return path[4]


def judge(name, got, want, S, ssz):
    """'ok' | 'bad' (the evaluated behaviour differs from std::string_view's for some content) | 'undecided'"""
    if got[0] == "opaque":
        return "undecided"
    if name in ("at", "substr"):
        return "ok" if got == want else "bad"
    if name == "copy":
        if got[0] == "ret":
            return "ok" if want[0] == "copy" and want[2] == 0 and got[1] == 0 else "bad"
        if got[0] == "copy" and want[0] == "copy" and got[2] == 0 and want[2] == 0:
            return "ok"
        return "ok" if got == want else "bad"
    # find family
    if got[0] == "throw":
        return "bad"

    def fits(first_index_or_off, rng_len):
        return name not in ("find", "rfind") or rng_len >= ssz
    if got[0] == "ret":
        if want[0] == "ret":
            return "ok" if got[1] == want[1] else "bad"
        if name == "find" and ssz > S - want[2]:
            return "ok" if got[1] == NPOS else "bad"       # the pattern cannot fit behind pos: npos whatever the bytes are
        return "bad"                                         # a fixed answer where the answer depends on the bytes
    _, d, idx, kind, info = got
    forced = None                                            # the scan's answer if it does not depend on the bytes
    if kind == "range":
        o1, o2, qn = info
        if o1 > S or o2 > S:
            return "bad"                                     # the range handed to the algorithm leaves the view
        if o2 != S:
            return "undecided"
        if ssz == 0:
            if o1 < S and qn == "std::search":
                forced = idx
            elif qn == "std::find_first_of":
                forced = NPOS
            else:
                return "undecided"
        elif o1 == S or not fits(idx, S - o1):
            forced = NPOS
        if name == "rfind" and d == "rev" and ssz >= 1:
            idx = (idx - (ssz - 1)) & M64                    # a reverse range starts at the last byte of the first candidate
    else:
        ln = info
        if idx > S or (ln == 1 and idx >= S) or (ln is not None and ln > S - idx):
            return "bad"                                     # reads bytes outside the view
        if ln is None and idx == S:
            return "undecided"
        if ssz == 0:
            return "undecided"
    if want[0] == "ret":
        if forced is not None:
            return "ok" if forced == want[1] else "bad"
        return "bad" if kind == "range" else "undecided"
    wforced = NPOS if (name == "find" and ssz > S - want[2]) else None
    if forced is not None or wforced is not None:
        if forced == wforced:
            return "ok"
        return "bad" if kind == "range" else "undecided"
    if idx == want[2] and kind == "range" and ssz >= 1 and (info[1] - info[0]) & M64 == (ssz if name in ("find", "rfind") else 1):
        return "ok"                                          # room for one candidate only: the direction makes no difference here
    return "ok" if idx == want[2] and (d is None or d == want[1]) else "bad"


def read_outside(paths, S):
    """a read of the evaluated paths that leaves [0, S): (index, length, number of data-dependent branches taken before it,
    whether some content of the view certainly takes that path), a certain one first; None if every read of known extent
    stays inside the view"""
    found = None
    for p in paths:
        for r in p[2]:
            idx, ln, forks, free = r[0], r[1], r[4], r[5]
            if idx > S or (ln is not None and ln > S - idx):
                if forks == 0 or free:
                    return (idx, ln, forks, True)
                found = found or (idx, ln, forks, False)
                break                                   # what follows the first such read of a path says nothing more
    return found


def check_guards(ck, tu):
    fns = {}
    for fn in tu.find(record=SV):
        if fn.name in ("at", "substr", "copy") or (fn.name in DIRECTION and fn.params and bare_ty(fn.params[0]["ty"]) == SV):
            fns[fn.name] = fn
    ck.require(len(fns) == 9, "StringView guard functions not all instantiated: %s" % sorted(fns))
    for name, fn in sorted(fns.items()):
        roles = guard_roles(fn, name)
        cases = 0
        bad = None
        undecided = None
        for S in (0, 1, 2, 3):
            for pos in (0, 1, 2, 3, 4, NPOS - 1, NPOS):
                for n in ((0, 1, 2, 5, NPOS) if "n" in roles else (0,)):
                    for ssz in ((0, 1, 2, 4) if "s" in roles else (1,)):
                        cases += 1
                        args = {roles["pos"]: pos}
                        if "n" in roles:
                            args[roles["n"]] = n
                        if "out" in roles:
                            args[roles["out"]] = FOREIGN
                        paths = [p + (S,) for p in explore(fn, S, args, {roles["s"]: ssz} if "s" in roles else {})]
                        want = spec(name, S, pos, n, ssz)
                        got = outcome(name, paths)
                        verdict = judge(name, got, want, S, ssz)
                        out = read_outside(paths, S) if verdict == "ok" else None
                        if out and out[3]:
                            # the model point alone leads to this read, or the model point and a content of the view (each branch
                            # before it tested another byte of the view, freely)
                            verdict, got = "bad", ("outside", out[0], out[1], out[2])
                        elif out:
                            # later in the scan, behind branches on bytes: whether some content takes that path is not known
                            verdict, got = "undecided", ("opaque", "after %d data-dependent branches the scan reads %s outside the view" % (out[2], fmt_read(out)))
                        if verdict == "bad" and bad is None:
                            bad = (S, pos, n, ssz, got, want)
                        elif verdict == "undecided" and undecided is None:
                            undecided = (S, pos, n, ssz, got)

        def f(v):
            return "npos" if v == NPOS else "npos-1" if v == NPOS - 1 else str(v)
        if bad:
            S, pos, n, ssz, got, want = bad
            ck.violation("GUARD-TABLES", fn.qname, sig(fn),
                         "%s on a view of size %d with pos=%s%s%s behaves as %s where std::string_view requires %s"
                         % (name, S, f(pos), (", n=" + f(n)) if "n" in roles else "", (", argument size=%d" % ssz) if "s" in roles else "",
                            fmt_out(got), fmt_out(want)), fn.loc)
        elif undecided:
            S, pos, n, ssz, got = undecided
            raise dtable.Undecidable("%s: guard prefix of %s not understood (size %d, pos=%s%s%s: %s)"
                                     % (fn.loc, name, S, f(pos), (", n=" + f(n)) if "n" in roles else "", (", argument size=%d" % ssz) if "s" in roles else "",
                                        got[1] if got[0] == "opaque" else fmt_out(got)))
        else:
            ck.ok("GUARD-TABLES", SV + "::" + sig(fn), "%d small-model cases (size 0..3, pos incl. npos, n, argument size): throw / early return / clamped scan start agree with std::string_view" % cases,
                  sample=dict(rule="GUARD-TABLES", fn=sig(fn), cases=cases))
            ck.states += cases


def fmt_read(r):
    return "byte %s" % (r[0] if r[0] < NPOS - 64 else "npos-%d" % (NPOS - r[0])) if r[1] == 1 else "%s bytes from offset %s" % (r[1], r[0])


def fmt_out(o):
    def f(v):
        return "npos" if v == NPOS else "?" if v is None else str(v)
    if o[0] == "outside":
        return "a read of %s, outside the view%s" % (fmt_read(o[1:]), (" (after %d other byte%s of the view had been tested, each once)" % (o[3], "s" if o[3] > 1 else "")) if o[3] else "")
    if o[0] == "ret":
        return "return %s" % f(o[1])
    if o[0] == "scan":
        return "%sscan from index %s" % ({"rev": "backward ", "fwd": "forward "}.get(o[1], ""), f(o[2]))
    if o[0] in ("sub", "copy"):
        return "%s(offset %s, length %s)" % (o[0], f(o[1]), f(o[2]))
    if o[0] == "access":
        return "access to byte %s" % f(o[1])
    return str(o[0])


# ---------------------------------------------------------------- other rules
CAST_KINDS = ("ImplicitCastExpr", "CStyleCastExpr", "CXXStaticCastExpr", "CXXFunctionalCastExpr", "CXXReinterpretCastExpr", "CXXConstCastExpr", "ParenExpr")
UNSIGNED_TYPES = ("unsigned char", "unsigned short", "unsigned int", "unsigned long", "unsigned long long", "unsigned", "bool",
                  "uint8_t", "std::uint8_t", "uint16_t", "std::uint16_t", "uint32_t", "std::uint32_t", "uint64_t", "std::uint64_t", "size_t", "std::size_t")
SIGNED_TYPES = ("char", "signed char", "short", "int", "long", "long long", "int8_t", "std::int8_t", "int32_t", "std::int32_t", "ptrdiff_t", "std::ptrdiff_t")
VIEW_DATA_CALLS = ("data",) + ITER_FACTORIES


def local_defs(fn):
    """declaration id -> list of expressions that may define the variable (initialisers, right-hand sides, operands of += / ++)"""
    defs = {}
    for y in fn.nodes():
        if y["k"] == "VarDecl" and y.get("did") is not None and kids(y) and kids(y)[0] is not None:
            defs.setdefault(y["did"], []).append(kids(y)[0])
        bq = match.binop(y, ("=", "+=", "-=")) if y["k"] in ("BinaryOperator", "CompoundAssignOperator", "CXXOperatorCallExpr") else None
        if bq and ref_of(bq[1]) is not None:
            defs.setdefault(ref_of(bq[1]), []).append(bq[2])
    return defs


def pointer_origin(fn, e, defs, seen=()):
    """where a pointer handed to a C-string primitive comes from: 'view' (memory of a StringView: ptr_ / data() / begin() of
    any view, possibly through locals and offsets), 'cstr' (a const char* parameter or a string literal: NUL-terminated by
    contract, not a view) or 'unknown'"""
    out = set()
    for y in ir.walk(e):
        k = y["k"]
        if k == "MemberExpr" and y.get("member") == "ptr_" and y.get("owner") == SV:
            out.add("view")
        elif k == "This":
            out.add("view")
        elif "callee" in y and y["callee"].get("record") == SV and y["callee"]["name"] in VIEW_DATA_CALLS:
            out.add("view")
        elif k == "StringLiteral":
            out.add("cstr")
        elif k == "DeclRefExpr" and y["ref"].get("kind") in ("param", "local"):
            d = y["ref"]["id"]
            t = bare_ty(y.get("ty"))
            if SV in t:
                out.add("view")
                continue
            if not t.endswith("*"):
                continue                                   # an integer offset does not change where the pointer points into
            if d in seen:
                continue
            sub = [pointer_origin(fn, r, defs, seen + (d,)) for r in defs.get(d, [])]
            if y["ref"]["kind"] == "param" and t in ("const char *", "char *"):
                sub.append("cstr")
            out.update(sub or ["unknown"])
        elif "callee" in y and k != "CXXOperatorCallExpr":
            out.add("unknown")
    if "view" in out:
        return "view"
    return "cstr" if out == {"cstr"} else "unknown"


def cast_chain(n):
    """(types of the conversions applied on top of the core expression, core expression)"""
    tys = []
    while n is not None and n["k"] in CAST_KINDS and kids(n):
        if n["k"] != "ParenExpr":
            tys.append((bare_ty(n.get("ty")), n["k"] != "ImplicitCastExpr"))
        n = kids(n)[0]
    return tys, n


def byte_order_of(x):
    """how a relational comparison orders two bytes read from memory: 'signed' | 'unsigned' | 'unknown' | None (not a
    comparison of two plain-char reads)"""
    sides = []
    for o in kids(x):
        tys, core = cast_chain(o)
        if core is None or bare_ty(core.get("ty")) != "char" or not (core["k"] == "ArraySubscriptExpr" or (core["k"] == "UnaryOperator" and core.get("op") == "*")):
            return None
        kind = "signed"
        for t, explicit in reversed(tys):                   # innermost conversion first: it fixes how the byte is widened
            if t in UNSIGNED_TYPES:
                kind = "unsigned"
                break
            if t in SIGNED_TYPES:
                continue
            kind = "unknown"
            break
        sides.append(kind)
    if sides[0] == sides[1]:
        return sides[0]
    return "unknown"


def check_primitives(ck, tu):
    n = 0
    fns = [f for f in tu.functions if f.record == SV or (f.record is None and f.qname.startswith("tlx::operator") and any("StringView" in p["ty"] for p in f.params))]
    for fn in fns:
        n += 1
        defs = None
        for x in fn.nodes():
            if "callee" in x and x["callee"]["name"] in CSTR_BANNED + ("strlen",):
                nm = x["callee"]["name"]
                defs = defs if defs is not None else local_defs(fn)
                origins = [pointer_origin(fn, a, defs) for a in kids(x) if a is not None and (bare_ty(a.get("ty")).endswith("*") or bare_ty(a.get("ty")).endswith("]"))]
                if "view" in origins:
                    ck.violation("NO-CSTR-PRIMITIVE", fn.qname, sig(fn) + ":" + nm,
                                 "%s treats the length-delimited view as NUL-terminated: bytes after an embedded NUL are ignored" % nm if nm != "strlen" else
                                 "strlen measures the memory of a view: it stops at an embedded NUL and runs past the end of a view that is not NUL-terminated", fn.nloc(x))
                elif not origins or "unknown" in origins:
                    ck.deferred.append("%s: origin of the pointer handed to %s in %s not understood" % (fn.nloc(x), nm, sig(fn)))
                # else: every pointer is a const char* parameter / literal - a C string by contract, not a view (what the const char* constructor does)
            if "callee" in x and x["callee"]["name"] == "lexicographical_compare" and len(kids(x)) == 4:
                t = bare_ty(kids(x)[0].get("ty")) if kids(x)[0] is not None else ""
                if "unsigned char" in t or "uint8_t" in t:
                    pass
                elif "char" in t:
                    ck.violation("BYTE-ORDER-UNSIGNED", fn.qname, sig(fn),
                                 "std::lexicographical_compare on char iterators orders bytes as (signed) char; std::string_view orders them as unsigned char (char_traits)", fn.nloc(x))
            # hand-written ordering of two bytes read from memory as plain char
            if x["k"] == "BinaryOperator" and x.get("op") in ("<", ">", "<=", ">="):
                order = byte_order_of(x)
                if order == "signed":
                    ck.violation("BYTE-ORDER-UNSIGNED", fn.qname, sig(fn) + ":" + dtable.describe(x)[:40],
                                 "two bytes of the views are ordered as plain (signed) char: %s; std::string_view orders them as unsigned char, so 0x80..0xFF sort "
                                 "after ASCII" % dtable.describe(x)[:60], fn.nloc(x))
                elif order == "unknown":
                    ck.deferred.append("%s: byte comparison %s in %s: signedness of the operands not understood" % (fn.nloc(x), dtable.describe(x)[:60], sig(fn)))
            # raw memory primitives on the view: (ptr_ + a, len) must stay inside [0, size_)
            if "callee" in x and x["callee"]["name"] in ("memchr", "memcmp", "memcpy", "compare", "find") and ("std::char_traits" in x["callee"]["qname"] or x["callee"]["name"].startswith("mem")):
                ck.guarded(lambda: check_scan_bound(ck, fn, x))
    ck.ok("NO-CSTR-PRIMITIVE", "StringView members and operators", "%d functions scanned for NUL-terminated primitives" % n)
    ck.ok("BYTE-ORDER-UNSIGNED", "StringView members and operators", "%d functions scanned for signed byte ordering" % n)


def scan_bound_grid(fn, call, base_off, ln):
    """the call's (offset, length) evaluated on the small model whenever an evaluated path reaches the call (short-circuit
    conditions, early returns and loops included): -> None (all inside), (S, off, len, params) of a combination that runs
    past the view, or "?" (some path was not understood / the call was never reached)"""
    ints = [p for p in fn.params if bare_ty(p["ty"]) in UNSIGNED64]
    views = [p for p in fn.params if bare_ty(p["ty"]) == SV]
    others = [p for p in fn.params if p not in ints and p not in views]
    reached = 0
    unclear = False
    import itertools
    for S in (0, 1, 2, 3):
        for iv in itertools.product((0, 1, 2, 3, 4, NPOS), repeat=len(ints)):
            for vv in itertools.product((0, 1, 2, 4), repeat=len(views)):
                env = {p["did"]: v for p, v in zip(ints, iv)}
                env.update({p["did"]: FOREIGN for p in others})
                for kind, payload, reads, hits in explore(fn, S, env, {p["did"]: v for p, v in zip(views, vv)}, watch=(call["id"], base_off, ln)):
                    for off, n in hits:
                        reached += 1
                        if off > S or n > S - off:
                            return (S, off, n, iv, vv)
                    if kind in ("opaque", "undefined", "cut", "fallthrough") and not (kind == "fallthrough" and fn.d.get("ret", "") == "void"):
                        unclear = True
    return "?" if unclear or not reached else None


SCAN_LEN_ARG = {"find": 1, "compare": 2, "memcmp": 2, "memcpy": 2, "memchr": 2, "copy": 2, "move": 2}


def check_scan_bound(ck, fn, call):
    args = kids(call)
    name = call["callee"]["name"]
    li = SCAN_LEN_ARG.get(name) if len(args) >= 3 else None
    if li is None:
        return
    base = strip_casts(args[0])
    off = None
    if match.this_field(base) == "ptr_":
        off = "0"
    else:
        b = match.binop(base, ("+",))
        if b and match.this_field(b[1]) == "ptr_":
            off = dtable.describe(b[2])
        elif ref_of(base) is not None:
            return            # cursor variable: covered by the loop's own bounds
        else:
            return
    ln = strip_casts(args[li])
    lt = dtable.describe(ln)
    okk = False
    if off == "0" and (match.this_field(ln) == "size_" or match.call_named(ln, ("min",))):
        okk = True
    if off != "0":
        bb = match.binop(ln, ("-",))
        if bb and match.this_field(bb[1]) == "size_" and dtable.describe(bb[2]) == off:
            okk = True
        m = match.call_named(ln, ("min",))
        if m:
            for a in kids(m):
                b2 = match.binop(a, ("-",))
                if b2 and match.this_field(b2[1]) == "size_" and dtable.describe(b2[2]) == off:
                    okk = True
    f = match.field_of(ln)
    if not okk and f and f[1] == "size_" and strip_casts(f[0])["k"] != "This":
        # other view's size: needs a dominating size_ >= other.size_ (+ off) test
        g = cfgm.CFG(fn)
        for y in fn.nodes():
            bq = match.binop(y, (">=", "<"))
            if bq and match.this_field(bq[1]) == "size_":
                okk = True
    if okk:
        ck.ok("SCAN-BOUND", "%s %s" % (sig(fn), name), "(ptr_ + %s, %s) stays inside the view" % (off, lt), nontrivial=False)
        return
    b0 = match.binop(base, ("+",))
    r = scan_bound_grid(fn, call, b0[2] if b0 else None, args[li])
    if r is None:
        ck.ok("SCAN-BOUND", "%s %s" % (sig(fn), name), "(ptr_ + %s, %s) stays inside the view on the small model (sizes 0..3, parameters incl. npos)" % (off, lt), nontrivial=False)
    elif r == "?":
        raise dtable.Undecidable("%s: range of %s(ptr_ + %s, %s) not understood" % (fn.loc, name, off, lt))
    else:
        S, o_, n_, iv, vv = r
        ck.violation("SCAN-BOUND", fn.qname, sig(fn) + ":" + name,
                     "%s scans %s bytes from ptr_ + %s: on a view of size %d that is %s bytes from offset %s, past the end of the view"
                     % (name, lt, off, S, "npos" if n_ == NPOS else n_, o_), fn.nloc(call))


def check_pos_reaches(ck, tu):
    """the position parameter of at/substr/copy and the find family must take part in the address that is accessed: the member
    is evaluated on the small model for every position inside the view; if the first byte it touches (the offset of the
    sub-view / copy / scan) is the same for all of them, the operation ignores pos - a concrete pair of calls shows it"""
    for fn in tu.find(record=SV):
        name = fn.name
        if not (name in ("at", "substr", "copy") or (name in DIRECTION and fn.params and bare_ty(fn.params[0]["ty"]) == SV)) or not fn.body:
            continue
        roles = guard_roles(fn, name)
        seen = {}            # (S, n, ssz) -> {pos: touched index}
        unclear = None
        for S in (2, 3):
            for pos in range(S):
                args = {roles["pos"]: pos}
                if "n" in roles:
                    args[roles["n"]] = 5
                if "out" in roles:
                    args[roles["out"]] = FOREIGN
                got = outcome(name, [q + (S,) for q in explore(fn, S, args, {roles["s"]: 1} if "s" in roles else {})])
                if got[0] in ("access", "sub", "copy"):
                    seen.setdefault(S, {})[pos] = got[1]
                elif got[0] == "scan":
                    seen.setdefault(S, {})[pos] = got[2]
                elif got[0] == "opaque":
                    unclear = unclear or "size %d, pos=%d: %s" % (S, pos, got[1])
        moved = any(len(set(m.values())) > 1 for m in seen.values())
        stuck = [(S, m) for S, m in sorted(seen.items()) if len(m) >= 2 and len(set(m.values())) == 1]
        if moved:
            ck.ok("POS-REACHES-ACCESS", SV + "::" + sig(fn), "the validated position flows into the accessed address", nontrivial=False)
        elif stuck and not unclear:
            S, m = stuck[-1]
            ps = sorted(m)
            ck.violation("POS-REACHES-ACCESS", fn.qname, sig(fn), "pos is range-checked but never used to address the data: on a view of size %d the calls with pos=%d and "
                         "pos=%d both start at byte %d - the operation always works on the same place of the view" % (S, ps[0], ps[-1], m[ps[0]]), fn.loc)
        else:
            ck.deferred.append("%s: how %s uses its position is not understood (%s)" % (fn.loc, name, unclear or "no access reached on the small model"))


REL = {">": lambda c: c > 0, "<=": lambda c: c <= 0, ">=": lambda c: c >= 0, "<": lambda c: c < 0, "==": lambda c: c == 0, "!=": lambda c: c != 0}


class NotUnderstood(Exception):
    pass


class RelEval:
    """evaluates a relational member of StringView for one value c of this->compare(other): calls of compare() and of the
    relational members on (*this, other) in either order are the atoms, everything else is integer / boolean logic"""

    def __init__(self, fn, c):
        self.fn, self.c = fn, c
        self.other = fn.params[0]["did"]
        self.env, self.alias = {}, {}

    def operand(self, e):
        e0 = strip_casts(e)
        while e0 is not None and e0["k"] in ("ParenExpr", "MaterializeTemporaryExpr", "ExprWithCleanups", "CXXBindTemporaryExpr") and kids(e0):
            e0 = strip_casts(kids(e0)[0])
        if e0 is None:
            return None
        if e0["k"] == "This":
            return "T"
        d = match.deref_of(e0)
        if d is not None and strip_casts(d)["k"] == "This":
            return "T"
        if e0["k"] == "DeclRefExpr":
            if e0["ref"]["id"] == self.other:
                return "O"
            return self.alias.get(e0["ref"]["id"])
        if e0["k"] in ("CXXConstructExpr", "CXXTemporaryObjectExpr") and bare_ty(e0.get("ty")) == SV and len(kids(e0)) == 1:
            return self.operand(kids(e0)[0])
        return None

    def ev(self, e):
        if e is None:
            raise NotUnderstood("empty expression")
        k = e["k"]
        if k in ("ParenExpr", "ExprWithCleanups", "MaterializeTemporaryExpr", "ImplicitCastExpr", "CXXStaticCastExpr", "CStyleCastExpr", "CXXFunctionalCastExpr") and kids(e):
            v = self.ev(kids(e)[0])
            t = bare_ty(e.get("ty"))
            if t == "bool":
                return int(v != 0)
            if t in ("int", "long", "bool") or k in ("ParenExpr", "ExprWithCleanups", "MaterializeTemporaryExpr"):
                return v
            raise NotUnderstood("conversion to %s" % t)
        if k in ("IntegerLiteral", "CXXBoolLiteralExpr"):
            return int(e["val"])
        if k == "DeclRefExpr" and e["ref"]["id"] in self.env:
            return self.env[e["ref"]["id"]]
        if k == "UnaryOperator" and e.get("op") in ("!", "-"):
            v = self.ev(kids(e)[0])
            return int(not v) if e["op"] == "!" else -v
        if k == "ConditionalOperator":
            c0, a, b = kids(e)
            return self.ev(a) if self.ev(c0) else self.ev(b)
        if k == "BinaryOperator":
            op = e["op"]
            if op == "&&":
                return int(bool(self.ev(kids(e)[0])) and bool(self.ev(kids(e)[1])))
            if op == "||":
                return int(bool(self.ev(kids(e)[0])) or bool(self.ev(kids(e)[1])))
            if op in ("<", ">", "<=", ">=", "==", "!="):
                x, y = self.ev(kids(e)[0]), self.ev(kids(e)[1])
                return int({"<": x < y, ">": x > y, "<=": x <= y, ">=": x >= y, "==": x == y, "!=": x != y}[op])
            if op in ("-", "+", "*"):
                x, y = self.ev(kids(e)[0]), self.ev(kids(e)[1])
                return x - y if op == "-" else x + y if op == "+" else x * y
        if "callee" in e and e["callee"].get("record") == SV and e["callee"].get("did") != self.fn.did and len(kids(e)) == 2:
            a, b = self.operand(kids(e)[0]), self.operand(kids(e)[1])
            nm = e["callee"]["name"]
            if a and b and (e.get("member_call") or k == "CXXOperatorCallExpr"):
                c = 0 if a == b else self.c if a == "T" else -self.c
                if nm == "compare":
                    return c
                if nm.startswith("operator") and nm[8:] in REL:
                    return int(REL[nm[8:]](c))
        raise NotUnderstood("%s at line %s" % (dtable.describe(e)[:50], e.get("l")))

    def run(self, s):
        """-> returned value, or None if s falls through"""
        k = s["k"]
        if k == "CompoundStmt":
            for x in kids(s):
                r = self.run(x)
                if r is not None:
                    return r
            return None
        if k == "ReturnStmt" and kids(s):
            return int(self.ev(kids(s)[0]))
        if k == "IfStmt" and "init" not in s and "condvar" not in s:
            c, t, e = (kids(s) + [None])[:3]
            br = t if self.ev(c) else e
            return self.run(br) if br is not None else None
        if k == "DeclStmt":
            for v in kids(s):
                if v["k"] != "VarDecl" or not kids(v) or kids(v)[0] is None:
                    raise NotUnderstood("declaration at line %s" % s.get("l"))
                if bare_ty(v.get("ty")) == SV:
                    o = self.operand(kids(v)[0])
                    if o is None:
                        raise NotUnderstood("view %s at line %s" % (v.get("name"), s.get("l")))
                    self.alias[v["did"]] = o
                else:
                    self.env[v["did"]] = self.ev(kids(v)[0])
            return None
        if k == "NullStmt":
            return None
        if k == "SwitchStmt":
            plan = switch_plan(s)
            if plan is None:
                raise NotUnderstood("switch with labels inside nested statements at line %s" % s.get("l"))
            start = plan[2].get(int(self.ev(plan[0])), plan[3])
            if start is None:
                return None
            try:
                for st in plan[1][start:]:          # from the label on, falling through the labels that follow
                    r = self.run(st)
                    if r is not None:
                        return r
            except _Break:
                pass
            return None
        if k == "BreakStmt":
            raise _Break()
        raise NotUnderstood("%s at line %s" % (k, s.get("l")))


def rel_table(fn, op):
    """-> None (agrees with c OP 0 for every sign of compare()), (c, got) of a disagreeing row; raises NotUnderstood"""
    for c in (-1, 0, 1, -7, 7):
        try:
            r = RelEval(fn, c).run(fn.body)
        except _Break:
            raise NotUnderstood("break outside a switch")
        if r is None:
            raise NotUnderstood("falls off the end")
        if bool(r) != bool(REL[op](c)):
            if abs(c) > 1:
                raise NotUnderstood("the result depends on the magnitude of compare(), not only on its sign")
            return c, bool(r)
    return None


def order_family(fn):
    """which byte order the ordering primitives used directly in fn implement: set of 'unsigned' | 'signed' | 'unknown'"""
    out = set()
    for x in fn.nodes():
        if "callee" in x and x["k"] == "CallExpr":
            q = x["callee"]["qname"]
            if q in ("std::char_traits::compare", "std::char_traits::lt", "memcmp", "std::memcmp"):
                out.add("unsigned")
            elif x["callee"]["name"] == "lexicographical_compare" and len(kids(x)) == 4 and "char" in bare_ty((kids(x)[0] or {}).get("ty")) \
                    and "unsigned char" not in bare_ty((kids(x)[0] or {}).get("ty")):
                out.add("signed")
            elif q in ("std::min", "std::max", "std::equal", "std::distance"):
                pass
            else:
                out.add("unknown")
        elif "callee" in x and x["callee"].get("record") == SV and x["callee"]["name"] not in ("size", "length", "empty", "data") + ITER_FACTORIES:
            out.add("unknown")
        if x["k"] == "BinaryOperator" and x.get("op") in ("<", ">", "<=", ">="):
            o = byte_order_of(x)
            if o:
                out.add(o)
    return out


def rel_by_evaluation(ck, tu, fn, op, cmpf, sigtext, where, deferred_msg):
    """the relational member fn is not a formula over compare() that RelEval reads: both fn and compare() are interpreted on the
    concrete operands of the value rules (buffers of their own, then both views in one buffer) and fn must answer what the sign
    of compare() says.  A pair that both evaluate completely and that disagree is the counterexample; no verdict otherwise"""
    if not cmpf:
        ck.deferred.append(deferred_msg)
        return
    n = 0
    undecided = None
    cases = [("%s %s %s" % (fmt_bytes(a), op, fmt_bytes(b)), (lambda a=a, b=b: (make_view(a), [make_view(b)]))) for a, b in with_null(value_strings("quick"))]
    cases += [("%s %s %s with %s" % (fmt_bytes(a), op, fmt_bytes(b), note), (lambda mk=mk: (lambda p: (p[0], [p[1]]))(mk()))) for a, b, note, mk in aliased("quick")]
    for text, mk in cases:
        try:
            for mag in ("diff", "unit"):
                got, used1 = value_outcome(tu, fn, mk, norm_bool, mag)
                c, used2 = value_outcome(tu, cmpf[0], mk, norm_sign, mag)
                if got[0] != "val" or c[0] != "val":
                    raise CUndec("%s" % (got[0] if got[0] != "val" else c[0]))
                if got[1] == bool(REL[op](c[1])):
                    if mag == "unit":
                        raise CUndec("the outcome depends on the magnitude of the value a compare primitive returns")
                    break
        except CUndec as u:
            if undecided is None:
                undecided = "%s on %s: %s" % (deferred_msg, text, u)
            if "budget" in str(u):
                break
            continue
        n += 1
        if got[1] != bool(REL[op](c[1])):
            ck.violation("REL-FROM-COMPARE", fn.qname, sigtext, "operator%s disagrees with compare(): %s gives %s where compare() gives %s"
                         % (op, text, show_bool(got[1]), show_sign(c[1])), fn.loc)
            return
    if undecided is not None:
        ck.deferred.append(undecided)
    else:
        ck.ok("REL-FROM-COMPARE", where, "not a formula over compare(): %d concrete pairs of views (buffers of their own, and both in one buffer) - the operator answers what the sign of compare() says" % n)


def check_relational(ck, tu):
    cmpf = [f for f in tu.find(record=SV, name="compare") if len(f.params) == 1 and bare_ty(f.params[0]["ty"]) == SV and f.body]
    for fn in tu.find(record=SV):
        if fn.kind != "operator" or fn.d.get("op") not in (">", "<=", ">=") or len(fn.params) != 1 or not fn.body:
            continue
        op = fn.d["op"]
        try:
            bad = rel_table(fn, op)
        except NotUnderstood as e:
            rel_by_evaluation(ck, tu, fn, op, cmpf, "operator" + op, "%s::operator%s" % (SV, op),
                              "%s: operator%s is not understood as a function of compare() / operator<: %s" % (fn.loc, op, e))
            continue
        if bad is None:
            ck.ok("REL-FROM-COMPARE", "%s::operator%s" % (SV, op), "derived from the same ordering primitive with the right operand order / negation")
        else:
            c, got = bad
            ck.violation("REL-FROM-COMPARE", fn.qname, "operator" + op, "operator%s is not the matching derivation of operator< / compare(): when this->compare(other) %s 0 "
                         "it returns %s" % (op, "<" if c < 0 else ">" if c > 0 else "==", str(got).lower()), fn.loc)
    # operator< and compare must agree: both built on one primitive
    lt = [f for f in tu.find(record=SV) if f.kind == "operator" and f.d.get("op") == "<" and len(f.params) == 1 and f.body]
    cmpf = [f for f in tu.find(record=SV, name="compare") if len(f.params) == 1 and "StringView" in f.params[0]["ty"]]
    if lt and cmpf:
        try:
            bad = rel_table(lt[0], "<")
            if bad is None:
                ck.ok("REL-FROM-COMPARE", SV + "::operator< vs compare", "operator< and compare() are built on the same primitive (compare)")
            else:
                ck.violation("REL-FROM-COMPARE", lt[0].qname, "lt-vs-compare", "operator< disagrees with compare(): when this->compare(other) %s 0 it returns %s"
                             % ("<" if bad[0] < 0 else ">" if bad[0] > 0 else "==", str(bad[1]).lower()), lt[0].loc)
        except NotUnderstood as e:
            fl, fc = order_family(lt[0]), order_family(cmpf[0])
            if fl == {"unsigned"} and fc == {"unsigned"}:
                ck.ok("REL-FROM-COMPARE", SV + "::operator< vs compare", "operator< and compare() order bytes with primitives of the same (unsigned) family")
            elif {fl and min(fl), fc and min(fc)} == {"signed", "unsigned"} and len(fl) == 1 and len(fc) == 1:
                ck.violation("REL-FROM-COMPARE", lt[0].qname, "lt-vs-compare", "operator< (%s byte order) and compare() (%s byte order) order bytes with different primitives: "
                             "they disagree on bytes 0x80..0xFF" % (min(fl), min(fc)), lt[0].loc)
            else:
                rel_by_evaluation(ck, tu, lt[0], "<", [f for f in cmpf if f.body], "lt-vs-compare", SV + "::operator< vs compare",
                                  "%s: operator< is neither derived from compare() nor built on a known byte-ordering primitive: %s" % (lt[0].loc, e))


FWD = ("find", "rfind", "find_first_of", "find_last_of", "find_first_not_of", "find_last_not_of")


def resolve_arg(fn, e, defs, written, depth=0):
    """a forwarded argument as a term over the parameters: ('param', i) | ('int', v) | ('addr', i) | ('view', term, ...) |
    ('strlen', term) | ('?', text).  Locals that are defined once and never written afterwards stand for their initialiser."""
    e0 = strip_casts(e)
    while e0 is not None and e0["k"] in ("ParenExpr", "MaterializeTemporaryExpr", "ExprWithCleanups", "CXXBindTemporaryExpr") and kids(e0):
        e0 = strip_casts(kids(e0)[0])
    if e0 is None:
        return ("?", "nothing")
    c = const_int(e0)
    if c is not None and e0["k"] != "DeclRefExpr":
        return ("int", c & M64)
    if e0["k"] == "DefaultArg":
        return ("?", "default argument") if const_int(e0) is None else ("int", const_int(e0) & M64)
    if e0["k"] == "DeclRefExpr":
        d = e0["ref"]["id"]
        i = fn.param_index(d)
        if i is not None:
            return ("param", i) if d not in written else ("?", "parameter %s is modified" % e0["ref"]["name"])
        if len(defs.get(d, [])) == 1 and d not in written and depth < 6:
            return resolve_arg(fn, defs[d][0], defs, written, depth + 1)
        if c is not None:
            return ("int", c & M64)
        return ("?", dtable.describe(e0)[:40])
    if e0["k"] == "UnaryOperator" and e0.get("op") == "&":
        t = resolve_arg(fn, kids(e0)[0], defs, written, depth + 1)
        return ("addr", t[1]) if t[0] == "param" else ("?", dtable.describe(e0)[:40])
    if e0["k"] in ("CXXConstructExpr", "CXXTemporaryObjectExpr") and bare_ty(e0.get("ty")) == SV:
        return ("view",) + tuple(resolve_arg(fn, a, defs, written, depth + 1) for a in kids(e0) if a is not None and a["k"] != "DefaultArg")
    if "callee" in e0 and e0["callee"]["name"] in ("strlen", "length") and len(kids(e0)) == 1 and \
            (e0["callee"]["name"] == "strlen" or e0["callee"]["qname"] == "std::char_traits::length"):
        return ("strlen", resolve_arg(fn, kids(e0)[0], defs, written, depth + 1))
    return ("?", dtable.describe(e0)[:40])


def has_unknown(t):
    return t[0] == "?" or any(isinstance(x, tuple) and has_unknown(x) for x in t[1:])


def fmt_term(fn, t):
    if t[0] == "param":
        return fn.params[t[1]]["name"] or "#%d" % t[1]
    if t[0] == "int":
        return "npos" if t[1] == NPOS else str(t[1])
    if t[0] == "addr":
        return "&" + (fn.params[t[1]]["name"] or "#%d" % t[1])
    if t[0] == "view":
        return "StringView(%s)" % ", ".join(fmt_term(fn, x) for x in t[1:])
    if t[0] == "strlen":
        return "strlen(%s)" % fmt_term(fn, t[1])
    return "?"


class _Ret(Exception):
    def __init__(self, v):
        self.v = v


INT_TYPES = UNSIGNED64 + SIGNED64 + ("int", "unsigned int", "bool")


class FwdEval:
    """evaluates a forwarding overload of the find family on one point (pos, n) of a small model.  Values: 64-bit integers,
    ("p", base, offset) = a pointer into the C string of parameter k (base ("s", k)) or to the character parameter k itself
    (base ("a", k)), ("null",), ("chr", k) = the character parameter, ("v", pointer, length) = a
    StringView (constructors are evaluated from their initialiser lists), ("g", type, ((field, value), ...)) = an object of a
    plain aggregate or a std::pair, ("call", pointer, length, pos) = the result of
    calling another overload of the same member on *this, reduced to what the StringView overload is asked to search for.
    Conditions are decided on the integers of the model; whatever else is met raises NotUnderstood."""

    def __init__(self, tu, fn, env, strlen=None):
        self.tu, self.fn, self.env, self.depth = tu, fn, dict(env), 0
        self.strlen = strlen or {}          # base of a C string parameter -> its length on this point of the model

    def cstr_len(self, p, e):
        """strlen(p) for a pointer into a C string parameter whose length is part of the model"""
        if isinstance(p, tuple) and p[0] == "p" and p[1] in self.strlen and p[2] <= self.strlen[p[1]]:
            return self.strlen[p[1]] - p[2]
        self.nu(e, "length of the C string")

    def nu(self, e, what=None):
        raise NotUnderstood("%s at line %s" % (what or (dtable.describe(e)[:50] if e is not None else "nothing"), (e or {}).get("l", "?")))

    def conv(self, v, ty, e):
        if not is_int(v):
            return v
        t = bare_ty(ty)
        if t in UNSIGNED64 + SIGNED64:
            return v & M64
        if t == "unsigned int":
            return v & 0xFFFFFFFF
        if t == "int":
            v &= 0xFFFFFFFF
            return (v | (M64 ^ 0xFFFFFFFF)) if v >> 31 else v
        if t == "bool":
            return int(v != 0)
        self.nu(e, "conversion to %s" % t)

    def truth(self, e):
        v = self.ev(e)
        if is_int(v):
            return v != 0
        if isinstance(v, tuple) and v[0] == "p":
            return True                                     # a pointer into an object that exists
        if v == ("null",):
            return False
        self.nu(e, "condition %s" % dtable.describe(e)[:40])

    def lvalue(self, e):
        e = strip_casts(e)
        while e is not None and e["k"] == "ParenExpr":
            e = strip_casts(kids(e)[0])
        if e is not None and e["k"] == "DeclRefExpr" and e["ref"].get("kind") in ("local", "param") and e["ref"]["id"] in self.env:
            if isinstance(self.env[e["ref"]["id"]], tuple) and self.env[e["ref"]["id"]][0] == "chr":
                self.nu(e, "the character parameter is modified")
            return e["ref"]["id"]
        self.nu(e, "assignment target %s" % (dtable.describe(e)[:40] if e is not None else "?"))

    def arith(self, op, x, y, e, signed):
        px, py = isinstance(x, tuple) and x[0] == "p", isinstance(y, tuple) and y[0] == "p"
        if px and is_int(y) and op in ("+", "-"):
            return ("p", x[1], (x[2] + y if op == "+" else x[2] - y) & M64)
        if is_int(x) and py and op == "+":
            return ("p", y[1], (y[2] + x) & M64)
        if px and py and x[1] == y[1]:
            if op == "-":
                return (x[2] - y[2]) & M64
            if op in ("==", "!="):
                return int((x[2] == y[2]) == (op == "=="))
            if op in ("<", ">", "<=", ">=") and not (x[2] >> 63) and not (y[2] >> 63):
                x, y, signed = x[2], y[2], False
        if (px and y == ("null",)) or (x == ("null",) and py):
            if op in ("==", "!="):
                return int(op == "!=")
        if x == ("null",) and y == ("null",) and op in ("==", "!="):
            return int(op == "==")
        if not (is_int(x) and is_int(y)):
            self.nu(e)
        if op == "+":
            return (x + y) & M64
        if op == "-":
            return (x - y) & M64
        if op == "*":
            return (x * y) & M64
        if op in ("/", "%") and y != 0 and not (signed and ((x >> 63) or (y >> 63))):
            return x // y if op == "/" else x % y
        if op in ("<", ">", "<=", ">=", "==", "!="):
            if signed:
                x, y = sval(x), sval(y)
            return int({"<": x < y, ">": x > y, "<=": x <= y, ">=": x >= y, "==": x == y, "!=": x != y}[op])
        self.nu(e)

    def ev(self, e):
        if e is None:
            self.nu(e)
        k = e["k"]
        if k in ("ParenExpr", "ExprWithCleanups", "MaterializeTemporaryExpr", "CXXBindTemporaryExpr", "ConstantExpr"):
            return self.ev(kids(e)[0])
        if k in ("IntegerLiteral", "CXXBoolLiteralExpr", "CharacterLiteral") and bare_ty(e.get("ty")) in INT_TYPES:
            return self.conv(int(e["val"]) & M64, e.get("ty"), e)
        if "cval" in e and bare_ty(e.get("ty")) in INT_TYPES:
            return self.conv(int(e["cval"]) & M64, e.get("ty"), e)
        if k in ("ImplicitCastExpr", "CStyleCastExpr", "CXXStaticCastExpr", "CXXFunctionalCastExpr", "CXXConstCastExpr") and kids(e):
            v = self.ev(kids(e)[0])
            c = e.get("cast")
            if is_int(v):
                if c in ("IntegralCast", "IntegralToBoolean") or k != "ImplicitCastExpr":
                    return self.conv(v, e.get("ty"), e)
                if c in (None, "NoOp", "LValueToRValue"):
                    return v
                self.nu(e, "conversion %s" % c)
            if c == "PointerToBoolean":
                return int(self.truth(kids(e)[0]))
            if c in (None, "NoOp", "LValueToRValue", "ConstructorConversion"):
                return v
            self.nu(e, "conversion %s" % c)
        if k in ("NullPtr", "CXXNullPtrLiteralExpr", "GNUNullExpr"):
            return ("null",)
        if k == "DeclRefExpr":
            did = e["ref"]["id"]
            if did in self.env:
                if self.env[did] == UNINIT:
                    self.nu(e, "uninitialised %s" % e["ref"].get("name"))
                return self.env[did]
            if e["ref"].get("qname") == SV + "::npos":
                return NPOS
            self.nu(e)
        if k == "MemberExpr":
            if e.get("member") == "npos" and e.get("owner") == SV:
                return NPOS
            f = match.field_of(e)
            if f and e.get("owner") == SV and strip_casts(f[0])["k"] != "This" and f[1] in ("ptr_", "size_"):
                v = self.ev(f[0])
                if isinstance(v, tuple) and v[0] == "v":
                    return v[1] if f[1] == "ptr_" else v[2]
            if f and e.get("owner") not in (SV, None) and not e.get("arrow"):
                v = self.ev(f[0])
                if isinstance(v, tuple) and v[0] == "g" and (v[1] == e["owner"] or (e["owner"] == "std::pair" and v[1].startswith("std::pair<"))):
                    for m, w in v[2]:
                        if m == e.get("member"):
                            return w
            self.nu(e)
        if k == "InitListExpr":
            rec = plain_aggregate(self.tu, e.get("ty"))
            if rec is None or len(kids(e)) != len(rec["fields"]) or any(x is None or x["k"] == "ImplicitValueInitExpr" for x in kids(e)):
                self.nu(e, "initialiser list")
            return ("g", rec["qname"], tuple((f["name"], self.field_value(self.ev(x), f.get("ty"), e)) for f, x in zip(rec["fields"], kids(e))))
        if k in ("CXXConstructExpr", "CXXTemporaryObjectExpr"):
            return self.construct(e)
        if k == "ConditionalOperator":
            c0, a, b = kids(e)
            return self.ev(a) if self.truth(c0) else self.ev(b)
        if k == "UnaryOperator":
            return self.unary(e)
        if k in ("BinaryOperator", "CompoundAssignOperator"):
            return self.binary(e)
        if "callee" in e and k in ("CallExpr", "CXXMemberCallExpr"):
            return self.call(e)
        self.nu(e)

    def unary(self, e):
        op, x = e.get("op"), kids(e)[0]
        if op == "!":
            return int(not self.truth(x))
        if op in ("-", "+"):
            v = self.ev(x)
            if is_int(v):
                return self.conv((-v if op == "-" else v) & M64, e.get("ty"), e)
            self.nu(e)
        if op in ("++", "--"):
            d = self.lvalue(x)
            old = self.env[d]
            new = self.arith("+" if op == "++" else "-", old, 1, e, False)
            if is_int(new):
                new = self.conv(new, x.get("ty"), e)
            self.env[d] = new
            return old if e.get("postfix") else new
        if op == "&":
            x0 = strip_casts(x)
            while x0 is not None and x0["k"] == "ParenExpr":
                x0 = strip_casts(kids(x0)[0])
            if x0 is not None and x0["k"] == "DeclRefExpr" and isinstance(self.env.get(x0["ref"]["id"]), tuple) and self.env[x0["ref"]["id"]][0] == "chr" \
                    and self.fn.param_index(x0["ref"]["id"]) == self.env[x0["ref"]["id"]][1]:
                return ("p", ("a", self.env[x0["ref"]["id"]][1]), 0)
            ip = match.index_parts(x0) if x0 is not None else None
            if ip:
                return self.arith("+", self.ev(ip[0]), self.ev(ip[1]), e, False)
            if x0 is not None and match.deref_of(x0) is not None:
                v = self.ev(match.deref_of(x0))
                if isinstance(v, tuple) and v[0] == "p":
                    return v
        self.nu(e)

    def binary(self, e):
        op = e.get("op")
        l, r = kids(e)[0], kids(e)[1]
        if op == ",":
            self.ev(l)
            return self.ev(r)
        if op == "&&":
            return int(self.truth(l) and self.truth(r))
        if op == "||":
            return int(self.truth(l) or self.truth(r))
        if op == "=":
            d = self.lvalue(l)
            v = self.ev(r)
            self.env[d] = v
            return v
        if op in ("+=", "-="):
            d = self.lvalue(l)
            v = self.arith(op[0], self.env[d], self.ev(r), e, False)
            if is_int(v):
                v = self.conv(v, l.get("ty"), e)
            self.env[d] = v
            return v
        if op in ("+", "-", "*", "/", "%", "<", ">", "<=", ">=", "==", "!="):
            x, y = self.ev(l), self.ev(r)
            signed = False
            if is_int(x) and is_int(y):
                if op in ("+", "-", "*", "/", "%"):
                    signed = bare_ty(e.get("ty")) in SIGNED64 + ("int",)
                else:
                    ta, tb = bare_ty(l.get("ty")), bare_ty(r.get("ty"))
                    if ta in SIGNED64 + ("int",) and tb in SIGNED64 + ("int",):
                        signed = True
                    elif not (ta in UNSIGNED64 + ("unsigned int", "bool") and tb in UNSIGNED64 + ("unsigned int", "bool")) and ((x >> 63) or (y >> 63)):
                        self.nu(e, "comparison of mixed signedness")
            v = self.arith(op, x, y, e, signed)
            if is_int(v) and op in ("+", "-", "*", "/", "%"):
                v = self.conv(v, e.get("ty"), e)
            return v
        self.nu(e)

    def field_value(self, v, ty, e):
        """the value v stored in a field / element of type ty"""
        if is_int(v):
            return self.conv(v, ty, e)
        if isinstance(v, tuple) and v[0] in ("p", "null") and bare_ty(ty).endswith("*"):
            return v
        self.nu(e, "value of a field of type %s" % ty)

    def pair_of(self, ty, vals, e):
        el = pair_elems(ty)
        if el is not None and len(vals) == 2:
            return ("g", bare_ty(ty), (("first", self.field_value(vals[0], el[0], e)), ("second", self.field_value(vals[1], el[1], e))))
        if el is not None and len(vals) == 1 and isinstance(vals[0], tuple) and vals[0][:2] == ("g", bare_ty(ty)):
            return vals[0]
        self.nu(e, "construction of %s" % ty)

    def construct(self, e):
        a = [x for x in kids(e) if x is not None]
        if any(x["k"] == "DefaultArg" for x in a):
            self.nu(e, "default argument")
        if pair_elems(e.get("ty")) is not None:
            return self.pair_of(e.get("ty"), [self.ev(x) for x in a], e)
        rec = plain_aggregate(self.tu, e.get("ty")) if bare_ty(e.get("ty")) != SV else None
        if rec is not None:
            v = self.ev(a[0]) if len(a) == 1 else None
            if isinstance(v, tuple) and v[:2] == ("g", rec["qname"]):
                return v                                        # the implicit copy / move constructor
            self.nu(e, "construction of %s" % e.get("ty"))
        if bare_ty(e.get("ty")) != SV:
            if len(a) == 1:
                return self.conv(self.ev(a[0]), e.get("ty"), e) if bare_ty(e.get("ty")) in INT_TYPES else self.nu(e)
            self.nu(e)
        cal = self.tu.by_did.get(e["callee"].get("did"))
        if cal is None or cal.kind != "ctor" or len(cal.params) != len(a) or self.depth >= 4 or (cal.body is not None and kids(cal.body)):
            self.nu(e, "constructor %s" % dtable.describe(e)[:40])
        vals = [self.ev(x) for x in a]
        saved, self.env = self.env, {prm["did"]: v for prm, v in zip(cal.params, vals)}
        self.depth += 1
        try:
            ptr = size = None
            for i in cal.inits:
                if i.get("e") is None:
                    self.nu(e, "constructor initialiser")
                if i.get("delegating"):
                    r = self.ev(i["e"])
                    if not (isinstance(r, tuple) and r[0] == "v"):
                        self.nu(e, "delegating constructor")
                    return r
                if i.get("field") == "ptr_":
                    ptr = self.ev(i["e"])
                elif i.get("field") == "size_":
                    size = self.ev(i["e"])
                else:
                    self.nu(e, "constructor initialiser")
        finally:
            self.depth -= 1
            self.env = saved
        if isinstance(ptr, tuple) and ptr[0] in ("p", "null") and is_int(size):
            return ("v", ptr, size)
        self.nu(e, "constructed view")

    def call(self, e):
        name, qn = e["callee"]["name"], e["callee"].get("qname") or ""
        a = [x for x in kids(e) if x is not None]
        if any(x["k"] == "DefaultArg" for x in a):
            self.nu(e, "default argument")
        if (name == "strlen" and qn in ("strlen", "std::strlen")) or qn == "std::char_traits::length":
            if len(a) == 1:
                return self.cstr_len(self.ev(a[0]), e)
            self.nu(e)
        if qn in ("std::min", "std::max") and len(a) == 2:
            x, y = self.ev(a[0]), self.ev(a[1])
            t = bare_ty((e["callee"].get("targs") or [""])[0])
            if is_int(x) and is_int(y) and t in UNSIGNED64 + ("unsigned int",):
                return min(x, y) if name == "min" else max(x, y)
            if is_int(x) and is_int(y) and t in SIGNED64 + ("int",):
                return (min if name == "min" else max)(x, y, key=sval)
            self.nu(e)
        if qn == "std::make_pair" and len(a) == 2:
            return self.pair_of(e.get("ty"), [self.ev(x) for x in a], e)
        if e.get("member_call"):
            obj = strip_casts(a[0])
            if not (obj["k"] == "This" or (match.deref_of(obj) is not None and strip_casts(match.deref_of(obj))["k"] == "This")):
                self.nu(e, "member call on another object")
            a = a[1:]
        cal = self.tu.by_did.get(e["callee"].get("did"))
        if cal is None or len(cal.params) != len(a):
            self.nu(e, "call of %s" % name)
        vals = [self.ev(x) for x in a]
        if e.get("member_call") and e["callee"].get("record") == SV and name == self.fn.name and self.depth == 0:
            if cal.did == self.fn.did:
                self.nu(e, "the overload calls itself")
            tt = [bare_ty(q["ty"]) for q in cal.params]
            isp = lambda v: isinstance(v, tuple) and v[0] in ("p", "null")
            if tt == [SV, "unsigned long"] and isinstance(vals[0], tuple) and vals[0][0] == "v" and is_int(vals[1]):
                return ("call", vals[0][1], vals[0][2], vals[1])
            if tt == ["char *", "unsigned long", "unsigned long"] and isp(vals[0]) and is_int(vals[1]) and is_int(vals[2]):
                return ("call", vals[0], vals[2], vals[1])
            if tt == ["char *", "unsigned long"] and is_int(vals[1]):
                return ("call", vals[0], self.cstr_len(vals[0], e), vals[1])
            self.nu(e, "call of the %s overload" % sig(cal))
        # a helper (static or called on *this): its body is evaluated with the parameters bound by value
        if cal.body is None or cal.kind not in ("method", "function") or self.depth >= 3:
            self.nu(e, "call of %s" % name)
        for prm, v in zip(cal.params, vals):
            if (prm["ty"] or "").rstrip().endswith("&") and not (prm["ty"] or "").lstrip().startswith("const "):
                self.nu(e, "reference parameter of %s" % name)
            if isinstance(v, tuple) and v[0] == "chr" and (prm["ty"] or "").rstrip().endswith("&"):
                self.nu(e, "the character parameter is passed by reference")      # its address may be taken there
            self.env[prm["did"]] = v
        self.depth += 1
        try:
            self.run(cal.body)
        except _Ret as r:
            if r.v is None:
                self.nu(e, "call of %s" % name)
            return r.v
        finally:
            self.depth -= 1
        self.nu(e, "call of %s" % name)

    def run(self, s):
        if s is None:
            return
        k = s["k"]
        if k == "CompoundStmt":
            for c in kids(s):
                self.run(c)
            return
        if k == "NullStmt":
            return
        if k == "IfStmt":
            if "init" in s or "condvar" in s:
                self.nu(s, "if with a declaration")
            c, t, e = (kids(s) + [None])[:3]
            if self.truth(c):
                self.run(t)
            elif e is not None:
                self.run(e)
            return
        if k == "ReturnStmt":
            raise _Ret(self.ev(kids(s)[0]) if kids(s) and kids(s)[0] is not None else None)
        if k == "DeclStmt":
            for v in kids(s):
                if v["k"] != "VarDecl" or (v.get("ty") or "").rstrip().endswith("&"):
                    self.nu(s, "declaration")
                self.env[v["did"]] = self.ev(kids(v)[0]) if kids(v) and kids(v)[0] is not None else UNINIT
            return
        if k in ("UnaryOperator", "BinaryOperator", "CompoundAssignOperator", "ParenExpr", "ExprWithCleanups") or \
                (k in ("CXXStaticCastExpr", "CStyleCastExpr", "CXXFunctionalCastExpr") and bare_ty(s.get("ty")) == "void"):
            if bare_ty(s.get("ty")) == "void" and k not in ("UnaryOperator", "BinaryOperator", "CompoundAssignOperator"):
                return
            self.ev(s)
            return
        if k == "SwitchStmt":
            plan = switch_plan(s)
            if plan is None:
                self.nu(s, "switch with labels inside nested statements")
            v = self.ev(plan[0])
            if not is_int(v):
                self.nu(s, "switch on a non-integer")
            start = next((i for c, i in plan[2].items() if c & M64 == v), plan[3])
            if start is None:
                return
            try:
                for st in plan[1][start:]:          # from the label on, falling through the labels that follow
                    self.run(st)
            except _Break:
                pass
            return
        if k == "BreakStmt":
            raise _Break()
        self.nu(s, k)


def fwd_fmt(v):
    if is_int(v):
        return "npos" if v == NPOS else "npos-%d" % (NPOS - v) if v > NPOS - 64 else str(v)
    if v == ("null",):
        return "nullptr"
    if v[0] == "p":
        b = ("&" if v[1][0] == "a" else "") + "#%d" % v[1][1]
        return b if v[2] == 0 else "%s + %s" % (b, fwd_fmt(v[2]))
    return "?"


def fwd_table(tu, fn, kind):
    """evaluates the forwarding overload on a small model of (pos, n): -> None (every point ends in a call of another overload
    that asks for the required pattern at the required position) or (pos, n, pointer, length, position) of a point that does
    not; raises NotUnderstood.  The integer constants of the function (and their neighbours) are part of the model, so that a
    branch on one of them is taken both ways."""
    consts = set()
    for y in fn.nodes():
        c = const_int(y) if y["k"] in ("IntegerLiteral", "CharacterLiteral") or "cval" in y else None
        if c is not None:
            consts.update(((c - 1) & M64, c & M64, (c + 1) & M64))
    pv = [1, 0, 2, 5, NPOS - 1, NPOS] + sorted(consts - {0, 1, 2, 5, NPOS - 1, NPOS})
    nv = [None]
    if kind == "spn":
        nv = [3, 0, 1, 7, NPOS - 1, NPOS] + sorted(consts - {0, 1, 3, 7, NPOS - 1, NPOS})
    elif kind == "sp":
        nv = [3, 0, 1, 7] + sorted(c for c in consts - {0, 1, 3, 7} if c < 1 << 32)       # n stands for strlen(s) here
    if len(pv) * len(nv) > 4000:
        raise NotUnderstood("too many constants")
    d = [q["did"] for q in fn.params]
    base = ("p", ("a" if kind == "chr" else "s", 0), 0)
    for pos in pv:
        for n in nv:
            env = {d[0]: ("chr", 0) if kind == "chr" else base, d[1]: pos}
            if kind == "spn":
                env[d[2]] = n
            fe = FwdEval(tu, fn, env, {base[1]: n} if kind == "sp" else None)
            try:
                fe.run(fn.body)
                raise NotUnderstood("falls off the end")
            except _Ret as r:
                v = r.v
            except _Break:
                raise NotUnderstood("break outside a switch")
            except RecursionError:
                raise NotUnderstood("recursion")
            if not (isinstance(v, tuple) and v[0] == "call"):
                raise NotUnderstood("the returned value is not the result of another %s overload (pos=%s)" % (fn.name, fwd_fmt(pos)))
            wlen = 1 if kind == "chr" else n
            if v[3] != pos or v[2] != wlen or (v[1] != base and wlen != 0):
                return pos, n, v[1], v[2], v[3]
    return None


def overload_by_evaluation(ck, tu, fn, kind, why, deferred_msg):
    """second line of OVERLOAD-ROLES for overloads that are not one straight-line forwarding call"""
    try:
        bad = fwd_table(tu, fn, kind)
    except NotUnderstood as e:
        ck.deferred.append("%s (%s)" % (deferred_msg, e))
        return
    if bad is None:
        ck.ok("OVERLOAD-ROLES", SV + "::" + sig(fn), "on a small model of (pos, n) every path ends in a call of another overload that is asked for the pattern and the position "
              "in their roles", nontrivial=False)
    else:
        pos, n, ptr, ln, at = bad
        name = lambda k: fn.params[k]["name"] or "#%d" % k
        txt = lambda v: fwd_fmt(v).replace("#0", name(0))
        ck.violation("OVERLOAD-ROLES", fn.qname, sig(fn), "%s: with %s=%s%s it searches for StringView(%s, %s) at %s"
                     % (why, name(1), fwd_fmt(pos), "" if n is None else ", %s=%s" % (name(2) if kind == "spn" else "strlen(%s)" % name(0), fwd_fmt(n)), txt(ptr), txt(ln), fwd_fmt(at)), fn.loc)


def check_overloads(ck, tu):
    for fn in tu.find(record=SV):
        if fn.name not in FWD or not fn.params or "StringView" in fn.params[0]["ty"]:
            continue
        calls = [x for x in fn.nodes() if "callee" in x and x["callee"]["name"] == fn.name and x.get("member_call") and x["callee"].get("record") == SV]
        if not calls:
            ck.ok("OVERLOAD-ROLES", SV + "::" + sig(fn), "own implementation (not a forwarding overload): covered by SCAN-BOUND only", nontrivial=False)
            continue
        # roles by position and type, as fixed by the std::string_view interface: (char c, pos) | (const char* s, pos, n) | (const char* s, pos)
        tys = [bare_ty(p["ty"]) for p in fn.params]
        if tys == ["char", "unsigned long"]:
            kind = "chr"
            want = (("view", ("addr", 0), ("int", 1)), ("param", 1))
            alts = ()
            why = "the character overload must search for StringView(&c, 1) at pos"
        elif tys == ["char *", "unsigned long", "unsigned long"]:
            kind = "spn"
            want = (("view", ("param", 0), ("param", 2)), ("param", 1))
            alts = ()
            why = "the (s, pos, n) overload must search for StringView(s, n) at pos"
        elif tys == ["char *", "unsigned long"]:
            kind = "sp"
            want = (("view", ("param", 0)), ("param", 1))
            alts = ((("view", ("param", 0), ("strlen", ("param", 0))), ("param", 1)),)
            why = "the (s, pos) overload must search for StringView(s) at pos"
        else:
            ck.deferred.append("%s: parameters of the %s overload are not those of a std::string_view overload: %s" % (fn.loc, fn.name, tys))
            continue
        straight = not any(y["k"] in ("IfStmt", "ForStmt", "WhileStmt", "DoStmt", "SwitchStmt", "ConditionalOperator", "GotoStmt", "CXXTryStmt") for y in fn.nodes())
        call = calls[0]
        a = [x for x in kids(call)[1:] if x is not None]
        target = tu.by_did.get(call["callee"].get("did"))
        obj = strip_casts(kids(call)[0])
        defs = local_defs(fn)
        written = {ref_of(match.binop(y, ("=", "+=", "-="))[1]) for y in fn.nodes()
                   if y["k"] in ("BinaryOperator", "CompoundAssignOperator", "CXXOperatorCallExpr") and match.binop(y, ("=", "+=", "-="))}
        written |= {ref_of(match.unop(y, ("++", "--"))[1]) for y in fn.nodes() if match.unop(y, ("++", "--"))}
        rets = [y for y in fn.nodes() if y["k"] == "ReturnStmt"]
        returned = len(rets) == 1 and kids(rets[0]) and (strip_casts(kids(rets[0])[0]) is call or
                                                          (ref_of(kids(rets[0])[0]) is not None and len(defs.get(ref_of(kids(rets[0])[0]), [])) == 1
                                                           and strip_casts(defs[ref_of(kids(rets[0])[0])][0]) is call and ref_of(kids(rets[0])[0]) not in written))
        if len(calls) == 1 and straight and obj["k"] == "This" and len(a) == 3 and target is not None and tys == ["char *", "unsigned long"] and \
                [bare_ty(q["ty"]) for q in target.params] == ["char *", "unsigned long", "unsigned long"]:
            # the (s, pos) overload expressed through the (s, pos, n) overload: n must be the length of the C string
            got3 = tuple(resolve_arg(fn, x, defs, written) for x in a)
            if got3 == (("param", 0), ("param", 1), ("strlen", ("param", 0))) and returned:
                ck.ok("OVERLOAD-ROLES", SV + "::" + sig(fn), "forwards (s, pos, strlen(s)) to the (s, pos, n) overload", nontrivial=False)
            elif any(has_unknown(t) for t in got3) or not returned:
                overload_by_evaluation(ck, tu, fn, kind, why, "%s: arguments forwarded by the %s overload not understood: %s(%s)"
                                       % (fn.loc, sig(fn), fn.name, ", ".join(fmt_term(fn, t) for t in got3)))
            else:
                ck.violation("OVERLOAD-ROLES", fn.qname, sig(fn), "%s: it calls %s(%s)" % (why, fn.name, ", ".join(fmt_term(fn, t) for t in got3)), fn.loc)
            continue
        if len(calls) != 1 or not straight or obj["k"] != "This" or len(a) != 2 or target is None or not target.params or bare_ty(target.params[0]["ty"]) != SV:
            overload_by_evaluation(ck, tu, fn, kind, why, "%s: the %s overload calls %s, but not as one straight-line forwarding call on *this to the StringView overload"
                                   % (fn.loc, sig(fn), fn.name))
            continue
        got = (resolve_arg(fn, a[0], defs, written), resolve_arg(fn, a[1], defs, written))
        if got == want or got in alts:
            if returned:
                ck.ok("OVERLOAD-ROLES", SV + "::" + sig(fn), "forwards (pattern, pos) in their roles", nontrivial=False)
            else:
                overload_by_evaluation(ck, tu, fn, kind, why, "%s: the %s overload forwards correctly but what it returns is not understood" % (fn.loc, sig(fn)))
        elif has_unknown(got[0]) or has_unknown(got[1]):
            overload_by_evaluation(ck, tu, fn, kind, why, "%s: arguments forwarded by the %s overload not understood: %s(%s, %s)"
                                   % (fn.loc, sig(fn), fn.name, fmt_term(fn, got[0]), fmt_term(fn, got[1])))
        else:
            ck.violation("OVERLOAD-ROLES", fn.qname, sig(fn), "%s: it searches for %s at %s" % (why, fmt_term(fn, got[0]), fmt_term(fn, got[1])), fn.loc)


# ---------------------------------------------------------------- concrete evaluation: results as values
# The rules above decide WHERE a member looks (guards, offsets, scan starts).  The rules below decide WHAT the comparison,
# prefix / suffix, element access and conversion members answer: the function is interpreted on concrete arguments - views,
# C strings and std::strings over concrete bytes, concrete integers - and the result is compared with a direct Python
# reference of std::string_view's definition.  The interpreter models the constructs exactly (64-bit LP64 integer types with
# the conversions the AST spells out, pointers as (block, offset), objects with value semantics, the std primitives listed in
# ConcEval.BUILTINS with the preconditions the standard gives them); what it does not model - and behaviour that is undefined
# or unspecified in C++ - raises CUndec: 'cannot decide', never a verdict.
class CUndec(Exception):
    """a construct the concrete evaluation does not model, or undefined / unspecified behaviour was reached"""


class CThrow(Exception):
    """the evaluated C++ code throws"""


class COutside(Exception):
    """a byte outside the memory that a view / C string / std::string argument owns is read or written"""
    def __init__(self, what):
        Exception.__init__(self, what)
        self.what = what


class _CRet(Exception):
    def __init__(self, v):
        self.v = v


INT_MODEL = {"bool": (1, False), "char": (8, True), "signed char": (8, True), "unsigned char": (8, False), "char8_t": (8, False),
             "short": (16, True), "unsigned short": (16, False), "int": (32, True), "unsigned int": (32, False),
             "long": (64, True), "unsigned long": (64, False), "long long": (64, True), "unsigned long long": (64, False)}
STD_STRING = "std::basic_string<char>"
STD_VIEW = "std::basic_string_view<char>"
LOC_TAGS = ("vl", "bl", "fl")
CAST_NODES = ("ImplicitCastExpr", "CStyleCastExpr", "CXXStaticCastExpr", "CXXFunctionalCastExpr", "CXXConstCastExpr", "CXXReinterpretCastExpr")
NULLP = ("p", None, 0)


class Block:
    """a piece of memory: b = its bytes (everything outside is not readable); cell = the variable it is the storage of (&c)"""
    __slots__ = ("b", "what", "cell", "w")

    def __init__(self, b, what, cell=None, w=False):
        self.b, self.what, self.cell, self.w = b, what, cell, w

    def get(self, off):
        if self.cell is not None:
            if off == 0 and isinstance(self.cell[0], int):
                return self.cell[0] & 0xFF
            raise COutside("byte %d behind the address of a single character" % off)
        if 0 <= off < len(self.b):
            if self.b[off] is UNINIT:
                raise CUndec("read of an element of %s that was never written" % self.what)
            return self.b[off]
        raise COutside("byte %d of %s (%d byte%s)" % (off, self.what, len(self.b), "" if len(self.b) == 1 else "s"))

    def get_n(self, off, n):
        if n == 0:
            return []
        if self.cell is not None:
            if n == 1:
                return [self.get(off)]
            raise COutside("%d bytes from the address of a single character" % n)
        if off < 0 or n < 0 or off + n > len(self.b):
            raise COutside("%s bytes from offset %d of %s (%d byte%s)" % ("npos" if n == NPOS else n, off, self.what, len(self.b), "" if len(self.b) == 1 else "s"))
        if any(c is UNINIT for c in self.b[off:off + n]):
            raise CUndec("read of elements of %s that were never written" % self.what)
        return self.b[off:off + n]

    def put(self, off, v):
        if self.cell is not None and off == 0:
            self.cell[0] = v
            return
        if not self.w:
            raise CUndec("write to read-only memory")
        if 0 <= off < len(self.b):
            self.b[off] = v & 0xFF
            return
        raise COutside("write to byte %d of %s (%d bytes)" % (off, self.what, len(self.b)))


class Obj:
    """an object of a class of the analysed code (StringView): fields by name, value semantics by copy()"""
    __slots__ = ("ty", "f")

    def __init__(self, ty, f):
        self.ty, self.f = ty, f

    def copy(self):
        return Obj(self.ty, dict(self.f))


class Str:
    """a std::string: blk.b = its bytes followed by the terminating NUL"""
    __slots__ = ("blk",)

    def __init__(self, bs):
        self.blk = Block(list(bs) + [0], "the std::string", w=True)

    def bytes(self):
        return self.blk.b[:-1]

    def set(self, bs):
        self.blk.b[:] = list(bs) + [0]

    def copy(self):
        return Str(self.bytes())


def s64(v):
    v &= M64
    return v - (1 << 64) if v >> 63 else v


def is_ptr(v):
    return isinstance(v, tuple) and v[0] == "p"


def is_rit(v):
    return isinstance(v, tuple) and v[0] == "r"


def is_loc(v):
    return isinstance(v, tuple) and v[0] in LOC_TAGS


def is_ref_ty(t):
    return (t or "").rstrip().endswith("&")


class ConcEval:
    """interprets functions of the translation unit on concrete values.  Values: Python integers (the mathematical value, always
    inside the range of the C++ type of the expression), ("p", Block|None, offset) = a pointer / std::string iterator, ("r", Block,
    offset) = a std::reverse_iterator with that base, Obj = a StringView, Str = a std::string, ("L", fn, captures, this) = a closure.
    Lvalues are locations: ("vl", cell) a variable, ("bl", Block, offset) a byte of memory, ("fl", Obj, field)."""
    MAX_STEPS = 6000
    MAX_DEPTH = 24

    def __init__(self, tu, mag="unit"):
        self.tu = tu
        self.mag = mag              # magnitude of the result of the compare primitives (the standard fixes its sign only)
        self.used_mag = False
        self.env, self.this = {}, None
        self.steps = self.depth = 0
        self.addr = {}              # id(cell) -> Block standing for the storage of that variable
        self.members = {}

    # ------------------------------------------------------------ integers
    def undec(self, what, e=None):
        raise CUndec("%s%s" % (what, " at line %s" % e.get("l", "?") if isinstance(e, dict) else ""))

    def model(self, ty, e=None):
        m = INT_MODEL.get(bare_ty(ty))
        if m is None:
            self.undec("type %s is not an integer type of the model" % ty, e)
        return m

    def conv(self, v, ty, e=None):
        """conversion of an integer to the integer type ty (modular, as C++20 defines it)"""
        bits, signed = self.model(ty, e)
        if bits == 1:
            return int(v != 0)
        v &= (1 << bits) - 1
        if signed and v >> (bits - 1):
            v -= 1 << bits
        return v

    def fit(self, v, ty, e):
        """the mathematical result v of an arithmetic operation of type ty: wraps for unsigned types, is undefined on signed overflow"""
        bits, signed = self.model(ty, e)
        if not signed:
            return v & ((1 << bits) - 1) if bits > 1 else int(v != 0)
        if not -(1 << (bits - 1)) <= v < (1 << (bits - 1)):
            self.undec("signed overflow (undefined behaviour)", e)
        return v

    def arith(self, op, x, y, ty, e):
        if op == "+":
            return self.fit(x + y, ty, e)
        if op == "-":
            return self.fit(x - y, ty, e)
        if op == "*":
            return self.fit(x * y, ty, e)
        if op in ("/", "%"):
            if y == 0:
                self.undec("division by zero", e)
            q = abs(x) // abs(y)
            if (x < 0) != (y < 0):
                q = -q
            return self.fit(q if op == "/" else x - q * y, ty, e)
        if op in ("&", "|", "^"):
            bits, signed = self.model(ty, e)
            m = (1 << bits) - 1
            r = (x & m) & (y & m) if op == "&" else (x & m) | (y & m) if op == "|" else (x & m) ^ (y & m)
            return self.conv(r, ty, e)
        if op in ("<<", ">>"):
            bits, signed = self.model(ty, e)
            if not 0 <= y < max(bits, 32):
                self.undec("shift count out of range", e)
            if op == ">>":
                return self.conv(x >> y, ty, e)
            if x < 0:
                self.undec("shift of a negative value", e)
            return self.conv(x << y, ty, e)
        self.undec("operator %s" % op, e)

    @staticmethod
    def relate(op, x, y):
        return int(x < y if op == "<" else x > y if op == ">" else x <= y if op == "<=" else x >= y if op == ">=" else x == y if op == "==" else x != y)

    # ------------------------------------------------------------ pointers and iterators
    def it_add(self, it, n, e=None):
        if is_ptr(it):
            if it[1] is None and n != 0:
                self.undec("arithmetic on a null pointer", e)
            return ("p", it[1], s64(it[2] + n))
        if is_rit(it):
            if it[1] is None and n != 0:
                self.undec("arithmetic on a reverse iterator of a null pointer", e)
            return ("r", it[1], s64(it[2] - n))
        self.undec("iterator arithmetic", e)

    def it_diff(self, a, b, e=None):
        """a - b"""
        if is_ptr(a) and is_ptr(b):
            if a[1] is not b[1]:
                self.undec("difference of pointers into different objects", e)
            return a[2] - b[2]
        if is_rit(a) and is_rit(b):
            if a[1] is not b[1]:
                self.undec("difference of iterators into different objects", e)
            return b[2] - a[2]
        self.undec("iterator difference", e)

    def it_loc(self, it, e=None, idx=0):
        if is_ptr(it):
            if it[1] is None:
                raise COutside("the target of a null pointer")
            return ("bl", it[1], s64(it[2] + idx))
        if is_rit(it):
            if it[1] is None:
                raise COutside("the target of a null pointer")
            return ("bl", it[1], s64(it[2] - 1 - idx))
        self.undec("dereference of something that is not a pointer", e)

    def it_cmp(self, op, a, b, e=None):
        if a[0] != b[0]:
            self.undec("comparison of different kinds of iterators", e)
        if a[1] is not b[1]:
            if op in ("==", "!="):
                return int(op == "!=")          # pointers into different objects (reverse iterators: their bases) are not equal
            self.undec("ordering of pointers into different objects (unspecified)", e)
        x, y = (a[2], b[2]) if a[0] == "p" else (b[2], a[2])
        return self.relate(op, x, y)

    def range_bytes(self, first, last, e=None):
        """the bytes of the valid range [first, last)"""
        n = self.it_diff(last, first, e)
        if n < 0:
            self.undec("[first, last) is not a valid range", e)
        if n == 0:
            return []
        if first[1] is None:
            raise COutside("the target of a null pointer")
        if is_ptr(first):
            return first[1].get_n(first[2], n)
        out = first[1].get_n(first[2] - n, n)
        return out[::-1]

    def read_n(self, p, n, e=None):
        """n bytes from the pointer / iterator p on"""
        if not is_ptr(p):
            if is_rit(p):
                if n == 0:
                    return []
                if p[1] is None:
                    raise COutside("the target of a null pointer")
                return p[1].get_n(p[2] - n, n)[::-1]
            self.undec("a block of bytes is read through something that is not a pointer", e)
        if n == 0:
            return []
        if p[1] is None:
            raise COutside("the target of a null pointer")
        return p[1].get_n(p[2], n)

    def cstr_bytes(self, p, e=None, limit=None):
        """the bytes before the first NUL from p on (at most limit)"""
        if not is_ptr(p):
            self.undec("a C string primitive on something that is not a pointer", e)
        if p[1] is None:
            raise COutside("the target of a null pointer")
        out = []
        off = p[2]
        while limit is None or len(out) < limit:
            c = p[1].get(off)
            if c == 0:
                break
            out.append(c)
            off += 1
        return out

    def sign_of(self, a, b):
        """result of a three-way comparison primitive on the byte sequences a, b of equal length: the standard fixes the sign"""
        self.used_mag = True
        for x, y in zip(a, b):
            if x != y:
                return (x - y) if self.mag == "diff" else (1 if x > y else -1)
        return 0

    # ------------------------------------------------------------ locations
    def load(self, v, ty=None, e=None):
        if not (isinstance(v, tuple) and v[0] in LOC_TAGS):
            return v
        if v[0] == "vl":
            r = v[1][0]
            if r is UNINIT:
                self.undec("read of an uninitialised variable", e)
            return r
        if v[0] == "fl":
            r = v[1].f.get(v[2], UNINIT)
            if r is UNINIT:
                self.undec("read of an uninitialised member", e)
            return r
        bits, signed = self.model(ty if ty is not None else "char", e)
        if bits not in (1, 8):
            self.undec("memory read with a type that is not a character type", e)
        c = v[1].get(v[2])
        if bits == 1:
            return int(c != 0)                  # an element of a local bool table
        return c - 256 if signed and c >= 128 else c

    def store(self, loc, v, e=None):
        if not is_loc(loc):
            self.undec("assignment to something that is not an lvalue", e)
        if loc[0] == "vl":
            if isinstance(loc[1][0], (Obj, Str)) and isinstance(v, (Obj, Str)):
                self.assign_obj(loc[1][0], v, e)
            else:
                loc[1][0] = v
        elif loc[0] == "fl":
            loc[1].f[loc[2]] = v
        else:
            if not isinstance(v, int):
                self.undec("a non-character is stored to memory", e)
            loc[1].put(loc[2], v & 0xFF)

    def assign_obj(self, dst, src, e=None):
        if isinstance(dst, Obj) and isinstance(src, Obj) and dst.ty == src.ty:
            dst.f = dict(src.f)
        elif isinstance(dst, Str) and isinstance(src, Str):
            dst.set(src.bytes())
        else:
            self.undec("assignment between objects of different types", e)

    def address(self, cell):
        b = self.addr.get(id(cell))
        if b is None or b.cell is not cell:
            b = self.addr[id(cell)] = Block(None, "a variable", cell=cell)
        return b

    # ------------------------------------------------------------ expressions
    def ev(self, e):
        """the value of e (an lvalue is read)"""
        if e is None:
            self.undec("missing expression")
        if "cval" in e and bare_ty(e.get("ty")) in INT_MODEL:
            return self.conv(int(e["cval"]), e.get("ty"), e)
        v = self.raw(e)
        if isinstance(v, tuple) and v[0] in LOC_TAGS:
            return self.load(v, e.get("ty"), e)
        return v

    def truth(self, e):
        v = self.ev(e)
        if isinstance(v, int):
            return v != 0
        if is_ptr(v):
            return v[1] is not None
        self.undec("condition that is neither an integer nor a pointer", e)

    def raw(self, e):
        """value of a prvalue, location of an lvalue"""
        if e is None:
            self.undec("missing expression")
        self.steps += 1
        if self.steps > self.MAX_STEPS:
            self.undec("step budget of the evaluation exhausted", e)
        k = e["k"]
        h = self.DISPATCH.get(k)
        if h is not None:
            return h(self, e)
        if "callee" in e:
            return self.call(e)
        self.undec("%s is not modelled" % k, e)

    def x_literal(self, e):
        return self.conv(int(e["val"]), e.get("ty"), e)

    def x_null(self, e):
        return NULLP

    def x_string(self, e):
        if "bytes" not in e:
            self.undec("wide string literal", e)
        return ("p", Block(list(e["bytes"]) + [0], "a string literal"), 0)

    def x_declref(self, e):
        r = e["ref"]
        loc = self.env.get(r["id"])
        if loc is not None:
            return loc
        if r.get("qname") == SV + "::npos":
            return NPOS
        if "cval" in e:
            return self.conv(int(e["cval"]), e.get("ty"), e)
        self.undec("reference to %s, which is not a variable of the evaluated functions" % r.get("name"), e)

    def x_member(self, e):
        if e.get("member") == "npos" and e.get("owner") == SV:
            return NPOS
        if e.get("method") or e.get("static"):
            self.undec("member %s" % e.get("member"), e)
        base = self.ev(kids(e)[0]) if kids(e) else None
        if isinstance(base, Obj) and e.get("member") in base.f:
            return ("fl", base, e["member"])
        self.undec("member %s of something that is not an object of the model" % e.get("member"), e)

    def x_this(self, e):
        if self.this is None:
            self.undec("this outside a member function", e)
        return self.this

    def x_unary(self, e):
        op, x = e.get("op"), kids(e)[0]
        if op == "*":
            v = self.ev(x)
            if isinstance(v, Obj):
                return v
            return self.it_loc(v, e)
        if op == "&":
            r = self.raw(x)
            if isinstance(r, Obj):
                return r
            if is_loc(r):
                if r[0] == "bl":
                    return ("p", r[1], r[2])
                if r[0] == "vl":
                    if isinstance(r[1][0], (Obj, Str)):
                        return r[1][0]
                    if bare_ty(x.get("ty")) in ("char", "signed char", "unsigned char"):
                        return ("p", self.address(r[1]), 0)
            self.undec("address of this expression", e)
        if op == "!":
            return int(not self.truth(x))
        if op in ("-", "+", "~"):
            v = self.ev(x)
            if not isinstance(v, int):
                self.undec("unary %s on a non-integer" % op, e)
            if op == "~":
                return self.conv(~v, e.get("ty"), e)
            return self.fit(-v if op == "-" else v, e.get("ty"), e)
        if op in ("++", "--"):
            loc = self.raw(x)
            old = self.load(loc, x.get("ty"), e)
            d = 1 if op == "++" else -1
            new = self.it_add(old, d, e) if isinstance(old, tuple) else self.fit(old + d, x.get("ty"), e) if isinstance(old, int) else self.undec("%s on this value" % op, e)
            self.store(loc, new, e)
            return old if e.get("postfix") else loc
        self.undec("unary operator %s" % op, e)

    def binop_values(self, op, x, y, e, ty):
        """x op y for integers, pointers and iterators"""
        xi, yi = isinstance(x, int), isinstance(y, int)
        if xi and yi:
            if op in ("<", ">", "<=", ">=", "==", "!="):
                return self.relate(op, x, y)
            return self.arith(op, x, y, ty, e)
        xt, yt = isinstance(x, tuple) and x[0] in ("p", "r"), isinstance(y, tuple) and y[0] in ("p", "r")
        if xt and yi and op in ("+", "-"):
            return self.it_add(x, y if op == "+" else -y, e)
        if xi and yt and op == "+":
            return self.it_add(y, x, e)
        if op in ("==", "!=") and isinstance(x, (Obj, Str)) and isinstance(y, (Obj, Str)):
            # this == &other: the built-in operator on objects compares their addresses (operator== of a class is a call)
            return int((x is y) == (op == "=="))
        if op in ("==", "!=") and ((xi and x == 0 and is_ptr(y)) or (yi and y == 0 and is_ptr(x))):
            # 0 == p: the only integer a pointer can be compared with is the null pointer constant (the conversion is not in the AST)
            return self.it_cmp(op, NULLP if xi else x, NULLP if yi else y, e)
        if xt and yt:
            if op == "-":
                return self.it_diff(x, y, e)
            if op in ("<", ">", "<=", ">=", "==", "!="):
                return self.it_cmp(op, x, y, e)
        self.undec("operator %s on these operands" % op, e)

    def x_binary(self, e):
        op = e.get("op")
        l, r = kids(e)[0], kids(e)[1]
        if op == ",":
            self.raw(l)
            return self.raw(r)
        if op == "&&":
            return int(self.truth(l) and self.truth(r))
        if op == "||":
            return int(self.truth(l) or self.truth(r))
        if op == "=":
            loc = self.raw(l)
            self.store(loc, self.ev(r), e)
            return loc
        return self.binop_values(op, self.ev(l), self.ev(r), e, e.get("ty"))

    def x_compound(self, e):
        op = e.get("op", "")[:-1]
        l, r = kids(e)[0], kids(e)[1]
        loc = self.raw(l)
        cur = self.load(loc, l.get("ty"), e)
        y = self.ev(r)
        if isinstance(cur, int) and isinstance(y, int):
            cty = e.get("cty") or l.get("ty")
            v = self.conv(self.arith(op, self.conv(cur, cty, e), self.conv(y, cty, e), cty, e), l.get("ty"), e)
        else:
            v = self.binop_values(op, cur, y, e, l.get("ty"))
        self.store(loc, v, e)
        return loc

    def x_cond(self, e):
        c0, a, b = kids(e)
        return self.raw(a) if self.truth(c0) else self.raw(b)

    def x_cast(self, e):
        c = e.get("cast")
        x = kids(e)[0] if kids(e) else None
        if c in ("IntegralCast", "BooleanToSignedIntegral"):
            v = self.ev(x)
            if not isinstance(v, int):
                self.undec("integral conversion of a non-integer", e)
            return self.conv(v, e.get("ty"), e)
        if c == "IntegralToBoolean":
            v = self.ev(x)
            if not isinstance(v, int):
                self.undec("conversion of a non-integer to bool", e)
            return int(v != 0)
        if c == "PointerToBoolean":
            return int(self.truth(x))
        if c in ("NoOp", "LValueToRValue", "ConstructorConversion", "UserDefinedConversion", "ArrayToPointerDecay"):
            return self.raw(x)
        if c == "NullToPointer":
            return NULLP
        if c == "BitCast":
            v = self.ev(x)
            if is_ptr(v):
                return v
            self.undec("bit cast of a non-pointer", e)
        if c == "ToVoid":
            self.raw(x)
            return 0
        self.undec("conversion %s" % c, e)

    def x_index(self, e):
        a, b = self.ev(kids(e)[0]), self.ev(kids(e)[1])
        if isinstance(a, int):
            a, b = b, a
        if not isinstance(b, int):
            self.undec("subscript that is not an integer", e)
        return self.it_loc(a, e, b)

    def x_lambda(self, e):
        fn = self.tu.by_did.get(e.get("fn"))
        if fn is None or fn.body is None:
            self.undec("closure without a body", e)
        caps = {}
        for c in e.get("captures", []):
            if c.get("name") == "this":
                continue
            loc = self.env.get(c.get("id"))
            if loc is None:
                self.undec("capture of %s" % c.get("name"), e)
            if c.get("byref"):
                caps[c["id"]] = loc
            else:
                v = self.load(loc, None, e) if loc[0] != "bl" else self.undec("capture of a byte by copy", e)
                caps[c["id"]] = ("vl", [v.copy() if isinstance(v, (Obj, Str)) else v])
        return ("L", fn, caps, self.this)

    def x_throw(self, e):
        raise CThrow()

    def x_construct(self, e):
        return self.construct(e)

    def x_initlist(self, e):
        """= { a, b } of a plain aggregate: one initialiser per field, in the order of the fields"""
        rec = plain_aggregate(self.tu, e.get("ty"))
        if rec is None or len(kids(e)) != len(rec["fields"]):
            self.undec("initialiser list of %s" % e.get("ty"), e)
        obj = Obj(rec["qname"], {})
        for f, x in zip(rec["fields"], kids(e)):
            if x is None:
                self.undec("initialiser list of %s" % e.get("ty"), e)
            if x["k"] == "ImplicitValueInitExpr":
                t = bare_ty(f.get("ty"))
                v = 0 if t in INT_MODEL else NULLP if t.endswith("*") else self.undec("value initialisation of a %s" % t, e)
            else:
                v = self.ev(x)
                if isinstance(v, int) and bare_ty(f.get("ty")) not in INT_MODEL or isinstance(v, (Obj, Str)):
                    self.undec("initialiser of the field %s" % f["name"], e)
            obj.f[f["name"]] = v
        return obj

    DISPATCH = {"IntegerLiteral": x_literal, "CXXBoolLiteralExpr": x_literal, "CharacterLiteral": x_literal, "NullPtr": x_null,
                "StringLiteral": x_string, "DeclRefExpr": x_declref, "MemberExpr": x_member, "This": x_this, "UnaryOperator": x_unary,
                "BinaryOperator": x_binary, "CompoundAssignOperator": x_compound, "ConditionalOperator": x_cond,
                "ArraySubscriptExpr": x_index, "LambdaExpr": x_lambda, "CXXThrowExpr": x_throw,
                "CXXConstructExpr": x_construct, "CXXTemporaryObjectExpr": x_construct, "InitListExpr": x_initlist}
    for _k in CAST_NODES:
        DISPATCH[_k] = x_cast
    del _k

    # ------------------------------------------------------------ calls
    def bind(self, fn, argnodes):
        """evaluates the arguments of a call in the frame of the caller: -> environment of the callee"""
        if len(argnodes) != len(fn.params):
            self.undec("call of %s with %d arguments" % (fn.name, len(argnodes)))
        env = {}
        for prm, a in zip(fn.params, argnodes):
            if a is None or a["k"] == "DefaultArg":
                self.undec("default argument of %s" % fn.name, a)
            if is_ref_ty(prm["ty"]):
                r = self.raw(a)
                env[prm["did"]] = r if is_loc(r) else ("vl", [r])
            else:
                v = self.ev(a)
                env[prm["did"]] = ("vl", [v.copy() if isinstance(v, (Obj, Str)) else v])
        return env

    def enter(self, fn, this, env, body=True):
        """runs the body of fn in a new frame: -> what it returns (a location for a function that returns a reference)"""
        if self.depth >= self.MAX_DEPTH:
            self.undec("call depth (recursion) in %s" % fn.name)
        saved = (self.env, self.this)
        self.env, self.this = env, this
        self.depth += 1
        try:
            self.run(fn.body)
        except _CRet as r:
            v = r.v
            if v is None:
                return None
            if is_ref_ty(fn.d.get("ret")):
                return v
            v = self.load(v, fn.d.get("ret"))
            return v.copy() if isinstance(v, (Obj, Str)) else v        # returned by value: an object of its own
        finally:
            self.depth -= 1
            self.env, self.this = saved
        if bare_ty(fn.d.get("ret")) == "void" or fn.kind in ("ctor", "dtor"):
            return None
        self.undec("%s falls off its end without returning a value (undefined behaviour)" % fn.name)

    def construct(self, e):
        c = e.get("callee") or {}
        qn = c.get("qname") or ""
        args = kids(e)
        fn = self.tu.by_did.get(c.get("did"))
        if fn is not None and fn.kind == "ctor" and fn.record == SV:
            env = self.bind(fn, args)
            obj = Obj(SV, {"ptr_": UNINIT, "size_": UNINIT})
            saved = (self.env, self.this)
            self.env, self.this = env, obj
            self.depth += 1
            try:
                if self.depth >= self.MAX_DEPTH:
                    self.undec("call depth in a constructor", e)
                for i in fn.inits:
                    if i.get("e") is None:
                        self.undec("constructor initialiser without an expression", e)
                    if i.get("delegating"):
                        r = self.ev(i["e"])
                        if not isinstance(r, Obj):
                            self.undec("delegating constructor", e)
                        obj.f = dict(r.f)
                    elif i.get("field") in obj.f:
                        obj.f[i["field"]] = self.ev(i["e"])
                    else:
                        self.undec("constructor initialiser of %s" % (i.get("field") or i.get("base")), e)
            finally:
                self.depth -= 1
                self.env, self.this = saved
            if fn.body is not None and kids(fn.body):
                self.enter(fn, obj, env)
            return obj
        if qn == "std::pair::pair" and pair_elems(e.get("ty")) is not None and all(a is not None and a["k"] != "DefaultArg" for a in args):
            return self.pair_of(e.get("ty"), [self.ev(a) for a in args], e)
        rec = plain_aggregate(self.tu, e.get("ty")) if fn is None or fn.body is None else None
        if rec is not None:
            if not args:
                return Obj(rec["qname"], {f["name"]: UNINIT for f in rec["fields"]})    # Window w; - the fields have no value yet
            v = self.ev(args[0]) if len(args) == 1 and args[0] is not None else None
            if isinstance(v, Obj) and v.ty == rec["qname"]:
                return v.copy()                                                         # the implicit copy / move constructor
            self.undec("construction of %s" % e.get("ty"), e)
        if qn == "std::basic_string::basic_string":
            return self.make_string(e, [a for a in args if a is not None and a["k"] != "DefaultArg"])
        if qn == "std::basic_string_view::basic_string_view" and bare_ty(e.get("ty")) == STD_VIEW:
            vals = [self.ev(a) for a in args if a is not None and a["k"] != "DefaultArg"]
            if len(vals) != len(args):
                self.undec("default argument of a std::string_view constructor", e)
            if not vals:
                return Obj(STD_VIEW, {"p": NULLP, "n": 0})
            if len(vals) == 1 and isinstance(vals[0], Obj) and vals[0].ty == STD_VIEW:
                return vals[0].copy()
            if len(vals) == 1 and is_ptr(vals[0]):
                return Obj(STD_VIEW, {"p": vals[0], "n": len(self.cstr_bytes(vals[0], e))})
            if len(vals) == 2 and is_ptr(vals[0]) and isinstance(vals[1], int):
                return Obj(STD_VIEW, {"p": vals[0], "n": vals[1]})
            if len(vals) == 2 and is_ptr(vals[0]) and is_ptr(vals[1]):
                n = self.it_diff(vals[1], vals[0], e)
                if n < 0:
                    self.undec("[first, last) is not a valid range", e)
                return Obj(STD_VIEW, {"p": vals[0], "n": n})
            self.undec("this std::string_view constructor", e)
        if qn == "std::reverse_iterator::reverse_iterator" and len(args) == 1:
            v = self.ev(args[0])
            if is_ptr(v):
                return ("r", v[1], v[2])
            if is_rit(v):
                return v
        if qn == "__gnu_cxx::__normal_iterator::__normal_iterator" and len(args) == 1:
            v = self.ev(args[0])
            if is_ptr(v):
                return v
        self.undec("construction of %s" % (e.get("ty") or qn), e)

    def make_string(self, e, args):
        tys = [bare_ty(a.get("ty")) for a in args]
        vals = [self.ev(a) for a in args]
        if not vals:
            return Str([])
        if len(vals) == 1 and isinstance(vals[0], Str):
            return vals[0].copy()
        if len(vals) == 1 and isinstance(vals[0], Obj) and vals[0].ty == STD_VIEW:
            return Str(self.stdview_bytes(vals[0], e))
        if len(vals) == 1 and is_ptr(vals[0]):
            return Str(self.cstr_bytes(vals[0], e))
        if len(vals) == 2 and is_ptr(vals[0]) and isinstance(vals[1], int) and tys[1] in INT_MODEL and INT_MODEL[tys[1]][0] > 8:
            if vals[0][1] is None and vals[1] != 0:
                self.undec("std::string(nullptr, n)", e)
            return Str(self.read_n(vals[0], vals[1], e))
        if len(vals) == 2 and isinstance(vals[0], tuple) and isinstance(vals[1], tuple) and vals[0][0] == vals[1][0] and vals[0][0] in ("p", "r"):
            return Str(self.range_bytes(vals[0], vals[1], e))
        if len(vals) == 2 and isinstance(vals[0], int) and isinstance(vals[1], int) and tys[1] in ("char",) and tys[0] in INT_MODEL and INT_MODEL[tys[0]][0] > 8:
            if vals[0] > 4096:
                self.undec("std::string(n, c) with a huge n", e)
            return Str([vals[1] & 0xFF] * vals[0])
        self.undec("this std::string constructor", e)

    def call(self, e):
        c = e["callee"]
        qn, name = c.get("qname") or "", c["name"]
        ks = kids(e)
        fn = self.tu.by_did.get(c.get("did"))
        if e.get("op") == "()" and e["k"] == "CXXOperatorCallExpr" and ks:
            clo = self.ev(ks[0])
            if isinstance(clo, tuple) and clo[0] == "L" and clo[1].did == c.get("did"):
                return self.call_closure(clo, ks[1:])
            self.undec("call of a function object", e)
        if fn is not None and fn.body is not None and fn.kind in ("method", "operator", "fn", "function") and qn.startswith("tlx::"):
            if fn.record is not None and not fn.d.get("static") and (e.get("member_call") or e["k"] == "CXXOperatorCallExpr"):
                this = self.ev(ks[0])
                if not isinstance(this, Obj):
                    self.undec("member call on something that is not an object of the model", e)
                return self.enter(fn, this, self.bind(fn, ks[1:]))
            if e.get("member_call"):
                ks = ks[1:]
            return self.enter(fn, None, self.bind(fn, ks))
        if c.get("record") == SV and name == "operator=" and len(ks) == 2:
            dst, src = self.ev(ks[0]), self.ev(ks[1])
            if isinstance(dst, Obj) and isinstance(src, Obj):
                self.assign_obj(dst, src, e)
                return dst
        if c.get("record") == "std::tuple" and name == "operator=" and len(ks) == 2 and tie_targets(ks[0]) is not None:
            tt = tie_targets(ks[0])
            src = self.ev(ks[1])
            if not (isinstance(src, Obj) and pair_elems(src.ty) is not None and len(tt) == 2):
                self.undec("std::tie(...) = something that is not a pair", e)
            for t, fld in zip(tt, ("first", "second")):
                loc = self.raw(t)
                w = src.f[fld]
                self.store(loc, self.conv(w, t.get("ty"), e) if isinstance(w, int) else w, e)
            return 0
        h = self.BUILTINS.get(qn)
        if h is not None:
            return h(self, e, ks)
        rec = c.get("record")
        if rec == "std::basic_string":
            return self.string_member(e, name, ks)
        if rec == "std::basic_string_view":
            return self.stdview_member(e, name, ks)
        if e["k"] == "CXXOperatorCallExpr" and (rec in ("std::reverse_iterator", "__gnu_cxx::__normal_iterator") or qn.startswith("std::operator") or qn.startswith("__gnu_cxx::operator")):
            return self.iter_operator(e, ks)
        if rec in ("std::reverse_iterator", "__gnu_cxx::__normal_iterator") and name == "base" and len(ks) == 1:
            v = self.ev(ks[0])
            if is_rit(v) or is_ptr(v):
                return ("p", v[1], v[2])
        self.undec("call of %s is not modelled" % (qn or name), e)

    def call_closure(self, clo, argnodes):
        _, fn, caps, this = clo
        env = self.bind(fn, argnodes)
        for d, loc in caps.items():
            env[d] = loc
        return self.enter(fn, this, env)

    def call_value(self, f, vals, e):
        """f(vals...) for a predicate handed to an algorithm: a closure of the evaluated code"""
        if isinstance(f, tuple) and f[0] == "L" and len(f[1].params) == len(vals):
            env = {p["did"]: ("vl", [v]) for p, v in zip(f[1].params, vals)}
            env.update(f[2])
            return self.enter(f[1], f[3], env)
        self.undec("call of a function object", e)

    def iter_operator(self, e, ks):
        op = e.get("op")
        if op in ("++", "--"):
            loc = self.raw(ks[0])
            old = self.load(loc, None, e)
            if not (is_ptr(old) or is_rit(old)):
                self.undec("%s on something that is not an iterator" % op, e)
            self.store(loc, self.it_add(old, 1 if op == "++" else -1, e), e)
            return old if len(ks) == 2 else loc
        if op in ("+=", "-=") and len(ks) == 2:
            loc = self.raw(ks[0])
            old, n = self.load(loc, None, e), self.ev(ks[1])
            if not ((is_ptr(old) or is_rit(old)) and isinstance(n, int)):
                self.undec("%s on something that is not an iterator" % op, e)
            self.store(loc, self.it_add(old, n if op == "+=" else -n, e), e)
            return loc
        vals = [self.ev(a) for a in ks]
        if op == "*" and len(vals) == 1 and (is_ptr(vals[0]) or is_rit(vals[0])):
            return self.it_loc(vals[0], e)
        if op == "[]" and len(vals) == 2 and (is_ptr(vals[0]) or is_rit(vals[0])) and isinstance(vals[1], int):
            return self.it_loc(vals[0], e, vals[1])
        if len(vals) == 2 and all(isinstance(v, (int, tuple)) and not is_loc(v) for v in vals) and any(is_ptr(v) or is_rit(v) for v in vals) \
                and op in ("+", "-", "<", ">", "<=", ">=", "==", "!="):
            return self.binop_values(op, vals[0], vals[1], e, e.get("ty"))
        if len(vals) == 2 and op in ("==", "!=", "<", ">", "<=", ">=") and all(isinstance(v, Str) or is_ptr(v) for v in vals) and any(isinstance(v, Str) for v in vals):
            a, b = [v.bytes() if isinstance(v, Str) else self.cstr_bytes(v, e) for v in vals]
            return self.relate(op, a, b)          # std::string compares like std::string_view: unsigned bytes, then the lengths
        if len(vals) == 2 and op in ("==", "!=", "<", ">", "<=", ">=") and all(isinstance(v, Obj) and v.ty == STD_VIEW for v in vals):
            return self.relate(op, self.stdview_bytes(vals[0], e), self.stdview_bytes(vals[1], e))
        self.undec("operator %s of the standard library on these operands" % op, e)

    def string_member(self, e, name, ks):
        s = self.ev(ks[0]) if ks else None
        if not isinstance(s, Str):
            self.undec("std::string member on something that is not a std::string of the model", e)
        args = [a for a in ks[1:] if a is not None and a["k"] != "DefaultArg"]
        if len(args) != len(ks) - 1 and name not in ("append", "assign"):
            self.undec("default argument of std::string::%s" % name, e)
        vals = [self.ev(a) for a in args]
        n = len(s.blk.b) - 1
        if name in ("size", "length") and not vals:
            return n
        if name == "empty" and not vals:
            return int(n == 0)
        if name in ("data", "c_str", "begin", "cbegin") and not vals:
            return ("p", s.blk, 0)
        if name in ("end", "cend") and not vals:
            return ("p", s.blk, n)
        if name in ("rbegin", "crbegin") and not vals:
            return ("r", s.blk, n)
        if name in ("rend", "crend") and not vals:
            return ("r", s.blk, 0)
        if name == "operator[]" and len(vals) == 1 and isinstance(vals[0], int):
            if vals[0] > n:
                self.undec("std::string::operator[] behind size() (undefined behaviour)", e)
            return ("bl", s.blk, vals[0])
        if name == "at" and len(vals) == 1 and isinstance(vals[0], int):
            if vals[0] >= n:
                raise CThrow()
            return ("bl", s.blk, vals[0])
        if name in ("front", "back") and not vals:
            if n == 0:
                self.undec("std::string::%s of an empty string (undefined behaviour)" % name, e)
            return ("bl", s.blk, 0 if name == "front" else n - 1)
        if name in ("reserve", "shrink_to_fit"):
            return None
        if name == "clear" and not vals:
            s.set([])
            return None
        if name == "push_back" and len(vals) == 1 and isinstance(vals[0], int):
            s.set(s.bytes() + [vals[0] & 0xFF])
            return None
        if name == "resize" and vals and isinstance(vals[0], int) and all(isinstance(v, int) for v in vals) and len(vals) <= 2:
            if vals[0] > 4096:
                self.undec("std::string::resize to a huge size", e)
            cur = s.bytes()
            s.set(cur[:vals[0]] + [(vals[1] & 0xFF) if len(vals) == 2 else 0] * max(0, vals[0] - len(cur)))
            return None
        if name in ("append", "assign", "operator+=", "operator="):
            tys = [bare_ty(a.get("ty")) for a in args]
            if len(vals) == 1 and isinstance(vals[0], int) and name == "operator+=" and tys[0] == "char":
                add = [vals[0] & 0xFF]
            elif len(vals) == 1 and isinstance(vals[0], Str):
                add = vals[0].bytes()
            elif len(vals) == 1 and is_ptr(vals[0]):
                add = self.cstr_bytes(vals[0], e)
            elif len(vals) == 2 and is_ptr(vals[0]) and isinstance(vals[1], int) and tys[1] in INT_MODEL and INT_MODEL[tys[1]][0] > 8:
                add = self.read_n(vals[0], vals[1], e)
            elif len(vals) == 2 and isinstance(vals[0], tuple) and isinstance(vals[1], tuple) and vals[0][0] == vals[1][0] and vals[0][0] in ("p", "r"):
                add = self.range_bytes(vals[0], vals[1], e)
            elif len(vals) == 2 and isinstance(vals[0], int) and isinstance(vals[1], int) and tys[1] == "char" and vals[0] <= 4096:
                add = [vals[1] & 0xFF] * vals[0]
            else:
                self.undec("this overload of std::string::%s" % name, e)
            s.set((s.bytes() if name in ("append", "operator+=") else []) + list(add))
            return s
        if name == "compare" and len(vals) == 1 and (isinstance(vals[0], Str) or is_ptr(vals[0])):
            o = vals[0].bytes() if isinstance(vals[0], Str) else self.cstr_bytes(vals[0], e)
            a = s.bytes()
            m = min(len(a), len(o))
            r = self.sign_of(a[:m], o[:m])
            return r if r else (len(a) > len(o)) - (len(a) < len(o))
        self.undec("std::string::%s is not modelled" % name, e)

    def stdview_bytes(self, v, e=None):
        return self.read_n(v.f["p"], v.f["n"], e)

    def stdview_member(self, e, name, ks):
        """std::string_view itself, for code that delegates to it: the members whose definition is one line of the standard"""
        v = self.ev(ks[0]) if ks else None
        if not (isinstance(v, Obj) and v.ty == STD_VIEW):
            self.undec("std::string_view member on something that is not a std::string_view of the model", e)
        if any(a is None or a["k"] == "DefaultArg" for a in ks[1:]):
            self.undec("default argument of std::string_view::%s" % name, e)
        vals = [self.ev(a) for a in ks[1:]]
        p, n = v.f["p"], v.f["n"]
        if name in ("size", "length") and not vals:
            return n
        if name == "empty" and not vals:
            return int(n == 0)
        if name in ("data", "begin", "cbegin") and not vals:
            return p
        if name in ("end", "cend") and not vals:
            return self.it_add(p, n, e) if n else p
        if name == "compare" and len(vals) == 1 and isinstance(vals[0], Obj) and vals[0].ty == STD_VIEW:
            a, b = self.stdview_bytes(v, e), self.stdview_bytes(vals[0], e)
            m = min(len(a), len(b))
            r = self.sign_of(a[:m], b[:m])
            return r if r else (len(a) > len(b)) - (len(a) < len(b))
        if name == "substr" and len(vals) == 2 and all(isinstance(x, int) for x in vals):
            if vals[0] > n:
                raise CThrow()
            return Obj(STD_VIEW, {"p": self.it_add(p, vals[0], e) if vals[0] else p, "n": min(vals[1], n - vals[0])})
        if name in ("starts_with", "ends_with") and len(vals) == 1 and isinstance(vals[0], Obj) and vals[0].ty == STD_VIEW:
            a, b = self.stdview_bytes(v, e), self.stdview_bytes(vals[0], e)
            return int(len(b) <= len(a) and (a[:len(b)] if name == "starts_with" else a[len(a) - len(b):]) == b)
        if name == "at" and len(vals) == 1 and isinstance(vals[0], int):
            if vals[0] >= n:
                raise CThrow()
            return self.it_loc(p, e, vals[0])
        if name == "operator[]" and len(vals) == 1 and isinstance(vals[0], int):
            if vals[0] >= n:
                self.undec("std::string_view::operator[] outside the view (undefined behaviour)", e)
            return self.it_loc(p, e, vals[0])
        if name in ("front", "back") and not vals:
            if n == 0:
                self.undec("std::string_view::%s of an empty view (undefined behaviour)" % name, e)
            return self.it_loc(p, e, 0 if name == "front" else n - 1)
        self.undec("std::string_view::%s is not modelled" % name, e)

    # -- primitives of the standard library.  Each one states its precondition: a range that is handed over must be readable
    # -- completely (the standard allows the primitive to read all of it), so a byte outside the argument's memory is COutside.
    def pair_of(self, ty, vals, e):
        """std::pair<A, B>(x, y) / std::make_pair(x, y) / a copy of a pair of the same type"""
        el = pair_elems(ty)
        if el is None:
            self.undec("construction of %s" % ty, e)
        if len(vals) == 2:
            f = {}
            for name, v, t in zip(("first", "second"), vals, el):
                if isinstance(v, int) and not isinstance(v, bool) and bare_ty(t) in INT_MODEL:
                    v = self.conv(v, t, e)
                elif not (is_ptr(v) and bare_ty(t).endswith("*")):
                    self.undec("element of %s" % ty, e)
                f[name] = v
            return Obj(bare_ty(ty), f)
        if len(vals) == 1 and isinstance(vals[0], Obj) and vals[0].ty == bare_ty(ty):
            return vals[0].copy()
        self.undec("construction of %s" % ty, e)

    def b_make_pair(self, e, ks):
        return self.pair_of(e.get("ty"), [self.ev(k) for k in ks], e)

    def b_minmax(self, e, ks):
        if len(ks) != 2:
            self.undec("std::min / std::max with a comparator or an initializer list", e)
        x, y = self.ev(ks[0]), self.ev(ks[1])
        if not (isinstance(x, int) and isinstance(y, int)):
            self.undec("std::min / std::max of non-integers", e)
        if e["callee"]["name"] == "min":
            return y if y < x else x
        return y if x < y else x

    def b_traits_compare(self, e, ks):
        if len(ks) != 3:
            self.undec("arity of %s" % e["callee"]["qname"], e)
        p, q, n = self.ev(ks[0]), self.ev(ks[1]), self.ev(ks[2])
        if not isinstance(n, int):
            self.undec("length that is not an integer", e)
        return self.sign_of(self.read_n(p, n, e), self.read_n(q, n, e))

    def b_strlen(self, e, ks):
        return len(self.cstr_bytes(self.ev(ks[0]), e))

    def b_strcmp(self, e, ks):
        """strcmp / strncmp: the characters are compared one after the other up to the first difference, the first NUL or n"""
        lim = None
        if e["callee"]["name"] == "strncmp":
            lim = self.ev(ks[2])
            if not isinstance(lim, int):
                self.undec("length that is not an integer", e)
        p, q = self.ev(ks[0]), self.ev(ks[1])
        if not (is_ptr(p) and is_ptr(q)):
            self.undec("a C string primitive on something that is not a pointer", e)
        i = 0
        while lim is None or i < lim:
            if p[1] is None or q[1] is None:
                raise COutside("the target of a null pointer")
            a, b = p[1].get(p[2] + i), q[1].get(q[2] + i)
            if a != b:
                return self.sign_of([a], [b])
            if a == 0:
                break
            i += 1
        self.used_mag = True
        return 0

    def b_traits_find(self, e, ks):
        nm = e["callee"]["qname"]
        p, a, b = self.ev(ks[0]), self.ev(ks[1]), self.ev(ks[2])
        n, c = (a, b) if nm == "std::char_traits::find" else (b, a)
        if not (isinstance(n, int) and isinstance(c, int) and is_ptr(p)):
            self.undec("arguments of %s" % nm, e)
        c &= 0xFF
        if nm != "std::char_traits::find":
            # memchr reads the bytes one after the other and stops at the first match (C11 7.24.5.1)
            for i in range(min(n, 1 << 16)):
                if p[1] is None:
                    raise COutside("the target of a null pointer")
                if p[1].get(p[2] + i) == c:
                    return self.it_add(p, i)
            return NULLP
        for i, x in enumerate(self.read_n(p, n, e)):
            if x == c:
                return self.it_add(p, i)
        return NULLP

    def b_traits_length(self, e, ks):
        return len(self.cstr_bytes(self.ev(ks[0]), e))

    def b_traits_eq(self, e, ks):
        a, b = self.ev(ks[0]), self.ev(ks[1])
        if not (isinstance(a, int) and isinstance(b, int)):
            self.undec("char_traits::eq / lt of non-characters", e)
        if e["callee"]["name"] == "eq":
            return int((a & 0xFF) == (b & 0xFF))
        return int((a & 0xFF) < (b & 0xFF))

    def b_to_int(self, e, ks):
        a = self.ev(ks[0])
        if not isinstance(a, int):
            self.undec("char_traits::to_int_type of a non-character", e)
        return a & 0xFF

    def two_ranges(self, e, ks):
        vals = [self.ev(a) for a in ks]
        if len(vals) not in (3, 4) or not all(isinstance(v, tuple) and v[0] in ("p", "r") for v in vals):
            self.undec("%s with a predicate or on something that is not an iterator" % e["callee"]["qname"], e)
        a = self.range_bytes(vals[0], vals[1], e)
        if len(vals) == 4:
            return a, self.range_bytes(vals[2], vals[3], e), True
        return a, self.read_n(vals[2], len(a), e), False

    def b_equal(self, e, ks):
        a, b, four = self.two_ranges(e, ks)
        return int(a == b)

    def b_lexcmp(self, e, ks):
        a, b, four = self.two_ranges(e, ks)
        if not four:
            self.undec("arity of std::lexicographical_compare", e)
        t = bare_ty(ks[0].get("ty"))
        if t not in ("char *", "unsigned char *", "std::reverse_iterator<const char *>", "__gnu_cxx::__normal_iterator<const char *, std::basic_string<char>>"):
            self.undec("element type of the range of std::lexicographical_compare", e)
        if t != "unsigned char *":
            a, b = [x - 256 if x >= 128 else x for x in a], [x - 256 if x >= 128 else x for x in b]     # operator< of (signed) char
        return int(a < b)

    def b_distance(self, e, ks):
        a, b = self.ev(ks[0]), self.ev(ks[1])
        return self.it_diff(b, a, e)

    def b_next(self, e, ks):
        vals = [self.ev(a) for a in ks if a is not None and a["k"] != "DefaultArg"]
        n = vals[1] if len(vals) == 2 else 1
        if not vals or not isinstance(n, int):
            self.undec("arguments of std::next / std::prev", e)
        return self.it_add(vals[0], n if e["callee"]["name"] == "next" else -n, e)

    def b_advance(self, e, ks):
        loc, n = self.raw(ks[0]), self.ev(ks[1])
        if not isinstance(n, int):
            self.undec("arguments of std::advance", e)
        self.store(loc, self.it_add(self.load(loc, None, e), n, e), e)
        return None

    def b_swap(self, e, ks):
        a, b = self.raw(ks[0]), self.raw(ks[1])
        if not (is_loc(a) and is_loc(b)):
            self.undec("std::swap of objects", e)
        x, y = self.load(a, ks[0].get("ty"), e), self.load(b, ks[1].get("ty"), e)
        if isinstance(x, (Obj, Str)) or isinstance(y, (Obj, Str)):
            self.undec("std::swap of objects", e)
        self.store(a, y, e)
        self.store(b, x, e)
        return None

    def write_n(self, dst, bs, e):
        if not is_ptr(dst):
            self.undec("output through something that is not a pointer", e)
        if bs and dst[1] is None:
            raise COutside("the target of a null pointer")
        for i, c in enumerate(bs):
            dst[1].put(dst[2] + i, c)

    def b_copy(self, e, ks):
        vals = [self.ev(a) for a in ks]
        nm = e["callee"]["name"]
        if nm in ("copy", "move") and len(vals) == 3 and e["callee"]["qname"].startswith("std::") and "char_traits" not in e["callee"]["qname"]:
            bs = self.range_bytes(vals[0], vals[1], e)
            self.write_n(vals[2], bs, e)
            return self.it_add(vals[2], len(bs), e)
        if nm == "copy_n" and len(vals) == 3 and isinstance(vals[1], int):
            bs = self.read_n(vals[0], vals[1], e)
            self.write_n(vals[2], bs, e)
            return self.it_add(vals[2], len(bs), e)
        if len(vals) == 3 and isinstance(vals[2], int):       # memcpy / memmove / char_traits::copy / move (dst, src, n)
            bs = self.read_n(vals[1], vals[2], e)
            self.write_n(vals[0], bs, e)
            return vals[0]
        self.undec("arguments of %s" % e["callee"]["qname"], e)

    def b_all_any(self, e, ks):
        first, last, f = self.ev(ks[0]), self.ev(ks[1]), self.ev(ks[2])
        n = self.it_diff(last, first, e)
        if n < 0:
            self.undec("[first, last) is not a valid range", e)
        nm = e["callee"]["name"]
        for i in range(n):
            it = self.it_add(first, i)
            c = self.load(self.it_loc(it, e), "char", e)
            if isinstance(f, int):
                t = (c & 0xFF) == (f & 0xFF)
            else:
                r = self.call_value(f, [c], e)
                t = r != 0 if isinstance(r, int) else self.undec("predicate result", e)
            if nm in ("find_if", "find") and t:
                return it
            if nm == "find_if_not" and not t:
                return it
            if nm == "all_of" and not t:
                return 0
            if nm == "any_of" and t:
                return 1
            if nm == "none_of" and t:
                return 0
        return last if nm in ("find_if", "find_if_not", "find") else int(nm != "any_of")

    def b_search(self, e, ks):
        """std::search / std::find_end / std::find_first_of (first, last, s_first, s_last) without a predicate: both ranges must be
        readable completely; -> the iterator of the first range the standard defines (last if there is none)"""
        vals = [self.ev(a) for a in ks]
        nm = e["callee"]["name"]
        if len(vals) != 4 or not all(isinstance(v, tuple) and v[0] in ("p", "r") for v in vals) or vals[0][0] != vals[1][0] or vals[2][0] != vals[3][0]:
            self.undec("%s with a predicate or on something that is not a pair of iterator ranges" % e["callee"]["qname"], e)
        hay, pat = self.range_bytes(vals[0], vals[1], e), self.range_bytes(vals[2], vals[3], e)
        if nm == "find_first_of":
            hits = [i for i, c in enumerate(hay) if c in pat]
        else:
            hits = [i for i in range(len(hay) - len(pat) + 1) if hay[i:i + len(pat)] == pat]
            if nm == "find_end":
                if not pat:
                    return vals[1]               # an empty [s_first, s_last): last
                hits = hits[::-1]
        return self.it_add(vals[0], hits[0], e) if hits else vals[1]

    BUILTINS = {"std::min": b_minmax, "std::max": b_minmax, "std::make_pair": b_make_pair,
                "std::char_traits::compare": b_traits_compare, "memcmp": b_traits_compare, "std::memcmp": b_traits_compare,
                "strlen": b_strlen, "std::strlen": b_strlen, "std::char_traits::length": b_traits_length,
                "strcmp": b_strcmp, "std::strcmp": b_strcmp, "strncmp": b_strcmp, "std::strncmp": b_strcmp,
                "std::char_traits::find": b_traits_find, "memchr": b_traits_find, "std::memchr": b_traits_find,
                "std::char_traits::eq": b_traits_eq, "std::char_traits::lt": b_traits_eq, "std::char_traits::to_int_type": b_to_int,
                "std::equal": b_equal, "std::lexicographical_compare": b_lexcmp, "std::distance": b_distance,
                "std::next": b_next, "std::prev": b_next, "std::advance": b_advance, "std::swap": b_swap,
                "std::copy": b_copy, "std::copy_n": b_copy, "memcpy": b_copy, "std::memcpy": b_copy, "memmove": b_copy, "std::memmove": b_copy,
                "std::char_traits::copy": b_copy, "std::char_traits::move": b_copy,
                "std::find_if": b_all_any, "std::find_if_not": b_all_any, "std::find": b_all_any, "std::all_of": b_all_any,
                "std::any_of": b_all_any, "std::none_of": b_all_any,
                "std::search": b_search, "std::find_end": b_search, "std::find_first_of": b_search}

    # ------------------------------------------------------------ statements
    def run(self, s):
        if s is None:
            return
        self.steps += 1
        if self.steps > self.MAX_STEPS:
            self.undec("step budget of the evaluation exhausted", s)
        k = s["k"]
        if k == "CompoundStmt":
            for c in kids(s):
                self.run(c)
            return
        if k == "ReturnStmt":
            raise _CRet(self.raw(kids(s)[0]) if kids(s) and kids(s)[0] is not None else None)
        if k == "IfStmt":
            if "init" in s or "condvar" in s or s.get("constexpr"):
                self.undec("if with a declaration", s)
            c, t, e = (kids(s) + [None])[:3]
            if self.truth(c):
                self.run(t)
            elif e is not None:
                self.run(e)
            return
        if k == "DeclStmt":
            for v in kids(s):
                self.declare(v, s)
            return
        if k == "NullStmt":
            return
        if k in ("ForStmt", "WhileStmt", "DoStmt"):
            if "condvar" in s:
                self.undec("loop with a condition variable", s)
            init, cond, inc, body = match.loop_parts(s)
            if init is not None:
                self.run(init)
            first = k == "DoStmt"
            while True:
                self.steps += 1
                if self.steps > self.MAX_STEPS:
                    self.undec("step budget of the evaluation exhausted (loop)", s)
                if not first and cond is not None and not self.truth(cond):
                    return
                first = False
                try:
                    self.run(body)
                except _Break:
                    return
                except _Continue:
                    pass
                if inc is not None:
                    self.raw(inc)
        if k == "CXXForRangeStmt":
            return self.range_for(s)
        if k == "BreakStmt":
            raise _Break()
        if k == "ContinueStmt":
            raise _Continue()
        if k == "SwitchStmt":
            plan = switch_plan(s)
            if plan is None:
                self.undec("switch with labels inside nested statements", s)
            v = self.ev(plan[0])
            if not isinstance(v, int):
                self.undec("switch on a non-integer", s)
            start = plan[2].get(v, plan[3])
            if start is None:
                return
            try:
                for st in plan[1][start:]:          # from the label on, falling through the labels that follow
                    self.run(st)
            except _Break:
                pass
            return
        if k in ("GotoStmt", "LabelStmt", "CXXTryStmt", "AttributedStmt", "CaseStmt", "DefaultStmt"):
            self.undec("%s is not modelled" % k, s)
        self.raw(s)

    def declare(self, v, s):
        if v is None or v["k"] != "VarDecl" or v.get("static"):
            self.undec("declaration that is not a plain local variable", s)
        init = kids(v)[0] if kids(v) else None
        arr = re.match(r"^(?:const\s+)?([A-Za-z_ 0-9]+?)\s*\[(\d+)\]$", v.get("ty") or "")
        if arr:
            # a local array of byte-sized integers (a membership table): a block of memory of its own; the variable stands for the
            # pointer to its first element.  = { a, b } names the first elements, the others are zero; without an initialiser no
            # element has a value yet
            et, n = bare_ty(arr.group(1)), int(arr.group(2))
            if et not in INT_MODEL or INT_MODEL[et][0] > 8 or not 0 < n <= 4096:
                self.undec("local array of type %s" % v.get("ty"), s)
            if init is None:
                cells = [UNINIT] * n
            elif init["k"] == "InitListExpr" and len(kids(init)) <= n and all(x is not None and x["k"] != "ImplicitValueInitExpr" for x in kids(init)):
                vals = [self.ev(x) for x in kids(init)]
                if not all(isinstance(x, int) for x in vals):
                    self.undec("initialiser of the array %s" % v.get("name"), s)
                cells = [x & 0xFF for x in vals] + [0] * (n - len(vals))
            else:
                self.undec("initialiser of the array %s" % v.get("name"), s)
            self.env[v["did"]] = ("vl", [("p", Block(cells, "the local array %s" % v.get("name"), w=True), 0)])
            return
        if v.get("isref") or is_ref_ty(v.get("ty")):
            r = self.raw(init)
            self.env[v["did"]] = r if is_loc(r) else ("vl", [r])
            return
        if init is None:
            if bare_ty(v.get("ty")) not in INT_MODEL and not bare_ty(v.get("ty")).endswith("*"):
                self.undec("object without an initialiser", s)
            self.env[v["did"]] = ("vl", [UNINIT])
            return
        val = self.ev(init)
        if isinstance(val, (Obj, Str)) and init["k"] not in ("CXXConstructExpr", "CXXTemporaryObjectExpr") and "callee" not in init:
            val = val.copy()
        self.env[v["did"]] = ("vl", [val])

    def range_for(self, s):
        rng, var, body = (kids(s) + [None, None])[:3]
        r = self.ev(rng)
        if isinstance(r, Str):
            first, n = ("p", r.blk, 0), len(r.blk.b) - 1
        elif isinstance(r, Obj) and r.ty == SV:
            first, last = self.call_member(r, "begin"), self.call_member(r, "end")
            if not (is_ptr(first) and is_ptr(last)):
                self.undec("begin() / end() of the range", s)
            n = self.it_diff(last, first, s)
            if n < 0:
                self.undec("[begin(), end()) is not a valid range", s)
        else:
            self.undec("range of the range-based for", s)
        if var is None or var["k"] != "VarDecl":
            self.undec("loop variable of the range-based for", s)
        for i in range(n):
            self.steps += 1
            if self.steps > self.MAX_STEPS:
                self.undec("step budget of the evaluation exhausted (loop)", s)
            loc = self.it_loc(self.it_add(first, i), s)
            if var.get("isref") or is_ref_ty(var.get("ty")):
                self.env[var["did"]] = loc
            else:
                self.env[var["did"]] = ("vl", [self.conv(self.load(loc, "char", s), var.get("ty"), s)])
            try:
                self.run(body)
            except _Break:
                return
            except _Continue:
                pass

    def call_member(self, obj, name):
        fn = self.members.get(name)
        if fn is None:
            c = [f for f in self.tu.find(record=SV, name=name) if not f.params and f.body is not None]
            if len(c) != 1:
                self.undec("member %s() of the view" % name)
            fn = self.members[name] = c[0]
        return self.enter(fn, obj, {})

    # ------------------------------------------------------------ entry
    def invoke(self, fn, this, args):
        """calls fn with ready-made argument values: -> ('ret', value or location) | ('throw',)"""
        if len(args) != len(fn.params):
            raise CUndec("%s takes %d parameters" % (fn.name, len(fn.params)))
        env = {p["did"]: ("vl", [v]) for p, v in zip(fn.params, args)}
        try:
            return ("ret", self.enter(fn, this, env))
        except CThrow:
            return ("throw",)
        except (_Break, _Continue):
            raise CUndec("break / continue outside a loop")
        except RecursionError:
            raise CUndec("recursion")


# ---------------------------------------------------------------- value rules: families of arguments, references, verdicts
A3 = (0x00, 0x41, 0x80)                        # a NUL byte, an ASCII byte, a byte above 0x7F
EXTRA_STRINGS = ((0x7F,), (0xFF,), (0x41, 0xFF), (0xFF, 0x41), (0x7F, 0x80), (0x41, 0x00, 0x80), (0x41, 0x00, 0x41), (0x41, 0x41, 0x41),
                 (0x41, 0x41, 0x80), (0x00, 0x00, 0x41), (0x80, 0x41, 0x00))
POS_FAMILY = (0, 1, 2, 3, 4, 1 << 31, 1 << 32, (1 << 32) + 1, 1 << 63, NPOS - 1, NPOS)
N_FAMILY = (0, 1, 2, 3, 1 << 32, (1 << 32) + 1, NPOS - 1, NPOS)
POS_N_SMALL = ((0, NPOS), (1, 1), (1, 2), (2, NPOS), (3, 0), (4, 1), (NPOS, 0), (0, 0), (1 << 32, 1), (0, (1 << 32) + 1), (1, NPOS - 1))
THIS_SMALL = ((), (0x41,), (0x41, 0x80), (0x00, 0x41, 0x80), (0x80, 0x41, 0x00))
OTHER_SMALL = ((), (0x41,), (0x80,), (0x00,), (0x41, 0x80), (0x41, 0x00), (0x41, 0x41), (0x00, 0x41, 0x80))
DISTINCT = (0x41, 0x00, 0x80, 0xFF)            # views of distinct bytes: the byte tells its index
CHARS = (0x00, 0x41, 0x7F, 0x80, 0xFF)


def byte_strings(maxlen, alpha=A3):
    import itertools
    return [t for n in range(maxlen + 1) for t in itertools.product(alpha, repeat=n)]


def value_strings(tier):
    out = byte_strings(3 if tier == "thorough" else 2)
    return out + [t for t in EXTRA_STRINGS if t not in out]


def fmt_bytes(bs):
    if bs is None:
        return "StringView()"
    return '"' + "".join(chr(c) if 0x20 <= c < 0x7F and c not in (0x22, 0x5C) else "\\x%02x" % c for c in bs) + '"'


def fmt_int(v):
    for base, nm in ((NPOS, "npos"), (1 << 63, "2^63"), (1 << 32, "2^32"), (1 << 31, "2^31")):
        if base - 2 <= v <= base + 2 and v <= NPOS:
            return nm if v == base else "%s%+d" % (nm, v - base)
    return str(v)


def make_view(bs):
    if bs is None:                          # the default-constructed view: (nullptr, 0)
        return Obj(SV, {"ptr_": NULLP, "size_": 0})
    return Obj(SV, {"ptr_": ("p", Block(list(bs), "the view " + fmt_bytes(bs)), 0), "size_": len(bs)})


def with_null(strings):
    """pairs (a, b) of the family, and the default-constructed view (None) against every member of it, either side"""
    for a in strings:
        for b in strings:
            yield a, b
    for b in [None] + list(strings):
        yield None, b
        if b is not None:
            yield b, None


def make_cstr(bs):
    return ("p", Block(list(bs) + [0], "the C string " + fmt_bytes(bs)), 0)


def make_arg(ty, bs):
    """an argument of the parameter type ty that stands for the byte string bs"""
    t = bare_ty(ty)
    if t == SV:
        return make_view(bs)
    if t == STD_STRING:
        return Str(bs)
    if t == "char *":
        return make_cstr(bs)
    raise CUndec("parameter type %s" % ty)


# -- operands that share storage.  std::string_view's members are functions of the BYTES of their operands: whether two operands
# -- lie in one buffer or in two must not change any answer.  The families above build every operand from a buffer of its own, so
# -- a pointer of one never equals a pointer of the other; the families below put both into ONE memory block: every pair of
# -- sub-ranges of a small buffer (same start with different lengths, the same range twice, the object itself, nested, overlapping
# -- at an offset, adjacent), a view of a C string buffer against a pointer into that buffer, a view of a std::string's bytes
# -- against that std::string.  The reference stays the comparison of the byte tuples.
ALIAS_EXTRA = ((0x41, 0x41, 0x41), (0x41, 0x00, 0x80), (0x41, 0x80, 0x41))
ALIAS_EXTRA_THOROUGH = ((0x41, 0x41, 0x41, 0x41), (0x41, 0x80, 0x41, 0x80))


def alias_buffers(tier):
    out = [t for t in byte_strings(3 if tier == "thorough" else 2) if t]
    return out + [t for t in ALIAS_EXTRA + (ALIAS_EXTRA_THOROUGH if tier == "thorough" else ()) if t not in out]


def subranges(L):
    return [(o, n) for o in range(L + 1) for n in range(L - o + 1)]


def view_into(blk, o, n):
    return Obj(SV, {"ptr_": ("p", blk, o), "size_": n})


def aliased(tier, second="V"):
    """pairs of operands in one memory block: -> (bytes of the first, bytes of the second, description, factory of the pair).
    second = 'V': two views into one buffer; 'S': a view into a NUL-terminated buffer and a pointer into the same buffer (the C
    string from there on); 'T': a view of the bytes of a std::string and that std::string"""
    for buf in alias_buffers(tier):
        L = len(buf)
        if second == "V":
            rs = subranges(L)
            for o1, n1 in rs:
                for o2, n2 in rs:
                    def mk(buf=buf, o1=o1, n1=n1, o2=o2, n2=n2):
                        blk = Block(list(buf), "the buffer " + fmt_bytes(buf))
                        return view_into(blk, o1, n1), view_into(blk, o2, n2)
                    mk.same = (o1, n1) == (o2, n2)
                    yield (buf[o1:o1 + n1], buf[o2:o2 + n2], "the bytes [%d, %d) and [%d, %d) of one buffer %s" % (o1, o1 + n1, o2, o2 + n2, fmt_bytes(buf)), mk)
        elif second == "S":
            if 0 in buf:
                continue
            full = buf + (0,)
            for o1, n1 in subranges(L + 1):
                for o2 in range(L + 1):
                    def mk(buf=buf, full=full, o1=o1, n1=n1, o2=o2):
                        blk = Block(list(full), "the C string " + fmt_bytes(buf))
                        return view_into(blk, o1, n1), ("p", blk, o2)
                    yield (full[o1:o1 + n1], buf[o2:], "the bytes [%d, %d) of the C string buffer %s and the pointer to its byte %d" % (o1, o1 + n1, fmt_bytes(buf), o2), mk)
        else:
            for o1, n1 in subranges(L):
                def mk(buf=buf, o1=o1, n1=n1):
                    s = Str(buf)
                    return view_into(s.blk, o1, n1), s
                yield (buf[o1:o1 + n1], buf, "the bytes [%d, %d) of the std::string %s and that std::string" % (o1, o1 + n1, fmt_bytes(buf)), mk)


def by_value(fn, i, v):
    """the argument object v for parameter i of fn: a parameter that is not a reference gets an object of its own"""
    return v if is_ref_ty(fn.params[i]["ty"]) or not isinstance(v, (Obj, Str)) else v.copy()


def ref_cmp(a, b):
    """std::string_view::compare: the bytes as unsigned char, a proper prefix is smaller"""
    a, b = tuple(a or ()), tuple(b or ())
    return (a > b) - (a < b)


def ref_substr(a, pos, n):
    """std::string_view::substr: None = throws std::out_of_range"""
    if pos > len(a):
        return None
    return tuple(a[pos:pos + min(n, len(a) - pos)])


def norm_sign(ce, v, this, args):
    if not isinstance(v, int):
        raise CUndec("the result is not an integer")
    return (v > 0) - (v < 0)


def norm_bool(ce, v, this, args):
    if v not in (0, 1) or not isinstance(v, int):
        raise CUndec("the result is not a bool")
    return bool(v)


def norm_byte(ce, v, this, args):
    """which byte of the view the result is: a reference into the memory of the view, or (returned by value) its value"""
    blk = this.f["ptr_"][1]
    if isinstance(v, tuple) and v[0] == "bl":
        if v[1] is not blk:
            raise CUndec("a reference to memory that is not the view's")
        return v[2]
    if isinstance(v, int) and [c for c in blk.b if c == v & 0xFF] == [v & 0xFF]:
        return blk.b.index(v & 0xFF)
    raise CUndec("the result is not a character of the view")


def norm_remaining(ce, v, this, args):
    p, n = this.f["ptr_"], this.f["size_"]
    if not (is_ptr(p) and isinstance(n, int)):
        raise CUndec("the members of the view after the call")
    if n == 0:
        return ()
    if p[1] is None:
        raise COutside("the target of a null pointer")
    return tuple(p[1].get_n(p[2], n))


def norm_string(ce, v, this, args):
    if not isinstance(v, Str):
        raise CUndec("the result is not a std::string")
    return tuple(v.bytes())


SHOW_SIGN = {-1: "a negative value", 0: "0", 1: "a positive value"}


def show_sign(x):
    return SHOW_SIGN[x]


def show_bool(x):
    return "true" if x else "false"


def show_byte(x):
    return "byte %s of the view" % fmt_int(x)


def show_bytes(x):
    return "%s (%d byte%s)" % (fmt_bytes(x), len(x), "" if len(x) == 1 else "s")


def value_outcome(tu, fn, mk, norm, mag):
    this, args = mk()
    ce = ConcEval(tu, mag)
    try:
        r = ce.invoke(fn, this, args)
        if r[0] == "throw":
            return ("throw",), ce.used_mag
        return ("val", norm(ce, r[1], this, args)), ce.used_mag
    except COutside as o:
        return ("outside", o.what), ce.used_mag


def run_value_cases(ck, tu, rule, fn, where, cases, norm, show, what, std):
    """cases: iterable of (text of the call, factory of (this, arguments), expected value | None = throws).  The first case whose
    evaluated outcome differs from the reference is reported; a case that cannot be evaluated makes the function 'cannot decide'."""
    n = 0
    undecided = None
    for text, mk, want in cases:
        n += 1
        want = ("throw",) if want is None else ("val", want)
        try:
            got, used = value_outcome(tu, fn, mk, norm, "diff")
            if got != want and used:
                # the standard fixes only the sign of what the three-way primitives return (here: the difference of the first two
                # bytes that differ, as the usual memcmp gives it; then -1 / +1): the verdict must not depend on the magnitude
                if value_outcome(tu, fn, mk, norm, "unit")[0] == want:
                    raise CUndec("the outcome depends on the magnitude of the value a compare primitive returns (the standard fixes its sign only)")
        except CUndec as u:
            # this case is not decided.  A later case that evaluates completely and differs from the reference is evidence all the
            # same (e.g. an ordering of the operands' pointers is unspecified for two buffers and wrong for one); if there is none,
            # the function is 'cannot decide'
            if undecided is None:
                undecided = "%s: %s cannot be evaluated on %s: %s" % (fn.loc, sig(fn), text, u)
            if "budget" in str(u):
                break                           # an evaluation that does not come to an end: not once per case
            continue
        if got != want:
            def f(o):
                return "throws" if o[0] == "throw" else "reads %s, outside %s," % (o[1], "that array" if "the local array" in o[1] else "the memory of its arguments") \
                    if o[0] == "outside" else "gives %s" % show(o[1])
            ck.violation(rule, fn.qname, sig(fn), "%s %s where %s %s" % (text, f(got), std, f(want).rstrip(",")), fn.loc)
            return
    if undecided is not None:
        raise dtable.Undecidable(undecided)
    ck.ok(rule, where, "%d concrete cases (%s): every result agrees with %s" % (n, what, std), sample=dict(rule=rule, fn=sig(fn), cases=n))
    ck.states += n


def shape_of(fn):
    """parameter types of fn, normalised: 'V' a StringView, 'I' size_t, 'S' const char*, 'C' char, 'T' std::string, '?' anything else"""
    out = ""
    for p in fn.params:
        t = bare_ty(p["ty"])
        out += "V" if t == SV else "I" if t in UNSIGNED64 else "S" if t == "char *" and "const char *" in p["ty"] else "C" if t == "char" else "T" if t == STD_STRING else "?"
    return out


def pick(tu, what, pred, shapes, optional=()):
    """the functions selected by pred, keyed by their parameter shape: every shape of shapes exactly once, those of optional at
    most once, no other one"""
    found = {}
    for f in tu.functions:
        if pred(f):
            s = shape_of(f)
            if s in found or s not in tuple(shapes) + tuple(optional) or f.body is None:
                raise dtable.Undecidable("%s: unexpected overload of %s: %s" % (f.loc, what, sig(f)))
            found[s] = f
    missing = [s for s in shapes if s not in found]
    if missing:
        raise dtable.Undecidable("%s: the overload(s) with the parameter shape(s) %s are not there (V view, I size_t, S const char*, C char, T std::string)"
                                 % (what, ", ".join(repr(s) for s in missing)))
    return found


ALIAS_POS_N = ((0, NPOS), (0, 1), (1, 1), (1, NPOS), (2, 1), (3, 0))


def compare_cases(shape, strings, tier="quick"):
    """arguments and reference for one overload of compare(); roles by position and type as std::string_view fixes them:
    ([pos1, n1,] x [, pos2, n2 | , n2]).  After the operands with buffers of their own: the operands that share storage"""
    cstrs = [s for s in strings or () if 0 not in s]
    if strings is None and shape in ("V", "S"):
        return
    if shape == "V":
        for a, b in with_null(strings):
            yield "%s.compare(%s)" % (fmt_bytes(a), fmt_bytes(b)), (lambda a=a, b=b: (make_view(a), [make_view(b)])), ref_cmp(a, b)
        for a, b, note, mk in aliased(tier):
            yield "%s.compare(%s) with %s" % (fmt_bytes(a), fmt_bytes(b), note), (lambda mk=mk: (lambda p: (p[0], [p[1]]))(mk())), ref_cmp(a, b)
    elif shape == "S":
        for a in strings:
            for b in cstrs:
                yield "%s.compare(C string %s)" % (fmt_bytes(a), fmt_bytes(b)), (lambda a=a, b=b: (make_view(a), [make_cstr(b)])), ref_cmp(a, b)
        for a, b, note, mk in aliased(tier, "S"):
            yield "%s.compare(C string %s) with %s" % (fmt_bytes(a), fmt_bytes(b), note), (lambda mk=mk: (lambda p: (p[0], [p[1]]))(mk())), ref_cmp(a, b)
    elif shape in ("IIV", "IIS") and strings is None:
        for a, b, note, mk in aliased("quick", "V" if shape == "IIV" else "S"):
            for pos, n in ALIAS_POS_N:
                sub = ref_substr(a, pos, n)
                yield ("%s.compare(%s, %s, %s%s) with %s" % (fmt_bytes(a), fmt_int(pos), fmt_int(n), "C string " if shape == "IIS" else "", fmt_bytes(b), note),
                       (lambda mk=mk, pos=pos, n=n: (lambda p: (p[0], [pos, n, p[1]]))(mk())), None if sub is None else ref_cmp(sub, b))
    elif shape == "IIVII" and strings is None:
        for a, b, note, mk in aliased("quick"):
            for p1, n1 in ALIAS_POS_N[:4]:
                for p2, n2 in ALIAS_POS_N[:4]:
                    s1, s2 = ref_substr(a, p1, n1), ref_substr(b, p2, n2)
                    yield ("%s.compare(%s, %s, %s, %s, %s) with %s" % (fmt_bytes(a), fmt_int(p1), fmt_int(n1), fmt_bytes(b), fmt_int(p2), fmt_int(n2), note),
                           (lambda mk=mk, p1=p1, n1=n1, p2=p2, n2=n2: (lambda p: (p[0], [p1, n1, p[1], p2, n2]))(mk())),
                           None if s1 is None or s2 is None else ref_cmp(s1, s2))
    elif shape == "IISI" and strings is None:
        for a, b, note, mk in aliased("quick", "S"):
            for p1, n1 in ALIAS_POS_N[:4]:
                for n2 in range(len(b) + 2):
                    s1 = ref_substr(a, p1, n1)
                    yield ("%s.compare(%s, %s, buffer %s, %d) with %s" % (fmt_bytes(a), fmt_int(p1), fmt_int(n1), fmt_bytes(b + (0,)), n2, note),
                           (lambda mk=mk, p1=p1, n1=n1, n2=n2: (lambda p: (p[0], [p1, n1, p[1], n2]))(mk())),
                           None if s1 is None else ref_cmp(s1, (b + (0,))[:n2]))
    elif shape in ("IIV", "IIS"):
        for a in THIS_SMALL:
            for b in (OTHER_SMALL if shape == "IIV" else [s for s in OTHER_SMALL if 0 not in s]):
                for pos in POS_FAMILY:
                    for n in N_FAMILY:
                        sub = ref_substr(a, pos, n)
                        yield ("%s.compare(%s, %s, %s%s)" % (fmt_bytes(a), fmt_int(pos), fmt_int(n), "C string " if shape == "IIS" else "", fmt_bytes(b)),
                               (lambda a=a, b=b, pos=pos, n=n: (make_view(a), [pos, n, make_view(b) if shape == "IIV" else make_cstr(b)])),
                               None if sub is None else ref_cmp(sub, b))
    elif shape == "IIVII":
        for a in THIS_SMALL:
            for b in OTHER_SMALL[::2]:
                for p1, n1 in POS_N_SMALL:
                    for p2, n2 in POS_N_SMALL:
                        s1, s2 = ref_substr(a, p1, n1), ref_substr(b, p2, n2)
                        yield ("%s.compare(%s, %s, %s, %s, %s)" % (fmt_bytes(a), fmt_int(p1), fmt_int(n1), fmt_bytes(b), fmt_int(p2), fmt_int(n2)),
                               (lambda a=a, b=b, p1=p1, n1=n1, p2=p2, n2=n2: (make_view(a), [p1, n1, make_view(b), p2, n2])),
                               None if s1 is None or s2 is None else ref_cmp(s1, s2))
    elif shape == "IISI":
        for a in THIS_SMALL:
            for b in OTHER_SMALL:
                for p1, n1 in POS_N_SMALL:
                    for n2 in range(len(b) + 2):                 # [x, x + n2) is readable up to and including the terminating NUL
                        s1 = ref_substr(a, p1, n1)
                        yield ("%s.compare(%s, %s, buffer %s, %d)" % (fmt_bytes(a), fmt_int(p1), fmt_int(n1), fmt_bytes(b + (0,)), n2),
                               (lambda a=a, b=b, p1=p1, n1=n1, n2=n2: (make_view(a), [p1, n1, make_cstr(b), n2])),
                               None if s1 is None else ref_cmp(s1, (b + (0,))[:n2]))


def check_compare_value(ck, tu):
    shapes = ("V", "IIV", "IIVII", "S", "IIS", "IISI")
    fns = pick(tu, SV + "::compare", lambda f: f.record == SV and f.name == "compare", shapes)
    strings = value_strings(ck.tier)
    for shape in shapes:
        fn = fns[shape]
        ck.guarded(lambda fn=fn, shape=shape: run_value_cases(
            ck, tu, "COMPARE-VALUE", fn, SV + "::" + sig(fn), itertools.chain(compare_cases(shape, strings, ck.tier), compare_cases(shape, None)), norm_sign, show_sign,
            "views / C strings over {00, 41, 80, 7f, ff} incl. prefixes of each other, pos / n around the size, at 2^31, 2^32, 2^63 and npos; "
            "operands with buffers of their own, then operands that share one buffer (every pair of sub-ranges; a view of a C string buffer against a pointer into it)",
            "std::string_view::compare"))


REL_OPS = ("==", "!=", "<", ">", "<=", ">=")


def check_operator_value(ck, tu):
    strings = value_strings(ck.tier)
    small = value_strings("quick")
    for op in REL_OPS:
        def one(op=op):
            members = pick(tu, SV + "::operator" + op, lambda f: f.record == SV and f.kind == "operator" and f.d.get("op") == op, ("V",))
            free = pick(tu, "tlx::operator" + op, lambda f: f.record is None and f.kind == "operator" and f.d.get("op") == op and f.qname == "tlx::operator" + op
                        and any(bare_ty(p["ty"]) == SV for p in f.params), ("VT", "TV", "VS", "SV"))
            want = REL[op]
            fn = members["V"]

            def member_cases():
                for a, b in with_null(strings):
                    yield "%s %s %s" % (fmt_bytes(a), op, fmt_bytes(b)), (lambda a=a, b=b: (make_view(a), [make_view(b)])), bool(want(ref_cmp(a, b)))
                for a, b, note, mk in aliased(ck.tier):
                    yield "%s %s %s with %s" % (fmt_bytes(a), op, fmt_bytes(b), note), (lambda mk=mk: (lambda p: (p[0], [p[1]]))(mk())), bool(want(ref_cmp(a, b)))
                    if mk.same:
                        # the same range twice: also as one object on both sides (x == x)
                        yield ("x %s x for the view x = %s" % (op, fmt_bytes(a)), (lambda mk=mk: (lambda p: (p[0], [by_value(fn, 0, p[0])]))(mk())), bool(want(0)))
            ck.guarded(lambda: run_value_cases(ck, tu, "OPERATOR-VALUE", fn, SV + "::" + sig(fn), member_cases(), norm_bool, show_bool,
                                               "pairs of views over {00, 41, 80, 7f, ff} incl. prefixes of each other, each with a buffer of its own; then both "
                                               "views into one buffer (every pair of sub-ranges: same start with different lengths, nested, overlapping, the object itself)",
                                               "std::string_view's operator" + op))
            for shape in ("VT", "TV", "VS", "SV"):
                g = free[shape]

                def free_cases(g=g, shape=shape):
                    fam = [s for s in small if 0 not in s] if "S" in shape else small
                    for a in (fam if shape[0] == "S" else small):
                        for b in (fam if shape[1] == "S" else small):
                            yield ("%s%s %s %s%s" % ({"V": "", "T": "std::string ", "S": "C string "}[shape[0]], fmt_bytes(a), op,
                                                      {"V": "", "T": "std::string ", "S": "C string "}[shape[1]], fmt_bytes(b)),
                                   (lambda a=a, b=b: (None, [make_arg(g.params[0]["ty"], a), make_arg(g.params[1]["ty"], b)])), bool(want(ref_cmp(a, b))))
                    vfirst = shape[0] == "V"
                    for v, o, note, mk in aliased("quick", shape[1] if vfirst else shape[0]):
                        a, b = (v, o) if vfirst else (o, v)
                        yield ("%s%s %s %s%s with %s" % ({"V": "", "T": "std::string ", "S": "C string "}[shape[0]], fmt_bytes(a), op,
                                                          {"V": "", "T": "std::string ", "S": "C string "}[shape[1]], fmt_bytes(b), note),
                               (lambda mk=mk, vfirst=vfirst: (lambda p: (None, [by_value(g, 0, p[0] if vfirst else p[1]), by_value(g, 1, p[1] if vfirst else p[0])]))(mk())),
                               bool(want(ref_cmp(a, b))))
                ck.guarded(lambda g=g, free_cases=free_cases: run_value_cases(
                    ck, tu, "OPERATOR-VALUE", g, "tlx::" + sig(g), free_cases(), norm_bool, show_bool,
                    "a view against a std::string / C string over {00, 41, 80, 7f, ff}, either order, with memory of their own; then the view cut from "
                    "that std::string / from the buffer of that C string (every sub-range, against every pointer into the buffer)", "std::string_view's operator" + op))
        ck.guarded(one)


def check_prefix_suffix_value(ck, tu):
    strings = value_strings(ck.tier)
    for name in ("starts_with", "ends_with"):
        def one(name=name):
            fns = pick(tu, SV + "::" + name, lambda f: f.record == SV and f.name == name, ("V", "C"), optional=("S",))
            end = name == "ends_with"
            fn = fns["V"]

            def view_cases():
                for a0, b0 in with_null(strings):
                    a, b = a0 or (), b0 or ()
                    yield ("%s.%s(%s)" % (fmt_bytes(a0), name, fmt_bytes(b0)), (lambda a0=a0, b0=b0: (make_view(a0), [make_view(b0)])),
                           len(b) <= len(a) and (a[len(a) - len(b):] if end else a[:len(b)]) == b)
                for a, b, note, mk in aliased(ck.tier):
                    yield ("%s.%s(%s) with %s" % (fmt_bytes(a), name, fmt_bytes(b), note), (lambda mk=mk: (lambda p: (p[0], [p[1]]))(mk())),
                           len(b) <= len(a) and (a[len(a) - len(b):] if end else a[:len(b)]) == b)
                    if mk.same:
                        yield ("x.%s(x) for the view x = %s" % (name, fmt_bytes(a)), (lambda mk=mk: (lambda p: (p[0], [by_value(fn, 0, p[0])]))(mk())), True)
            ck.guarded(lambda: run_value_cases(ck, tu, "PREFIX-SUFFIX-VALUE", fn, SV + "::" + sig(fn), view_cases(), norm_bool, show_bool,
                                               "pairs of views over {00, 41, 80, 7f, ff}, the argument shorter, equal and longer, each with a buffer of its own; "
                                               "then both views into one buffer (every pair of sub-ranges)", "std::string_view::" + name))
            gn = fns["C"]

            def char_cases():
                for a in strings:
                    for c in CHARS:
                        yield ("%s.%s(char 0x%02x)" % (fmt_bytes(a), name, c), (lambda a=a, c=c: (make_view(a), [c - 256 if c >= 128 else c])),
                               len(a) > 0 and a[-1 if end else 0] == c)
            ck.guarded(lambda: run_value_cases(ck, tu, "PREFIX-SUFFIX-VALUE", gn, SV + "::" + sig(gn), char_cases(), norm_bool, show_bool,
                                               "views incl. the empty one against the characters 00, 41, 7f, 80, ff", "std::string_view::" + name))
            if "S" in fns:                       # the C string form, if the class has one
                hn = fns["S"]

                def cstr_cases():
                    for a in strings:
                        for b in [s for s in strings if 0 not in s]:
                            yield ("%s.%s(C string %s)" % (fmt_bytes(a), name, fmt_bytes(b)), (lambda a=a, b=b: (make_view(a), [make_cstr(b)])),
                                   len(b) <= len(a) and (a[len(a) - len(b):] if end else a[:len(b)]) == b)
                    for a, b, note, mk in aliased("quick", "S"):
                        yield ("%s.%s(C string %s) with %s" % (fmt_bytes(a), name, fmt_bytes(b), note), (lambda mk=mk: (lambda p: (p[0], [p[1]]))(mk())),
                               len(b) <= len(a) and (a[len(a) - len(b):] if end else a[:len(b)]) == b)
                ck.guarded(lambda: run_value_cases(ck, tu, "PREFIX-SUFFIX-VALUE", hn, SV + "::" + sig(hn), cstr_cases(), norm_bool, show_bool,
                                                   "views against C strings over {41, 80, 7f, ff}, then views of a C string buffer against pointers into it", "std::string_view::" + name))
        ck.guarded(one)
    for name in ("remove_prefix", "remove_suffix"):
        def two(name=name):
            fn = pick(tu, SV + "::" + name, lambda f: f.record == SV and f.name == name, ("I",))["I"]

            def cases():
                # std::string_view::remove_prefix / remove_suffix(n) are defined for n <= size() only
                for S in range(len(DISTINCT) + 1):
                    a = DISTINCT[:S]
                    for n in range(S + 1):
                        yield ("%s.%s(%d)" % (fmt_bytes(a), name, n), (lambda a=a, n=n: (make_view(a), [n])), a[n:] if name == "remove_prefix" else a[:S - n])
            run_value_cases(ck, tu, "PREFIX-SUFFIX-VALUE", fn, SV + "::" + sig(fn), cases(), norm_remaining, show_bytes,
                            "views of 0..4 distinct bytes, every n <= size(): the bytes that remain in the view", "std::string_view::" + name)
        ck.guarded(two)


def ref_find(name, a, s, pos):
    """std::string_view's find family on byte tuples: the index, or NPOS"""
    S = len(a)
    if name == "find":
        for i in range(min(pos, S + 1), S - len(s) + 1):
            if a[i:i + len(s)] == s:
                return i
        return NPOS
    if name == "rfind":
        if len(s) > S:
            return NPOS
        for i in range(min(pos, S - len(s)), -1, -1):
            if a[i:i + len(s)] == s:
                return i
        return NPOS
    fwd = name in ("find_first_of", "find_first_not_of")
    order = range(min(pos, S), S) if fwd else range(min(pos, S - 1), -1, -1)
    for i in order:
        if (a[i] in s) == (name in ("find_first_of", "find_last_of")):
            return i
    return NPOS


def norm_index(ce, v, this, args):
    if not isinstance(v, int) or isinstance(v, bool) or not 0 <= v <= NPOS:
        raise CUndec("the result is not a size_type")
    return v


def show_index(x):
    return fmt_int(x)


FIND_POS = (0, 1, 2, 3, NPOS)


def check_find_value(ck, tu):
    """FIND-VALUE: what the six find members answer when the pattern lies in the memory of the searched view - or does not"""
    strings = value_strings("quick")
    for name in sorted(DIRECTION):
        def one(name=name):
            fns = {}
            for f in tu.functions:
                if f.record == SV and f.name == name and f.body is not None and shape_of(f) in ("VI", "SI"):
                    if shape_of(f) in fns:
                        raise dtable.Undecidable("%s: two overloads %s" % (f.loc, sig(f)))
                    fns[shape_of(f)] = f
            if "VI" not in fns:
                raise dtable.Undecidable("%s::%s: the overload (StringView, size_type) is not there" % (SV, name))
            fn = fns["VI"]

            def view_cases():
                for a, s, note, mk in aliased(ck.tier):
                    for pos in FIND_POS:
                        yield ("%s.%s(%s, %s) with %s" % (fmt_bytes(a), name, fmt_bytes(s), fmt_int(pos), note),
                               (lambda mk=mk, pos=pos: (lambda p: (p[0], [p[1], pos]))(mk())), ref_find(name, a, s, pos))
                    if mk.same:
                        yield ("x.%s(x, 0) for the view x = %s" % (name, fmt_bytes(a)), (lambda mk=mk: (lambda p: (p[0], [by_value(fn, 0, p[0]), 0]))(mk())), ref_find(name, a, a, 0))
                for a in THIS_SMALL + ((0x41, 0x41, 0x80, 0x41),):
                    for s in OTHER_SMALL:
                        for pos in FIND_POS:
                            yield ("%s.%s(%s, %s)" % (fmt_bytes(a), name, fmt_bytes(s), fmt_int(pos)),
                                   (lambda a=a, s=s, pos=pos: (make_view(a), [make_view(s), pos])), ref_find(name, a, s, pos))
            ck.guarded(lambda: run_value_cases(ck, tu, "FIND-VALUE", fn, SV + "::" + sig(fn), view_cases(), norm_index, show_index,
                                               "both views into one buffer (every pair of sub-ranges of buffers over {00, 41, 80}: the pattern inside the searched view, "
                                               "overlapping it, before / behind it, the view itself), then views with buffers of their own; pos 0..3 and npos",
                                               "std::string_view::" + name))
            if "SI" in fns:
                gn = fns["SI"]

                def cstr_cases():
                    for a, s, note, mk in aliased("quick", "S"):
                        for pos in FIND_POS:
                            yield ("%s.%s(C string %s, %s) with %s" % (fmt_bytes(a), name, fmt_bytes(s), fmt_int(pos), note),
                                   (lambda mk=mk, pos=pos: (lambda p: (p[0], [p[1], pos]))(mk())), ref_find(name, a, s, pos))
                ck.guarded(lambda: run_value_cases(ck, tu, "FIND-VALUE", gn, SV + "::" + sig(gn), cstr_cases(), norm_index, show_index,
                                                   "views of a C string buffer over {41, 80} against pointers into that buffer; pos 0..3 and npos", "std::string_view::" + name))
        ck.guarded(one)


def check_element_value(ck, tu):
    def access(name, pred, shape, cases, what):
        def one():
            fn = pick(tu, SV + "::" + name, pred, (shape,))[shape]
            run_value_cases(ck, tu, "ELEMENT-ACCESS-VALUE", fn, SV + "::" + sig(fn), cases(), norm_byte, show_byte, what, "std::string_view::" + name)
        ck.guarded(one)

    def at_cases():
        for S in range(len(DISTINCT) + 1):
            a = DISTINCT[:S]
            for pos in sorted(set(POS_FAMILY + (max(S - 1, 0), S, S + 1))):
                yield "%s.at(%s)" % (fmt_bytes(a), fmt_int(pos)), (lambda a=a, pos=pos: (make_view(a), [pos])), pos if pos < S else None

    def index_cases():
        for S in range(1, len(DISTINCT) + 1):
            a = DISTINCT[:S]
            for pos in range(S):
                yield "%s[%d]" % (fmt_bytes(a), pos), (lambda a=a, pos=pos: (make_view(a), [pos])), pos

    def end_cases(last):
        def gen():
            for S in range(1, len(DISTINCT) + 1):
                a = DISTINCT[:S]
                yield "%s.%s()" % (fmt_bytes(a), "back" if last else "front"), (lambda a=a: (make_view(a), [])), S - 1 if last else 0
        return gen
    access("at", lambda f: f.record == SV and f.name == "at", "I", at_cases,
           "views of 0..4 distinct bytes, pos inside, at size() - 1, size(), size() + 1, 2^31, 2^32, 2^63, npos: the byte referred to, or the throw (iff pos >= size())")
    access("operator[]", lambda f: f.record == SV and f.kind == "operator" and f.d.get("op") == "[]", "I", index_cases,
           "views of 1..4 distinct bytes, every pos < size(): the byte referred to")
    access("front", lambda f: f.record == SV and f.name == "front", "", end_cases(False), "views of 1..4 distinct bytes: the byte referred to")
    access("back", lambda f: f.record == SV and f.name == "back", "", end_cases(True), "views of 1..4 distinct bytes: the byte referred to")


def check_tostring_value(ck, tu):
    strings = value_strings(ck.tier)
    for what, pred in (("to_string", lambda f: f.record == SV and f.name == "to_string"),
                       ("operator std::string", lambda f: f.record == SV and f.name.startswith("operator ") and f.kind != "operator"
                        and bare_ty(f.d.get("ret")) == STD_STRING)):
        def one(what=what, pred=pred):
            fn = pick(tu, SV + "::" + what, pred, ("",))[""]
            if bare_ty(fn.d.get("ret")) != STD_STRING:
                raise dtable.Undecidable("%s: %s does not return a std::string" % (fn.loc, what))

            def cases():
                for a in [None] + list(strings):
                    yield "%s.%s()" % (fmt_bytes(a), what), (lambda a=a: (make_view(a), [])), tuple(a or ())
            run_value_cases(ck, tu, "TO-STRING-VALUE", fn, SV + "::" + what, cases(), norm_string, show_bytes,
                            "views over {00, 41, 80, 7f, ff} incl. the empty one and embedded NUL bytes: the bytes and the length of the std::string",
                            "std::string(std::string_view)")
        ck.guarded(one)


def run(ck):
    ck.explanation = (
        "GUARD-TABLES: at/substr/copy and the six find-family members are evaluated on a small model (view size 0..3, pos incl. npos and "
        "npos-1, n, argument size) with 64-bit wrap-around: integers, positions of the view (pointers, iterators, reverse iterators), sub-views and "
        "bytes read from memory are the values; the evaluation follows locals, loops, early returns, private helpers and closures called in the "
        "function up to the first byte of the view that is read or the range handed to an algorithm (std::find_end = the first match of the "
        "mirrored range), and what happens there (throw / fixed answer / offset and length / start and "
        "direction of the scan) is compared with std::string_view's rules; because these prefixes are piecewise linear with unit coefficients "
        "the small model covers every ordering of (pos, size, argument size). Every later read of an evaluated path must stay inside the view as well: "
        "one outside is reported if the model point alone leads to it, or the model point and a content of the view (each branch before it tested "
        "another byte of the view for membership in the non-empty argument), otherwise it is 'cannot decide'. "
        "A difference is reported only for an evaluated point of the model; "
        "a construct the evaluation does not understand is 'cannot decide'. NO-CSTR-PRIMITIVE / BYTE-ORDER-UNSIGNED: no NUL-terminated "
        "primitive on memory of a view and no signed-char ordering inside the class; SCAN-BOUND: raw mem*/char_traits calls are limited to "
        "size_ - offset (evaluated on the same model where the shape is not the usual one); POS-REACHES-ACCESS: the first byte touched moves with "
        "pos; REL-FROM-COMPARE: truth table of the relational members over the sign of compare(); OVERLOAD-ROLES: the 18 forwarding overloads "
        "pass (pattern, pos, n) in their roles (roles by position and type); an overload that is not one straight-line call is evaluated on a small "
        "model of (pos, n / strlen(s)) incl. the constants it mentions: every path must end in a call of another overload of the member that is "
        "asked for the same bytes (constructors are evaluated from their initialiser lists) at pos. "
        "COMPARE-VALUE / OPERATOR-VALUE / PREFIX-SUFFIX-VALUE / FIND-VALUE / ELEMENT-ACCESS-VALUE / TO-STRING-VALUE: the six compare() overloads, the six member "
        "and 24 non-member comparison operators (against std::string and const char*, either order), starts_with / ends_with (view and char), "
        "remove_prefix / remove_suffix, the six find members (view, pos) / (const char*, pos) - the index they return -, "
        "front / back / operator[] / at and to_string / operator std::string are interpreted on concrete arguments "
        "(no tlx code is compiled or run: the interpreter walks the AST): integers of the LP64 types with the conversions the AST spells out "
        "(unsigned wrap-around exact, signed overflow = cannot decide), pointers as (memory block, offset), views / std::strings / "
        "std::string_views as objects with value semantics, constructors from their initialiser lists, calls of other members, helpers and "
        "closures by interpreting their bodies, the std primitives (char_traits, mem*/str*, std::equal / lexicographical_compare / copy / "
        "find_if / min / max / distance, std::string and std::string_view members) with the preconditions the standard gives them - a range "
        "handed to a primitive must be readable completely. Arguments: every byte string over {00, 41, 80} up to length 2 (3 in the thorough "
        "tier) and strings with 7f / ff as views, std::strings and (without NUL) C strings, in all pairs; the default-constructed view; views "
        "of distinct bytes; pos / n in 0..4, around size(), 2^31, 2^32, 2^32+1, 2^63, npos-1, npos. Reference: Python's comparison of the byte "
        "tuples (unsigned bytes, a proper prefix is smaller), substr = throw iff pos > size() else [pos, pos + min(n, size() - pos)), slices "
        "for prefix / suffix. A violation names the concrete call, what the evaluated code gives (value, bytes left, byte referred to, throw, "
        "or a read outside the memory of its arguments) and what std::string_view gives. The compare primitives return the byte difference "
        "in the first run; a mismatch that disappears when they return -1 / +1 is 'cannot decide' (the standard fixes the sign only). "
        "Operands that share storage: the answers depend on the bytes only, so every member with a second view / C string / std::string "
        "operand is also evaluated with both operands in one memory block - every pair of sub-ranges of small buffers (same start with "
        "different lengths, the same range, the object itself, nested, overlapping), sub-ranges of a NUL-terminated buffer against "
        "pointers into it, sub-ranges of a std::string against that std::string; equality of pointers is decided (block and offset), "
        "their ordering only inside one block; a case that cannot be evaluated does not stop the search for a case that is evaluated "
        "completely and differs. "
        "remove_prefix / remove_suffix are evaluated for n <= size() only and front / back / operator[] inside the view only: beyond that "
        "std::string_view is undefined.")
    tu = ir.extract("witness/C18_string_view.cpp")
    # a rule that cannot decide its construct (exit 2) must not hide what another rule reports
    for rule in (check_primitives, check_guards, check_pos_reaches, check_relational, check_overloads,
                 check_compare_value, check_operator_value, check_prefix_suffix_value, check_find_value, check_element_value, check_tostring_value):
        ck.guarded(lambda: rule(ck, tu))
    ck.floor("GUARD-TABLES", 9)
    ck.floor("POS-REACHES-ACCESS", 8)
    ck.floor("REL-FROM-COMPARE", 4)
    ck.floor("OVERLOAD-ROLES", 18)
    ck.floor("COMPARE-VALUE", 6)
    ck.floor("OPERATOR-VALUE", 30)
    ck.floor("PREFIX-SUFFIX-VALUE", 6)
    ck.floor("FIND-VALUE", 6)
    ck.floor("ELEMENT-ACCESS-VALUE", 4)
    ck.floor("TO-STRING-VALUE", 2)
