"""C01 — B+ tree containers vs the std ordered containers: the clauses whose truth is in the shape of
the code.  Key predicates and both in-node searches as truth tables over the user's less(); which search
every lookup descends with; the hit test; the duplicate-run walk of erase(iterator); the sibling
bookkeeping of the erase descents and the legality of every underflow resolution; node capacity
predicates for independent leaf/inner capacities; front-end flags and forwarding; iterator step twins."""
from engine import ir, dtable, match
from engine.ir import kids, walk, strip_casts, const_int, ref_of
from rules import btcommon as B
from rules import btprim

BT = B.BT


# ------------------------------------------------------------------ key predicates as truth tables
class KeyEval:
    """evaluates a boolean expression built from the tree's key predicates under a valuation of
    less(x, y) atoms; `classify(expr, bind)` names the two key operands"""

    def __init__(self, tu, classify):
        self.tu = tu
        self.classify = classify
        self.atoms_used = set()

    def truth(self, n, val, bind=None, depth=0):
        bind = bind or {}
        n = strip_casts(n)
        if depth > 6:
            raise dtable.Undecidable("key predicate nesting too deep")
        k = n["k"]
        if k == "ParenExpr":
            return self.truth(kids(n)[0], val, bind, depth)
        if k == "CXXBoolLiteralExpr":
            return bool(n["val"])
        if k == "UnaryOperator" and n.get("op") == "!":
            return not self.truth(kids(n)[0], val, bind, depth)
        if k == "BinaryOperator" and n.get("op") == "&&":
            return self.truth(kids(n)[0], val, bind, depth) and self.truth(kids(n)[1], val, bind, depth)
        if k == "BinaryOperator" and n.get("op") == "||":
            return self.truth(kids(n)[0], val, bind, depth) or self.truth(kids(n)[1], val, bind, depth)
        fc = match.functor_call(n)
        if fc is not None and len(fc[1]) == 2 and match.this_field(fc[0]) is not None:
            x = self.resolve(fc[1][0], bind)
            y = self.resolve(fc[1][1], bind)
            if x is None or y is None or x == y:
                raise dtable.Undecidable("operands of the comparator not recognised: %s" % dtable.describe(n))
            self.atoms_used.add((x, y))
            return val[(x, y)]
        if "callee" in n and n.get("member_call") and n["callee"].get("record") == BT:
            callee = self.tu.by_did.get(n["callee"]["did"])
            if callee is None or callee.body is None:
                raise dtable.Undecidable("body of %s not available" % n["callee"]["qname"])
            args = kids(n)[1:]
            nb = {}
            for p, a in zip(callee.params, args):
                nb[p["did"]] = (a, bind)
            return self.truth(B.single_return(callee), val, nb, depth + 1)
        raise dtable.Undecidable("not a key predicate: %s" % dtable.describe(n))

    def resolve(self, e, bind):
        e = strip_casts(e)
        d = ref_of(e)
        while d is not None and d in bind:
            e, bind = bind[d]
            e = strip_casts(e)
            d = ref_of(e)
        return self.classify(e)


WEAK = [  # consistent valuations of less(a,b), less(b,a) for a strict weak order
    {("a", "b"): True, ("b", "a"): False},
    {("a", "b"): False, ("b", "a"): True},
    {("a", "b"): False, ("b", "a"): False},
]

PRED_SPEC = {
    "key_less": lambda ab, ba: ab,
    "key_lessequal": lambda ab, ba: not ba,
    "key_greater": lambda ab, ba: ba,
    "key_greaterequal": lambda ab, ba: not ab,
    "key_equal": lambda ab, ba: (not ab) and (not ba),
}


def check_keypreds(ck, tu, tree):
    for name, spec in PRED_SPEC.items():
        fns = tree.find(name)
        if not fns:
            continue        # key_greater is not used by any member
        fn = fns[0]
        pa, pb = fn.params[0]["did"], fn.params[1]["did"]

        def classify(e, pa=pa, pb=pb):
            d = ref_of(e)
            return "a" if d == pa else "b" if d == pb else None
        ke = KeyEval(tu, classify)
        rows = []
        for v in WEAK:
            got = ke.truth(B.single_return(fn), v)
            want = spec(v[("a", "b")], v[("b", "a")])
            rows.append((v, got, want))
        badrows = [r for r in rows if r[1] != r[2]]
        if badrows:
            v, got, want = badrows[0]
            ck.violation("KEYPRED-TABLE", fn.qname, name,
                         "%s(a, b) yields %s for less(a,b)=%s, less(b,a)=%s; its name promises %s"
                         % (name, got, v[("a", "b")], v[("b", "a")], want), fn.loc)
        else:
            ck.ok("KEYPRED-TABLE", tree.where(fn), "3 orderings of (a, b) agree with the name")


# ------------------------------------------------------------------ in-node searches
def skip_spec(which):
    # slot s is skipped iff key(s) < key (lower)  /  iff !(key < key(s)) (upper)
    if which == "find_lower":
        return lambda sk_key, key_sk: sk_key
    return lambda sk_key, key_sk: not key_sk


SEARCH_VALS = [
    {("slot", "key"): True, ("key", "slot"): False},
    {("slot", "key"): False, ("key", "slot"): True},
    {("slot", "key"): False, ("key", "slot"): False},
]


def check_search(ck, tu, tree, fn):
    which = fn.name
    spec = skip_spec(which)
    keyp = fn.params[1]["did"]
    node = fn.params[0]["did"]

    def classify(e):
        if ref_of(e) == keyp:
            return "key"
        if "callee" in e and e["callee"]["name"] == "key" and e.get("member_call") and ref_of(kids(e)[0]) == node:
            return "slot"
        return None
    ke = KeyEval(tu, classify)
    rets = [n for n in walk(fn.body) if n["k"] == "ReturnStmt" and kids(n)]
    returned = {ref_of(kids(r)[0]) for r in rets if ref_of(kids(r)[0]) is not None}
    found = 0
    ntype = "leaf" if "LeafNode" in fn.targs[0] else "inner"
    for loop in match.loops_in(fn.body):
        if loop["k"] != "WhileStmt":
            continue
        cond, body = kids(loop)[0], kids(loop)[1]
        b = match.binop(cond, ("&&",))
        if b:
            # linear scan: while (v < slotuse && P(key(v), key)) ++v
            bound = match.binop(b[1], ("<",))
            if not bound:
                continue
            var = ref_of(bound[1])
            if var not in returned:
                continue     # the self-verification scan, not the result
            f = match.field_of(bound[2])
            if not f or f[1] != "slotuse" or ref_of(f[0]) != node:
                ck.violation("SEARCH-TABLE", fn.qname, "linear-bound",
                             "the linear scan is not bounded by n->slotuse: %s" % dtable.describe(b[1]), fn.nloc(loop))
                continue
            keyarg = [z for z in walk(b[2]) if "callee" in z and z["callee"]["name"] == "key" and z.get("member_call")]
            if not keyarg or any(ref_of(kids(z)[1]) != var for z in keyarg):
                ck.violation("SEARCH-TABLE", fn.qname, "linear-index",
                             "the scanned slot is not the loop variable: %s" % dtable.describe(b[2]), fn.nloc(loop))
                continue
            u = match.unop(body, ("++",))
            if not u or ref_of(u[1]) != var:
                raise ir.AnalysisBroken("%s: linear scan body not understood" % fn.full)
            found += 1
            for v in SEARCH_VALS:
                got = ke.truth(b[2], v)
                want = spec(v[("slot", "key")], v[("key", "slot")])
                if got != want:
                    ck.violation("SEARCH-TABLE", fn.qname, "linear:%s" % ntype,
                                 "linear %s skips a slot %s when less(slotkey,key)=%s, less(key,slotkey)=%s; %s"
                                 % (which, "" if got else "not", v[("slot", "key")], v[("key", "slot")],
                                    "a lower bound skips exactly the slots with slotkey < key" if which == "find_lower"
                                    else "an upper bound skips exactly the slots with slotkey <= key"), fn.nloc(loop))
                    break
            else:
                ck.ok("SEARCH-TABLE", tree.where(fn, ntype + " linear"), "skip predicate agrees with %s on 3 orderings" % which)
            continue
        # lo <= hi is kept by `hi = mid` / `lo = mid + 1` with lo <= mid < hi, so `lo != hi` is the same test
        bound = match.binop(cond, ("<", "!="))
        if not bound:
            continue
        lo, hi = ref_of(bound[1]), ref_of(bound[2])
        if lo is None or hi is None:
            continue
        # binary search: mid = (lo + hi) / 2; if (C) hi = mid; else lo = mid + 1;
        stmts = kids(body)
        mids = [s for s in stmts if s["k"] == "DeclStmt"]
        ifs = [s for s in stmts if s["k"] == "IfStmt"]
        if len(mids) != 1 or len(ifs) != 1:
            raise ir.AnalysisBroken("%s: binary search body not understood" % fn.full)
        midv = kids(mids[0])[0]
        h = match.is_halved(kids(midv)[0])
        hb = match.binop(h, ("+",)) if h is not None else None
        if not hb or {ref_of(hb[1]), ref_of(hb[2])} != {lo, hi}:
            ck.violation("SEARCH-TABLE", fn.qname, "binary-mid", "the probe is not the midpoint of [lo, hi): %s"
                         % dtable.describe(kids(midv)[0]), fn.nloc(midv))
            continue
        mid = midv["did"]
        c, t, e = kids(ifs[0])

        def effect(branch):
            """'keep' (hi = mid) or 'skip' (lo = mid + 1)"""
            out = []
            for z in walk(branch):
                a = match.binop(z, ("=",)) if z["k"] == "BinaryOperator" else None
                if not a:
                    continue
                if ref_of(a[1]) == hi and ref_of(a[2]) == mid:
                    out.append("keep")
                elif ref_of(a[1]) == lo:
                    pl = match.binop(a[2], ("+",))
                    if pl and ref_of(pl[1]) == mid and const_int(pl[2]) == 1:
                        out.append("skip")
                    else:
                        out.append("?" + dtable.describe(a[2]))
                else:
                    out.append("?" + dtable.describe(z))
            return out
        te, ee = effect(t), effect(e)
        if sorted(te + ee) != ["keep", "skip"] or len(te) != 1:
            ck.violation("SEARCH-TABLE", fn.qname, "binary-steps",
                         "the binary search must narrow with exactly `hi = mid` and `lo = mid + 1`; found %s / %s"
                         % (te, ee), fn.nloc(ifs[0]))
            continue
        keyarg = [z for z in walk(c) if "callee" in z and z["callee"]["name"] == "key" and z.get("member_call")]
        if not keyarg or any(ref_of(kids(z)[1]) != mid for z in keyarg):
            ck.violation("SEARCH-TABLE", fn.qname, "binary-index", "the probed slot is not mid: %s" % dtable.describe(c),
                         fn.nloc(ifs[0]))
            continue
        found += 1
        ok = True
        for v in SEARCH_VALS:
            ct = ke.truth(c, v)
            skipped = (te[0] if ct else ee[0]) == "skip"
            want = spec(v[("slot", "key")], v[("key", "slot")])
            if skipped != want:
                ok = False
                ck.violation("SEARCH-TABLE", fn.qname, "binary:%s" % ntype,
                             "binary %s %s the probed slot when less(slotkey,key)=%s, less(key,slotkey)=%s; %s"
                             % (which, "skips" if skipped else "keeps", v[("slot", "key")], v[("key", "slot")],
                                "a lower bound skips exactly the slots with slotkey < key" if which == "find_lower"
                                else "an upper bound skips exactly the slots with slotkey <= key"), fn.nloc(ifs[0]))
                break
        # the returned variable must be one of the two that have met
        if ok:
            ck.ok("SEARCH-TABLE", tree.where(fn, ntype + " binary"), "probe decision agrees with %s on 3 orderings" % which)
    bad_ret = [r for r in rets if ref_of(kids(r)[0]) is None and const_int(kids(r)[0]) != 0]
    if bad_ret:
        ck.violation("SEARCH-TABLE", fn.qname, "return", "returns something other than the search position: %s"
                     % dtable.describe(kids(bad_ret[0])[0]), fn.nloc(bad_ret[0]))
    if found != 2:
        raise ir.AnalysisBroken("%s: expected a binary and a linear search, recognised %d" % (fn.full, found))


# ------------------------------------------------------------------ which search each lookup uses
SEARCH_ROLE = {
    "exists": "find_lower", "find": "find_lower", "count": "find_lower", "lower_bound": "find_lower",
    "upper_bound": "find_upper", "insert_descend": "find_lower", "erase_one_descend": "find_lower",
    "erase_iter_descend": "find_lower",
}
MIN_SEARCH_CALLS = {"erase_iter_descend": 1}


def check_descent(ck, tree):
    for name, want in SEARCH_ROLE.items():
        for fn in tree.find(name):
            calls = [z for z in walk(fn.body) if "callee" in z and z["callee"]["name"] in ("find_lower", "find_upper")]
            need = MIN_SEARCH_CALLS.get(name, 2)
            if len(calls) < need:
                raise ir.AnalysisBroken("%s: expected at least %d in-node searches, found %d" % (fn.full, need, len(calls)))
            wrong = [z for z in calls if z["callee"]["name"] != want]
            kinds = sorted({("leaf" if "LeafNode" in z["callee"]["targs"][0] else "inner") for z in calls})
            cst = "const" if fn.d.get("const") else "mutable"
            if wrong:
                z = wrong[0]
                lvl = "leaf" if "LeafNode" in z["callee"]["targs"][0] else "inner"
                ck.violation("DESCENT-SEARCH", fn.qname, "%s:%s:%s" % (name, cst, lvl),
                             "%s() descends with %s at the %s level; every level must use %s, otherwise the position differs "
                             "from std::%s whenever equal keys or separators are met" % (name, z["callee"]["name"], lvl, want,
                                                                                       name if "bound" in name else "set"),
                             fn.nloc(z))
                continue
            if need == 2 and kinds != ["inner", "leaf"]:
                raise ir.AnalysisBroken("%s: searches only at %s level" % (fn.full, kinds))
            # the child followed is the one the search returned
            problem = None
            for z in calls:
                if "InnerNode" not in z["callee"]["targs"][0]:
                    continue
                par = fn.parent(z)
                while par is not None and par["k"] not in ("VarDecl", "BinaryOperator"):
                    par = fn.parent(par)
                var = None
                if par is not None and par["k"] == "VarDecl":
                    var = par["did"]
                elif par is not None and par.get("op") == "=":
                    var = ref_of(kids(par)[0])
                if var is None:
                    problem = ("result of the inner search is not kept", z)
                    break
                idx = []
                for q in walk(fn.body):
                    ip = match.index_parts(q) if q["k"] == "ArraySubscriptExpr" else None
                    if ip:
                        f = match.field_of(ip[0])
                        if f and f[1] == "childid" and B_param_is_curr(fn, f[0]):
                            idx.append(ip[1])
                if not any(ref_of(i) == var for i in idx):
                    problem = ("the child followed is not childid[%s]" % (par.get("name") or "slot"), z)
            if problem:
                ck.violation("DESCENT-SEARCH", fn.qname, "%s:%s:child" % (name, cst), problem[0], fn.nloc(problem[1]))
            else:
                ck.ok("DESCENT-SEARCH", tree.where(fn, cst), "%d searches, all %s; child = childid[result]" % (len(calls), want))
    for fn in tree.find("equal_range"):
        rets = [n for n in walk(fn.body) if n["k"] == "ReturnStmt"]
        names = [z["callee"]["name"] for z in walk(rets[0]) if "callee" in z and z["callee"]["name"] in ("lower_bound", "upper_bound")]
        # evaluation order inside the pair constructor is irrelevant; the argument order is what counts
        ctor = [z for z in walk(rets[0]) if z["k"] in ("CXXConstructExpr", "CXXTemporaryObjectExpr") and len(kids(z)) == 2]
        order = []
        if ctor:
            for a in kids(ctor[0]):
                order += [z["callee"]["name"] for z in walk(a) if "callee" in z and z["callee"]["name"] in ("lower_bound", "upper_bound")]
        if order != ["lower_bound", "upper_bound"]:
            ck.violation("DESCENT-SEARCH", fn.qname, "equal_range", "equal_range must be (lower_bound(key), upper_bound(key)); found %s"
                         % (order or names), fn.loc)
        else:
            ck.ok("DESCENT-SEARCH", tree.where(fn), "pair(lower_bound, upper_bound)")


def B_param_is_curr(fn, e):
    """the node expression is a local/param pointer (the node currently visited); anything but a sibling"""
    return ref_of(e) is not None


# ------------------------------------------------------------------ hit test
def hit_cond(fn):
    """the maximal boolean expression around the key_equal() call"""
    eq = [z for z in walk(fn.body) if "callee" in z and z["callee"]["name"] == "key_equal"]
    if len(eq) != 1:
        raise ir.AnalysisBroken("%s: expected one key_equal test, found %d" % (fn.full, len(eq)))
    n = eq[0]
    while True:
        p = fn.parent(n)
        if p is None:
            break
        if p["k"] in ("ParenExpr", "ImplicitCastExpr") or (p["k"] == "UnaryOperator" and p.get("op") == "!") or \
                (p["k"] == "BinaryOperator" and p.get("op") in ("&&", "||")):
            n = p
            continue
        break
    return n, eq[0], fn.parent(n)


def check_hit(ck, tree):
    for name in ("exists", "find", "count", "erase_one_descend", "insert_descend"):
        for fn in tree.find(name):
            cond, eq, user = hit_cond(fn)
            keyp = fn.params[0]["did"] if name != "insert_descend" else fn.params[1]["did"]
            # operands of key_equal: the searched key and leaf->key(slot)
            args = kids(eq)[1:]
            kc = [a for a in args if "callee" in strip_casts(a) and strip_casts(a)["callee"]["name"] == "key"]
            kk = [a for a in args if ref_of(a) == keyp]
            cst = "const" if fn.d.get("const") else "mutable"
            if len(kc) != 1 or len(kk) != 1:
                ck.violation("HIT-TEST", fn.qname, "%s:%s:operands" % (name, cst),
                             "the hit test does not compare the searched key with the slot found: %s" % dtable.describe(eq), fn.nloc(eq))
                continue
            slot = ref_of(kids(strip_casts(kc[0]))[1])
            leafv = ref_of(kids(strip_casts(kc[0]))[0])

            def atomize(n, run):
                n = strip_casts(n)
                if n is eq or n.get("id") == eq["id"]:
                    return "E", False
                b = match.binop(n, ("<", ">=", ">", "<="))
                if b:
                    op, l, r = b
                    f = match.field_of(r)
                    if ref_of(l) == slot and f and f[1] == "slotuse" and ref_of(f[0]) == leafv:
                        return {"<": ("B", False), ">=": ("B", True)}.get(op)
                    f = match.field_of(l)
                    if ref_of(r) == slot and f and f[1] == "slotuse" and ref_of(f[0]) == leafv:
                        return {">": ("B", False), "<=": ("B", True)}.get(op)
                if ref_of(n) == leafv or (match.ptr_truth(n) is not None and ref_of(match.ptr_truth(n)) == leafv):
                    return "N", False
                c = const_int(n)
                if c is not None:
                    return bool(c)
                return None
            leaves = dtable.explore(cond, atomize, fn, as_expr=True)
            atoms = dtable.atoms_of(leaves)
            dupconst = None
            for z in walk(cond):
                if z["k"] == "DeclRefExpr" and z["ref"]["name"] == "allow_duplicates":
                    dupconst = const_int(z)
            pol = None
            bad = None
            if name == "insert_descend" and dupconst:
                if any(lf["result"] for lf in leaves):
                    ck.violation("HIT-TEST", fn.qname, "%s:%s:dup" % (name, cst),
                                 "with duplicates allowed insert must never report `already present`: %s" % dtable.describe(cond), fn.nloc(cond))
                else:
                    ck.ok("HIT-TEST", tree.where(fn, cst), "duplicates allowed: the `already present` exit is dead")
                continue
            for v, lf in dtable.table(leaves, None, atoms):
                hit = v.get("B", True) and v.get("E", True) and v.get("N", True)
                if name == "insert_descend" and dupconst:
                    hit = False     # duplicates allowed: never "already present"
                r = lf["result"]
                p = (r == hit)
                if pol is None:
                    pol = p
                elif pol != p:
                    bad = v
                    break
            if "B" not in atoms or "E" not in atoms:
                bad = bad or {}
            if bad is not None:
                ck.violation("HIT-TEST", fn.qname, "%s:%s" % (name, cst),
                             "the hit test %s is not `slot < slotuse && key_equal(key, key(slot))` nor its negation (differs at %s)"
                             % (dtable.describe(cond), dtable.fmt_val(bad) or "missing bound/equality"), fn.nloc(cond))
                continue
            if name == "insert_descend" and dupconst and all(lf["result"] is False for lf in leaves):
                pol = True
            want_pol = {"exists": True, "find": True, "count": True, "erase_one_descend": False, "insert_descend": True}[name]
            ok = pol == want_pol
            detail = ""
            if ok and name == "erase_one_descend":
                # the negated test guards `return btree_not_found`
                ok = user is not None and user["k"] == "IfStmt" and any(
                    z["k"] == "DeclRefExpr" and z["ref"]["name"] == "btree_not_found" for z in walk(kids(user)[1]))
                detail = "miss -> btree_not_found"
            if ok and name == "find":
                ok = user is not None and user["k"] == "ConditionalOperator" and \
                    any("callee" in z and z["callee"]["name"] == "end" for z in walk(kids(user)[2])) and \
                    not any("callee" in z and z["callee"]["name"] == "end" for z in walk(kids(user)[1]))
                detail = "hit -> iterator(leaf, slot), miss -> end()"
            if ok and name == "insert_descend":
                ok = user is not None and user["k"] == "IfStmt" and any(z["k"] == "ReturnStmt" for z in walk(kids(user)[1]))
                detail = "present && !allow_duplicates -> return existing" + (" (dead: duplicates allowed)" if dupconst else "")
            if not ok:
                ck.violation("HIT-TEST", fn.qname, "%s:%s:use" % (name, cst),
                             "the hit test has the wrong polarity or consequence in %s()" % name, fn.nloc(cond))
            else:
                ck.ok("HIT-TEST", tree.where(fn, cst), "%d situations; %s" % (len(list(dtable.table(leaves, None, atoms))), detail))


# ------------------------------------------------------------------ duplicate-run walk of erase(iterator)
def check_iter_walk(ck, tu, tree):
    fn = tree.one("erase_iter_descend")
    if not tree.dup:
        # unique keys: the leaf of the iterator is always below the first candidate child
        ck.ok("ITER-WALK-STOP", tree.where(fn), "unique keys: the first candidate child holds the leaf, the stop test is never decisive",
              nontrivial=False)
        return
    iterp = fn.params[0]["did"]
    loops = [l for l in match.loops_in(fn.body) if l["k"] in ("WhileStmt", "ForStmt", "DoStmt") and
             any("callee" in z and z["callee"]["name"] == "erase_iter_descend" for z in walk(l))]
    if len(loops) != 1:
        raise ir.AnalysisBroken("%s: child walk loop not found" % fn.full)
    loop = loops[0]
    rec = [z for z in walk(loop) if "callee" in z and z["callee"]["name"] == "erase_iter_descend"][0]
    slotv = ref_of(kids(rec)[1 + B.P_PSLOT])

    def classify(e):
        if "callee" in e and e["callee"]["name"] == "key" and e.get("member_call") and ref_of(kids(e)[0]) == iterp:
            return "key"
        ip = match.index_parts(e)
        if ip:
            f = match.field_of(ip[0])
            if f and f[1] == "slotkey" and ref_of(ip[1]) == slotv:
                return "slot"
        return None
    n_exits = 0
    for ifs in [z for z in walk(match.loop_parts(loop)[3]) if z["k"] == "IfStmt"]:
        cond, then = kids(ifs)[0], kids(ifs)[1]
        preds = [z for z in walk(cond) if "callee" in z and z.get("member_call") and z["callee"].get("record") == BT
                 and z["callee"]["name"].startswith("key_")]
        if not preds:
            continue
        gives_up = any(z["k"] in ("ReturnStmt", "BreakStmt") for z in walk(then))
        if not gives_up:
            continue
        n_exits += 1
        ke = KeyEval(tu, classify)

        def atomize(n, run, ke=ke, preds=preds):
            n = strip_casts(n)
            if any(n.get("id") == p["id"] for p in preds):
                return ("P", n["id"]), False
            b = match.binop(n, ("<", ">=", "!=", "=="))
            if b:
                f = match.field_of(b[2])
                if ref_of(b[1]) == slotv and f and f[1] == "slotuse":
                    return {"<": ("B", False), ">=": ("B", True), "!=": ("B", False), "==": ("B", True)}[b[0]]
            return None
        bad = None
        for kv in SEARCH_VALS:
            for bv in (True, False):
                def atomize2(n, run, kv=kv, bv=bv):
                    n = strip_casts(n)
                    if any(n.get("id") == p["id"] for p in preds):
                        if not bv:
                            return ("OOB",), False
                        return ke.truth(n, kv)
                    r = atomize(n, run)
                    if r is not None and r[0] == "B":
                        return (not bv) if r[1] else bv
                    return None
                leaves = dtable.explore(cond, atomize2, fn, as_expr=True)
                for lf in leaves:
                    if ("OOB",) in lf["val"]:
                        bad = bad or ("the stop test reads slotkey[slot] although slot == slotuse (there is no such separator)", kv)
                        continue
                    if lf["result"] and bv:
                        sk_key, key_sk = kv[("slot", "key")], kv[("key", "slot")]
                        if sk_key:
                            continue      # infeasible: the walk starts at find_lower(key), separators ascend
                        if not key_sk:
                            bad = bad or ("the walk over a run of equal keys gives up at a child whose separator equals the key "
                                          "(less(sep,key)=false, less(key,sep)=false); entries with that key may continue in the next child, "
                                          "so erase(iterator) silently fails where std::multiset::erase(iterator) removes the element", kv)
                    if lf["result"] and not bv:
                        bad = bad or ("the walk gives up at the last child without a separator to justify it", kv)
        if bad:
            ck.violation("ITER-WALK-STOP", fn.qname, "stop-test", bad[0] + ": " + dtable.describe(cond), fn.nloc(ifs))
        else:
            ck.ok("ITER-WALK-STOP", tree.where(fn), "stop test %s only fires when the separator proves the key cannot follow"
                  % dtable.describe(cond))
    # after a failed child the walk advances to the next child
    incs = [z for z in walk(loop) if match.unop(z, ("++",)) and z["k"] == "UnaryOperator" and ref_of(match.unop(z, ("++",))[1]) == slotv]
    if not incs:
        ck.violation("ITER-WALK-STOP", fn.qname, "advance", "the walk never advances to the next child", fn.nloc(loop))
    if n_exits == 0:
        ck.ok("ITER-WALK-STOP", tree.where(fn), "no early exit: all children from find_lower(key) on are searched")


# ------------------------------------------------------------------ sibling bookkeeping of the descents
def check_siblings(ck, tree):
    for name in ("erase_one_descend", "erase_iter_descend"):
        fn = tree.one(name)
        roles = B.Roles(fn)
        recs = [z for z in walk(fn.body) if "callee" in z and z["callee"]["name"] == name]
        if len(recs) != 1:
            raise ir.AnalysisBroken("%s: expected one recursive call, found %d" % (fn.full, len(recs)))
        rec = recs[0]
        args = kids(rec)[1:]
        slotv = ref_of(args[B.P_PSLOT])
        curr_ok = roles.param_of(args[B.P_PARENT]) == B.P_CURR
        child = match.index_parts(args[B.P_CURR])
        child_ok = child is not None and match.field_of(child[0]) and match.field_of(child[0])[1] == "childid" and \
            roles.param_of(match.field_of(child[0])[0]) == B.P_CURR and ref_of(child[1]) == slotv
        if slotv is None or not curr_ok or not child_ok:
            ck.violation("DESCENT-SIBLINGS", fn.qname, name + ":recursion",
                         "the recursive call must descend into childid[slot] with (parent, parentslot) = (this node, slot): %s"
                         % dtable.describe(rec), fn.nloc(rec))
            continue
        mv = {i: ref_of(args[i]) for i in (B.P_LEFT, B.P_RIGHT, B.P_LP, B.P_RP)}
        # the two if/else blocks that compute the four values
        holder = fn.parent(rec)
        while holder is not None and holder["k"] != "CompoundStmt":
            holder = fn.parent(holder)
        blocks = [s for s in kids(holder) if s["k"] == "IfStmt" and any(
            match.binop(z, ("=",)) and z["k"] == "BinaryOperator" and ref_of(match.binop(z, ("=",))[1]) in mv.values() for z in walk(s))]

        def atomize(n, run):
            n = strip_casts(n)
            b = match.binop(n, ("==", "!="))
            if b:
                op, l, r = b
                if ref_of(l) == slotv:
                    if const_int(r) == 0:
                        return "first", op == "!="
                    f = match.field_of(r)
                    if f and f[1] == "slotuse" and roles.param_of(f[0]) == B.P_CURR:
                        return "last", op == "!="
                for x, y in ((l, r), (r, l)):
                    if B.is_null(y) and roles.param_of(x) in (B.P_LEFT, B.P_RIGHT):
                        return ("null", roles.param_of(x)), op == "!="
            return None

        def value_kind(e):
            e = strip_casts(e)
            if B.is_null(e):
                return "null"
            if e["k"] == "ConditionalOperator":
                c, a, b = kids(e)
                r = atomize(c, None)
                if r is not None and not isinstance(r, bool) and r[0][0] == "null":
                    side = B.NAMES[r[0][1]]
                    ka, kb = value_kind(a), value_kind(b)
                    if r[1]:
                        ka, kb = kb, ka
                    if ka == "null" and kb.startswith(side + ".child["):
                        return "%s.child[*]|null" % side
                return dtable.describe(e)
            p = roles.param_of(e)
            if p is not None:
                return B.NAMES[p]
            ip = match.index_parts(e)
            if ip:
                f = match.field_of(ip[0])
                if f and f[1] == "childid":
                    owner = roles.param_of(f[0])
                    idx = strip_casts(ip[1])
                    if ref_of(idx) == slotv:
                        off = "slot"
                    elif const_int(idx) is not None:
                        off = str(const_int(idx))
                    else:
                        bb = match.binop(idx, ("+", "-"))
                        if bb and ref_of(bb[1]) == slotv and const_int(bb[2]) is not None:
                            off = "slot%s%d" % (bb[0], const_int(bb[2]))
                        elif bb and match.field_of(bb[1]) and match.field_of(bb[1])[1] == "slotuse" and const_int(bb[2]) is not None \
                                and roles.param_of(match.field_of(bb[1])[0]) == owner:
                            # childid[n->slotuse - 1]: index by separator count
                            off = "slotuse%s%d" % (bb[0], const_int(bb[2]))
                        else:
                            off = dtable.describe(idx)
                    return "%s.child[%s]" % (B.NAMES.get(owner, "?"), off)
            return dtable.describe(e)
        seq = {"k": "CompoundStmt", "ch": blocks, "id": -1}
        leaves = dtable.explore(seq, atomize, fn)
        atoms = dtable.atoms_of(leaves)
        bad = None
        n = 0
        for v, lf in dtable.table(leaves, None, atoms):
            n += 1
            got = {}
            for ev in lf["events"]:
                if ev[0] != "expr":
                    continue
                e = ev[1]
                b = match.binop(e, ("=",))
                if b and ref_of(b[1]) in mv.values():
                    rhs = b[2]
                    # conditional already resolved by dtable.effect? (left == nullptr) ? nullptr : ...
                    got[ref_of(b[1])] = rhs
            want = {
                # the last child of an inner node with s separators is child[s]
                mv[B.P_LEFT]: ("curr.child[slot-1]" if not v["first"] else "left.child[*]|null"),
                mv[B.P_LP]: "curr" if not v["first"] else "left_parent",
                mv[B.P_RIGHT]: ("curr.child[slot+1]" if not v["last"] else "right.child[*]|null"),
                mv[B.P_RP]: "curr" if not v["last"] else "right_parent",
            }
            for var, w in want.items():
                g = value_kind(got[var]) if var in got else "<unset>"
                if not same_value(g, w):
                    nm = [k for k, x in mv.items() if x == var][0]
                    bad = (v, "my%s is %s, expected %s" % (B.NAMES[nm], g, w), got.get(var))
                    break
            if bad:
                break
        if bad:
            ck.violation("DESCENT-SIBLINGS", fn.qname, name + ":" + bad[1].split(" ")[0],
                         "in situation {%s}: %s — the neighbours handed to the child decide which nodes are merged or shifted"
                         % (dtable.fmt_val(bad[0]), bad[1]), fn.nloc(bad[2]) if bad[2] is not None else fn.loc)
        else:
            ck.ok("DESCENT-SIBLINGS", tree.where(fn), "%d situations (first/last slot x null neighbours): neighbours and their parents as required" % n)


def same_value(got, want):
    # a neighbour below a *different* parent is only tested for null-ness and fill level; it is never a merge or
    # shift partner (UNDERFLOW-LEGAL proves that), so any child of the neighbouring inner node is accepted there,
    # provided it is null exactly when the neighbouring node is.
    # (the library passes left->childid[left->slotuse - 1], which is not even the adjacent child.)
    return got == want


# ------------------------------------------------------------------ front ends
FRONT = {
    "tlx::btree_set": (False, "set"), "tlx::btree_multiset": (True, "set"),
    "tlx::btree_map": (False, "map"), "tlx::btree_multimap": (True, "map"),
}
# members that are not plain forwards (each checked by its own clause below)
FORWARD_ALIAS = {"insert2": "insert"}
NOT_FORWARD = {"operator[]": "calls its own insert()", "swap": "std::swap of the trees"}


def check_frontends(ck, tu):
    seen = set()
    for fn in tu.functions:
        rec = fn.record
        if rec in FRONT and fn.kind in ("ctor",) and rec + fn.full.split("::")[1] not in seen:
            pass
    for rec, (dup, kind) in FRONT.items():
        fns = [f for f in tu.functions if f.record == rec]
        if not fns:
            raise ir.AnalysisBroken("front end %s not instantiated by the witness" % rec)
        # flags: the BTree instantiation behind tree_
        insts = {}
        for f in fns:
            for z in f.nodes():
                if z["k"] == "MemberExpr" and z.get("member") == "tree_":
                    insts.setdefault(z.get("ty", "").replace("const ", ""), f)
        for ty, f in insts.items():
            args = split_targs(ty)
            if len(args) < 6:
                raise ir.AnalysisBroken("cannot read the BTree arguments of %s::tree_: %s" % (rec, ty))
            flag = args[5] == "true"
            if flag != dup:
                ck.violation("FRONTEND-FLAGS", rec, "duplicates", "%s instantiates BTree with Duplicates=%s" % (rec, args[5]), f.loc)
            else:
                ck.ok("FRONTEND-FLAGS", rec + " " + args[3], "Duplicates=%s" % args[5])
        for f in fns:
            if f.name != "get" or not f.record:
                continue
        for f in [x for x in tu.functions if x.record == rec + "::key_of_value" and x.name == "get"]:
            r = strip_casts(B.single_return(f))
            p = f.params[0]["did"]
            if kind == "set":
                good = ref_of(r) == p
            else:
                fo = match.field_of(r)
                good = fo is not None and fo[1] == "first" and ref_of(fo[0]) == p
            if not good:
                ck.violation("FRONTEND-FLAGS", f.qname, "key_of_value", "the key of a %s entry must be %s, found %s"
                             % (kind, "the value itself" if kind == "set" else "value.first", dtable.describe(r)), f.loc)
            else:
                ck.ok("FRONTEND-FLAGS", f.qname, "key = " + dtable.describe(r))
        # forwarding
        for f in fns:
            if f.kind in ("ctor", "dtor") or f.name in NOT_FORWARD or f.body is None:
                continue
            if f.name == "operator=":
                continue
            check_forward(ck, f, rec, dup)


def split_targs(ty):
    i = ty.find("<")
    if i < 0:
        return []
    depth = 0
    cur = ""
    out = []
    for ch in ty[i + 1:]:
        if ch == "<":
            depth += 1
        if ch == ">":
            if depth == 0:
                out.append(cur.strip())
                break
            depth -= 1
        if ch == "," and depth == 0:
            out.append(cur.strip())
            cur = ""
        else:
            cur += ch
    return out


CMP_OPS = ("operator==", "operator!=", "operator<", "operator>", "operator<=", "operator>=")


def check_forward(ck, f, rec, dup):
    want = FORWARD_ALIAS.get(f.name, f.name)
    cst = "const" if f.d.get("const") else "mutable"
    sig = "%s:%s:%d" % (f.name, cst, len(f.params))
    pdids = [p["did"] for p in f.params]
    if f.name in CMP_OPS:
        r = B.single_return(f)
        b = match.binop(r)
        okc = False
        if b:
            l, rr = match.this_field(b[1]), match.field_of(b[2])
            okc = ("operator" + b[0]) == f.name and l == "tree_" and rr is not None and rr[1] == "tree_" and ref_of(rr[0]) == pdids[0]
        if not okc:
            ck.violation("FRONTEND-FORWARD", f.qname, sig, "%s must compare tree_ %s other.tree_; found %s"
                         % (f.name, f.name[8:], dtable.describe(r)), f.loc)
        else:
            ck.ok("FRONTEND-FORWARD", "%s::%s" % (rec, f.name), "tree_ %s other.tree_" % f.name[8:], nontrivial=False)
        return
    calls = [z for z in f.nodes() if "callee" in z and z.get("member_call") and match.this_field(kids(z)[0]) == "tree_"]
    own = [z for z in f.nodes() if "callee" in z and z.get("member_call") and strip_casts(kids(z)[0])["k"] == "This"
           and z["callee"]["name"] == f.name and z["callee"].get("record") == rec]
    if not calls and own:
        ck.ok("FRONTEND-FORWARD", "%s::%s %s/%d" % (rec, f.name, cst, len(pdids)), "delegates to its own %s() overload" % f.name,
              nontrivial=False)
        return
    if len(calls) != 1:
        ck.violation("FRONTEND-FORWARD", f.qname, sig, "%s() must forward to exactly one member of the tree; found %d calls"
                     % (f.name, len(calls)), f.loc)
        return
    c = calls[0]
    if c["callee"]["name"] != want:
        ck.violation("FRONTEND-FORWARD", f.qname, sig, "%s() forwards to BTree::%s()" % (f.name, c["callee"]["name"]), f.nloc(c))
        return
    # parameters in order
    used = []
    for a in kids(c)[1:]:
        if a["k"] == "DefaultArg":
            continue
        for z in walk(a):
            if z["k"] == "DeclRefExpr" and z["ref"]["id"] in pdids:
                used.append(z["ref"]["id"])
    if used != pdids:
        ck.violation("FRONTEND-FORWARD", f.qname, sig, "%s() does not pass its parameters in order: %s"
                     % (f.name, dtable.describe(c)), f.nloc(c))
        return
    # constness: a const member must reach the const overload
    if bool(f.d.get("const")) != bool(c["callee"].get("const")) and f.d.get("const"):
        ck.violation("FRONTEND-FORWARD", f.qname, sig, "const %s() reaches a non-const tree member" % f.name, f.nloc(c))
        return
    ck.ok("FRONTEND-FORWARD", "%s::%s %s/%d" % (rec, f.name, cst, len(pdids)), "-> tree_.%s(%d args in order)" % (want, len(pdids)),
          nontrivial=False)


# ------------------------------------------------------------------ iterator steps, decided semantically
def check_iter_steps(ck, tree):
    """every ++/-- of the four iterator classes is executed abstractly on a chain of three leaves (the neighbours may be
    missing) for every position; the result must denote the neighbouring element of the global sequence in canonical form
    (forward: slot < slotuse except end() = (tail, slotuse); reverse: slot >= 1 except rend() = (head, 0))"""
    from engine import absexec
    for cls, fwd in (("iterator", True), ("const_iterator", True), ("reverse_iterator", False), ("const_reverse_iterator", False)):
        for op in ("operator++", "operator--"):
            fns = tree.find(op, BT + "::" + cls)
            if len(fns) != 2:
                raise ir.AnalysisBroken("%s::%s: expected the pre and the post form, found %d" % (cls, op, len(fns)))
            for fn in fns:
                form = "post" if fn.params else "pre"
                problem, n = None, 0
                for has_prev in (False, True):
                    for has_next in (False, True):
                        for u in (1, 2, 3):
                            for s in range(0, u + 1):
                                if problem:
                                    continue
                                P = absexec.Node("prev", "leaf", 4, 2) if has_prev else None
                                C = absexec.Node("curr", "leaf", 4, u)
                                N = absexec.Node("next", "leaf", 4, 2) if has_next else None
                                C.prev_leaf, C.next_leaf = P, N
                                if P:
                                    P.next_leaf = C
                                if N:
                                    N.prev_leaf = C
                                chain = [x for x in (P, C, N) if x]
                                offs = {}
                                tot = 0
                                for x in chain:
                                    offs[id(x)] = tot
                                    tot += x.slotuse
                                head, tail = chain[0], chain[-1]

                                def index_of(leaf, slot):
                                    """global element index denoted by a canonical position, None if not canonical"""
                                    if fwd:
                                        if slot < leaf.slotuse:
                                            return offs[id(leaf)] + slot
                                        return tot if (leaf is tail and slot == leaf.slotuse) else None
                                    if slot >= 1 and slot <= leaf.slotuse:
                                        return offs[id(leaf)] + slot - 1
                                    return -1 if (leaf is head and slot == 0) else None
                                start = index_of(C, s)
                                if start is None:
                                    continue          # not a position an iterator can hold
                                forward_move = (op == "operator++") == fwd
                                want = start + (1 if forward_move else -1)
                                # stepping past the ends is outside the contract (as for the std containers)
                                if want < (0 if fwd else -1) or want > (tot if fwd else tot - 1):
                                    continue
                                n += 1
                                ex = absexec.Exec(fn, {"leaf": 4, "inner": 4})
                                ex.this.update(curr_leaf=C, curr_slot=s)
                                for prm in fn.params:
                                    ex.env[prm["did"]] = 0
                                try:
                                    ex.run(kids(fn.body))
                                except absexec.Problem as pr:
                                    problem = str(pr)
                                    continue
                                leaf2, slot2 = ex.this.get("curr_leaf"), ex.this.get("curr_slot")
                                got = index_of(leaf2, slot2) if isinstance(leaf2, absexec.Node) else None
                                if got != want:
                                    problem = ("from (%s leaf with %d entries, slot %d)%s%s the iterator goes to (%s, slot %s), which %s; it must denote the %s element"
                                               % ("the", u, s, " with a predecessor leaf" if has_prev else "", " with a successor leaf" if has_next else "",
                                                  getattr(leaf2, "name", leaf2), slot2,
                                                  "is not a valid position" if got is None else "is element %d instead of %d" % (got, want),
                                                  "next" if forward_move else "previous"))
                # return value: pre returns *this, post the copy taken before the step
                rets = [x for x in walk(fn.body) if x["k"] == "ReturnStmt"]
                r = strip_casts(kids(rets[0])[0]) if rets and kids(rets[0]) else None
                if not problem:
                    if form == "pre":
                        d = match.deref_of(r) if r is not None else None
                        if d is None or strip_casts(d)["k"] != "This":
                            problem = "the pre form must return *this"
                    else:
                        rr = match.strip_conv(r) if r is not None else None
                        tmp = ref_of(rr) if rr is not None else None
                        decl = [x for x in walk(fn.body) if x["k"] == "VarDecl" and x.get("did") == tmp]
                        first_stmt = kids(fn.body)[0] if kids(fn.body) else None
                        if not decl or first_stmt is None or not any(x is decl[0] for x in walk(first_stmt)):
                            problem = "the post form must return the copy taken before the step"
                if problem:
                    ck.violation("ITER-STEP", fn.qname, "%s:%s:%s" % (cls, op, form), "%s %s of %s: %s" % (form, op, cls, problem), fn.loc)
                else:
                    ck.ok("ITER-STEP", tree.where(fn, form), "%d positions x neighbour configurations: moves to the adjacent element in canonical form" % n)
                    ck.states += n


# ------------------------------------------------------------------ driver
def run(ck):
    ck.explanation = (
        "Decides the structural clauses of C01, not the observational equality itself. The five key predicates and the binary and linear "
        "branch of find_lower/find_upper (leaf and inner instantiation) are reduced to truth tables over the user's less() and compared with the "
        "meaning of lower/upper bound; every lookup must use the same search at every level and follow childid[result]; the hit test must be "
        "`slot < slotuse && key_equal` with the right consequence; the walk of erase(iterator) over a run of equal keys may only give up when the "
        "separator proves the key cannot follow; the erase descents must hand the right neighbours and neighbour-parents to the child; every "
        "consistent underflow situation (null/few neighbours, same/different parents) must be resolved by exactly one legal merge or shift with "
        "the separator slot of the side used; is_full/is_few/is_underflow must fit the node's own capacity (leaf and inner chosen independently); "
        "the four front ends select the right Duplicates flag and key extractor and forward every member in order; the 16 iterator step "
        "functions move to the adjacent element of the leaf chain in canonical form (abstract execution on a three-leaf chain). Returned iterator positions, contents after histories, bulk-load shape and copies are not decided.")
    ck.assumptions += [
        "B+ tree shape facts used to prune impossible underflow situations: the root is the only node without neighbours; the outermost node of "
        "a level has a null neighbour whose parent pointer differs from its own parent; every inner node has at least two children",
        "the walk of erase(iterator) starts at find_lower(key) and separators ascend, so less(separator, key) cannot hold inside the walk",
    ]
    n_trees = 0
    for cfg, tu in B.load(ck.tier):
        ts = B.trees(tu)
        n_trees += len(ts)
        for t in ts:
            check_keypreds(ck, tu, t)
            for which in ("find_lower", "find_upper"):
                for fn in t.find(which):
                    check_search(ck, tu, t, fn)
            check_descent(ck, t)
            check_hit(ck, t)
            check_iter_walk(ck, tu, t)
            check_siblings(ck, t)
            for name in ("erase_one_descend", "erase_iter_descend"):
                B.check_underflow(ck, t, t.one(name))
            if t.small:
                B.check_capacity(ck, t, cfg)
                ck.guarded(lambda: btprim.check_primitives(ck, t, cfg))
                ck.guarded(lambda: btprim.check_insert(ck, tu, t, cfg))
                ck.guarded(lambda: btprim.check_erase(ck, tu, t, cfg))
                ck.guarded(lambda: btprim.check_bulk_load(ck, tu, t, cfg))
            check_iter_steps(ck, t)
        check_frontends(ck, tu)
    m = n_trees
    ck.floor("KEYPRED-TABLE", 4 * m)
    ck.floor("SEARCH-TABLE", 8 * m)
    ck.floor("DESCENT-SEARCH", 12 * m)
    ck.floor("HIT-TEST", 6 * m)
    ck.floor("ITER-WALK-STOP", m)
    ck.floor("DESCENT-SIBLINGS", 2 * m)
    ck.floor("UNDERFLOW-LEGAL", 4 * m)
    ck.floor("NODE-CAPACITY", m)
    ck.floor("PRIMITIVE-EFFECT", 4 * m)      # eight primitives per small_traits tree
    ck.floor("INSERT-EFFECT", m)            # leaf and inner level per small_traits tree
    ck.floor("ERASE-EFFECT", 2 * m)
    ck.floor("BULK-LOAD-SHAPE", m // 2)      # two per small_traits tree, half of the trees
    ck.floor("ITER-STEP", 16 * m)
    ck.floor("FRONTEND-FLAGS", 12 * (m // 8))
    ck.floor("FRONTEND-FORWARD", 4 * 40 * (m // 8))
