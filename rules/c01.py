"""C01 — B+ tree containers vs the std ordered containers, decided clause by clause.  Every clause reports a violation
only with a counterexample produced by an evaluation: key predicates as truth tables over the user's less(); both in-node
searches executed on all small sorted nodes; which search every lookup descends with; the hit test as a decision table over
the statements between the leaf search and the decision; the duplicate-run walk of erase(iterator) and the sibling bookkeeping
of the erase descents as decision tables over the statements around the recursive call; legality of every underflow resolution;
node capacity predicates for independent leaf/inner capacities; front-end flags and forwarding; iterator steps by abstract
execution.  A construct that is not understood raises dtable.Undecidable (exit 2), never a violation."""
from engine import ir, dtable, match
from engine.ir import kids, walk, strip_casts, const_int, ref_of
from rules import btcommon as B
from rules import btprim

BT = B.BT


# ------------------------------------------------------------------ key predicates as truth tables
class KeyEval:
    """evaluates a boolean expression built from the tree's key predicates under a valuation of
    less(x, y) atoms; `classify(expr, bind)` names the two key operands"""

    def __init__(self, tu, classify):
        self.tu = tu
        self.classify = classify
        self.atoms_used = set()

    def truth(self, n, val, bind=None, depth=0):
        bind = bind or {}
        n = strip_casts(n)
        if depth > 6:
            raise dtable.Undecidable("key predicate nesting too deep")
        k = n["k"]
        if k == "ParenExpr":
            return self.truth(kids(n)[0], val, bind, depth)
        if k == "CXXBoolLiteralExpr":
            return bool(n["val"])
        if k == "UnaryOperator" and n.get("op") == "!":
            return not self.truth(kids(n)[0], val, bind, depth)
        if k == "BinaryOperator" and n.get("op") == "&&":
            return self.truth(kids(n)[0], val, bind, depth) and self.truth(kids(n)[1], val, bind, depth)
        if k == "BinaryOperator" and n.get("op") == "||":
            return self.truth(kids(n)[0], val, bind, depth) or self.truth(kids(n)[1], val, bind, depth)
        if k == "BinaryOperator" and n.get("op") in ("==", "!=", "^") and \
                all((x.get("ty") or "").replace("const ", "") == "bool" for x in (strip_casts(kids(n)[0]), strip_casts(kids(n)[1]))):
            same = self.truth(kids(n)[0], val, bind, depth) == self.truth(kids(n)[1], val, bind, depth)
            return same if n["op"] == "==" else not same
        if k == "ConditionalOperator":
            c, a, b = kids(n)
            return self.truth(a if self.truth(c, val, bind, depth) else b, val, bind, depth)
        if k == "DeclRefExpr" and n["ref"]["id"] in bind and (n.get("ty") or "").replace("const ", "").rstrip("& ") == "bool":
            e, b2 = bind[n["ref"]["id"]]
            return self.truth(e, val, b2, depth + 1)
        fc = match.functor_call(n)
        if fc is not None and len(fc[1]) == 2 and match.this_field(fc[0]) is not None:
            x = self.resolve(fc[1][0], bind)
            y = self.resolve(fc[1][1], bind)
            if x is None or y is None or x == y:
                raise dtable.Undecidable("operands of the comparator not recognised: %s" % dtable.describe(n))
            self.atoms_used.add((x, y))
            return val[(x, y)]
        if "callee" in n and n.get("member_call") and n["callee"].get("record") == BT:
            callee = self.tu.by_did.get(n["callee"]["did"])
            if callee is None or callee.body is None:
                raise dtable.Undecidable("body of %s not available" % n["callee"]["qname"])
            args = kids(n)[1:]
            nb = {}
            for p, a in zip(callee.params, args):
                nb[p["did"]] = (a, bind)
            return self.truth(returned_expr(callee), val, nb, depth + 1)
        raise dtable.Undecidable("not a key predicate: %s" % dtable.describe(n))

    def resolve(self, e, bind):
        e = strip_casts(e)
        d = ref_of(e)
        while d is not None and d in bind:
            e, bind = bind[d]
            e = strip_casts(e)
            d = ref_of(e)
        return self.classify(e)


def returned_expr(fn):
    """the value a small function returns as one expression: `return e;`, or  decl* (if (c) return e;)* return e;  with the locals
    replaced by their initialisers"""
    def noop(s):      # a compiled-out TLX_BTREE_PRINT / TLX_BTREE_ASSERT: `;` or `do {} while (0)`
        return s is None or s["k"] == "NullStmt" or (s["k"] == "DoStmt" and not any(
            y["k"] not in ("CompoundStmt", "NullStmt") for y in walk(kids(s)[0])) and const_int(kids(s)[1]) == 0)
    e = dtable.stmts_as_expr([s for s in kids(fn.body) if not noop(s)])
    if e is None:
        raise dtable.Undecidable("%s: the value returned by %s is not a single expression" % (fn.loc, fn.name))
    return e


WEAK = [  # consistent valuations of less(a,b), less(b,a) for a strict weak order
    {("a", "b"): True, ("b", "a"): False},
    {("a", "b"): False, ("b", "a"): True},
    {("a", "b"): False, ("b", "a"): False},
]

PRED_SPEC = {
    "key_less": lambda ab, ba: ab,
    "key_lessequal": lambda ab, ba: not ba,
    "key_greater": lambda ab, ba: ba,
    "key_greaterequal": lambda ab, ba: not ab,
    "key_equal": lambda ab, ba: (not ab) and (not ba),
}


def check_keypreds(ck, tu, tree):
    for name, spec in PRED_SPEC.items():
        fns = tree.find(name)
        if not fns:
            continue        # key_greater is not used by any member
        fn = fns[0]
        pa, pb = fn.params[0]["did"], fn.params[1]["did"]

        def classify(e, pa=pa, pb=pb):
            d = ref_of(e)
            return "a" if d == pa else "b" if d == pb else None
        ke = KeyEval(tu, classify)
        rows = []
        for v in WEAK:
            got = ke.truth(returned_expr(fn), v)
            want = spec(v[("a", "b")], v[("b", "a")])
            rows.append((v, got, want))
        badrows = [r for r in rows if r[1] != r[2]]
        if badrows:
            v, got, want = badrows[0]
            ck.violation("KEYPRED-TABLE", fn.qname, name,
                         "%s(a, b) yields %s for less(a,b)=%s, less(b,a)=%s; its name promises %s"
                         % (name, got, v[("a", "b")], v[("b", "a")], want), fn.loc)
        else:
            ck.ok("KEYPRED-TABLE", tree.where(fn), "3 orderings of (a, b) agree with the name")


# ------------------------------------------------------------------ in-node searches
class _Key:
    """a key of the search model: only the tree's comparator may look at its rank (rank None = the garbage beyond slotuse)"""
    __slots__ = ("rank",)

    def __init__(self, rank):
        self.rank = rank

    def __eq__(self, other):
        raise dtable.Undecidable("keys of the search model are compared without the tree's comparator")

    __hash__ = object.__hash__

    def __repr__(self):
        return "key#%s" % self.rank


def _search_exec_class():
    from engine import absexec

    class SearchExec(absexec.Exec):
        """runs one find_lower/find_upper instantiation on a concrete node; compile-time conditions (the binary-search
        threshold, self_verify) are forced either way so that every search variant of the template is executed"""

        def __init__(self, fn, tu, forced):
            absexec.Exec.__init__(self, fn, {"leaf": SEARCH_CAP, "inner": SEARCH_CAP}, tu=tu,
                                  stubs={"operator()": self._less, "key": self._key})
            self.forced = forced
            self.taken = []


        @staticmethod
        def _less(ex, e):
            fc = match.functor_call(e)
            if fc is None or len(fc[1]) != 2 or match.this_field(fc[0]) is None:
                return NotImplemented
            a, b = ex.ev(fc[1][0]), ex.ev(fc[1][1])
            if not isinstance(a, _Key) or not isinstance(b, _Key):
                raise dtable.Undecidable("line %s: the comparator is applied to something that is not a key: %s"
                                         % (e.get("l"), dtable.describe(e)))
            if a.rank is None or b.rank is None:
                raise absexec.Problem("compares the key of a slot at or beyond slotuse (line %s: %s)" % (e.get("l"), dtable.describe(e)))
            return a.rank < b.rank

        @staticmethod
        def _key(ex, e):
            args = kids(e)
            if not e.get("member_call") or len(args) != 2:
                return NotImplemented
            obj, idx = ex.ev(args[0]), ex.ev(args[1])
            if not isinstance(obj, absexec.Node):
                raise dtable.Undecidable("line %s: key() on something that is not the searched node" % e.get("l"))
            ex.check_index(obj, "slotkey", idx, e)
            return obj.slotkey[idx]

        def stmt(self, s):
            if s is not None and s["k"] == "IfStmt" and s.get("id") in self.forced:
                take = self.forced[s["id"]]
                self.taken.append((s["id"], take))
                return self.stmt(kids(s)[1] if take else (kids(s)[2] if len(kids(s)) > 2 else None))
            if s is not None and s["k"] == "DoStmt":
                body, cond = kids(s)
                for _ in range(256):
                    try:
                        self.stmt(body)
                    except absexec._Break:
                        break
                    except absexec._Continue:
                        pass
                    if not self.truth(self.ev(cond)):
                        break
                else:
                    raise ir.AnalysisBroken("loop at line %s does not terminate in the model" % s.get("l"))
                return None
            return absexec.Exec.stmt(self, s)
    return SearchExec


SEARCH_VALS = [     # consistent valuations of less(slotkey, key), less(key, slotkey)
    {("slot", "key"): True, ("key", "slot"): False},
    {("slot", "key"): False, ("key", "slot"): True},
    {("slot", "key"): False, ("key", "slot"): False},
]

SEARCH_CAP = 6          # slots of the model node
SEARCH_RANKS = (1, 3)   # key ranks stored in the node (non-decreasing, repeats allowed); searched keys: 0 .. 4


def search_want(which, ranks, key):
    """position std::lower_bound / std::upper_bound returns on the sorted ranks"""
    for i, r in enumerate(ranks):
        if (which == "find_lower" and not r < key) or (which != "find_lower" and key < r):
            return i
    return len(ranks)


def search_nodes():
    """all non-decreasing key sequences of length 0 .. SEARCH_CAP - 1 over SEARCH_RANKS"""
    out = [()]
    for n in range(1, SEARCH_CAP):
        for ones in range(n + 1):
            out.append((SEARCH_RANKS[0],) * ones + (SEARCH_RANKS[1],) * (n - ones))
    return out


def check_search(ck, tu, tree, fn):
    """find_lower / find_upper are executed on every small sorted node for every searched key (keys are opaque, only the tree's
    comparator orders them); the result must be the position of std::lower_bound / std::upper_bound.  The compile-time
    branches (binary search above the threshold, linear search below, the self-verification) are all executed."""
    from engine import absexec
    SearchExec = _search_exec_class()
    which = fn.name
    if len(fn.params) != 2:
        raise dtable.Undecidable("%s: %s(node, key) expected, found %d parameters" % (fn.loc, which, len(fn.params)))
    nodep, keyp = fn.params[0]["did"], fn.params[1]["did"]
    nty = fn.targs[0] if fn.targs else (fn.params[0].get("ty") or "")
    if "LeafNode" not in nty and "InnerNode" not in nty:
        raise dtable.Undecidable("%s: cannot tell whether this %s searches a leaf or an inner node" % (fn.loc, which))
    ntype = "leaf" if "LeafNode" in nty else "inner"
    consts = [s for s in walk(fn.body) if s["k"] == "IfStmt" and const_int(kids(s)[0]) is not None]
    if len(consts) > 4:
        raise dtable.Undecidable("%s: %d compile-time branches in %s" % (fn.loc, len(consts), which))
    meaning = ("a lower bound is the first slot whose key is not less than the searched key" if which == "find_lower"
               else "an upper bound is the first slot whose key is greater than the searched key")
    variants = {}        # branches actually taken -> (runs, first problem)
    for bits in range(1 << len(consts)):
        forced = {s["id"]: bool((bits >> i) & 1) for i, s in enumerate(consts)}
        sig = None
        for ranks in search_nodes():
            for key in range(SEARCH_RANKS[0] - 1, SEARCH_RANKS[-1] + 2):
                node = absexec.Node("n", ntype, SEARCH_CAP, len(ranks))
                node.slotkey = [_Key(r) for r in ranks] + [_Key(None) for _ in range(SEARCH_CAP - len(ranks))]
                node.slotdata = node.slotkey
                ex = SearchExec(fn, tu, forced)
                ex.env[nodep] = node
                ex.env[keyp] = _Key(key)
                problem = None
                try:
                    got = ex.run(kids(fn.body))
                    if isinstance(got, bool) or not isinstance(got, int):
                        raise dtable.Undecidable("%s: the search returns %r in the model" % (fn.loc, got))
                    want = search_want(which, ranks, key)
                    if got != want:
                        problem = "returns %d, expected %d" % (got, want)
                except absexec.Problem as pr:
                    problem = str(pr)
                except ir.AnalysisBroken as ab:
                    if isinstance(ab, dtable.Undecidable) or "does not terminate" not in str(ab):
                        raise
                    problem = "does not terminate (%s)" % ab
                sig = tuple(ex.taken)
                if sig in variants and variants[sig][1] is not None:
                    continue
                runs = variants[sig][0] if sig in variants else 0
                variants[sig] = (runs + 1, None if problem is None else
                                 "%s on a node with keys %s (ranks in the tree's order) and searched key %d %s; %s"
                                 % (which, list(ranks), key, problem, meaning))
    if len(variants) < 2:
        raise dtable.Undecidable("%s: expected a binary and a linear search variant selected at compile time, found %d variant(s)"
                                 % (fn.loc, len(variants)))
    byid = {s["id"]: s for s in consts}
    for sig, (runs, problem) in sorted(variants.items(), key=lambda kv: [(byid[i].get("l", 0), t) for i, t in kv[0]]):
        label = ",".join("if@%s=%s" % (byid[i].get("l", "?"), "T" if t else "F") for i, t in sig)
        code = "".join("T" if t else "F" for _, t in sig)
        if problem:
            ck.violation("SEARCH-TABLE", fn.qname, "%s:%s" % (code, ntype), "[%s] %s" % (label, problem), fn.loc)
        else:
            ck.ok("SEARCH-TABLE", tree.where(fn, "%s %s" % (ntype, label)),
                  "%d (node, key) cases agree with std::%s" % (runs, "lower_bound" if which == "find_lower" else "upper_bound"))
            ck.states += runs


# ------------------------------------------------------------------ which search each lookup uses
SEARCH_ROLE = {
    "exists": "find_lower", "find": "find_lower", "count": "find_lower", "lower_bound": "find_lower",
    "upper_bound": "find_upper", "insert_descend": "find_lower", "erase_one_descend": "find_lower",
    "erase_iter_descend": "find_lower",
}
MIN_SEARCH_CALLS = {"erase_iter_descend": 1}

_WRAPPERS = ("ImplicitCastExpr", "ParenExpr", "CStyleCastExpr", "CXXStaticCastExpr", "CXXFunctionalCastExpr", "ExprWithCleanups",
             "MaterializeTemporaryExpr", "CXXBindTemporaryExpr")


def peel(e):
    """looks through casts, parentheses, temporaries and single-argument conversions"""
    while e is not None:
        e2 = match.strip_conv(e)
        if e2 is not None and e2["k"] in _WRAPPERS and kids(e2):
            e2 = kids(e2)[0]
        if e2 is e:
            return e
        e = e2
    return e


def value_use(fn, z):
    """what happens to the value of the expression z: ('var', decl id) if it initialises or is assigned to a local,
    ('index', subscript node) if it is itself the index of a subscript, ('shifted-index', subscript node, c) if z + c (c != 0)
    is the index, else None (not understood)"""
    n = z
    p = fn.parent(n)
    shift = 0
    while p is not None:
        if p["k"] in _WRAPPERS:
            n, p = p, fn.parent(p)
            continue
        b = match.binop(p, ("+", "-")) if p["k"] == "BinaryOperator" else None
        if b and b[1].get("id") == n.get("id") and const_int(b[2]) is not None:
            shift += const_int(b[2]) if b[0] == "+" else -const_int(b[2])
            n, p = p, fn.parent(p)
            continue
        if b and b[0] == "+" and b[2].get("id") == n.get("id") and const_int(b[1]) is not None:
            shift += const_int(b[1])
            n, p = p, fn.parent(p)
            continue
        break
    if p is None:
        return None
    if shift:
        ip = match.index_parts(p)
        if ip and ip[1] is not None and ip[1].get("id") == n.get("id"):
            return ("shifted-index", p, shift)
        return None
    if p["k"] == "VarDecl":
        return ("var", p["did"])
    asg = match.binop(p, ("=",)) if p["k"] in ("BinaryOperator", "CXXOperatorCallExpr") else None
    if asg and asg[2] is not None and asg[2].get("id") == n.get("id") and ref_of(asg[1]) is not None:
        return ("var", ref_of(asg[1]))
    ip = match.index_parts(p)
    if ip and ip[1] is not None and ip[1].get("id") == n.get("id"):
        return ("index", p)
    return None


def child_subscripts(fn):
    """[(subscript node, index expr)] for every X->childid[i] where X is a local / parameter node pointer"""
    out = []
    for q in walk(fn.body):
        ip = match.index_parts(q) if (q["k"] == "ArraySubscriptExpr" or "callee" in q) else None
        if ip:
            f = match.field_of(ip[0])
            if f and f[1] == "childid" and B_param_is_curr(fn, f[0]):
                out.append((q, ip[1]))
    return out


def displaced_index(idx, var):
    """the index is positively another slot than `var`: var + c / var - c with c != 0, or a literal"""
    b = match.binop(idx, ("+", "-"))
    if b and ref_of(b[1]) == var and const_int(b[2]) not in (None, 0):
        return True
    if b and b[0] == "+" and ref_of(b[2]) == var and const_int(b[1]) not in (None, 0):
        return True
    return strip_casts(idx)["k"] == "IntegerLiteral"


def search_level(fn, z):
    """'leaf' / 'inner': the node type an in-node search call works on (template argument, else the type of the node argument)"""
    ta = z["callee"].get("targs") or []
    ty = ta[0] if ta else ((strip_casts(kids(z)[1]).get("ty") or "") if len(kids(z)) > 1 and kids(z)[1] is not None else "")
    if "LeafNode" in ty:
        return "leaf"
    if "InnerNode" in ty:
        return "inner"
    raise dtable.Undecidable("%s: cannot tell whether %s searches a leaf or an inner node" % (fn.nloc(z), dtable.describe(z)))


def descent_searches(tree, fn):
    """([(function, search call)] of fn itself, [(call site in fn, helper, [search calls of the helper])]): a lookup may leave
    (a part of) its descent to a member function of the same tree called on this; one level of such helpers is followed"""
    is_search = lambda z: "callee" in z and z["callee"]["name"] in ("find_lower", "find_upper")
    own = [(fn, z) for z in walk(fn.body) if is_search(z)]
    helpers = []
    for y in walk(fn.body):
        if "callee" not in y or not y.get("member_call") or is_search(y) or not kids(y) or kids(y)[0] is None or \
                strip_casts(kids(y)[0])["k"] != "This":
            continue
        h = tree.by_did.get(y["callee"].get("did"))
        if h is None or h.body is None or h.record != B.BT or h.did == fn.did:
            continue
        hc = [z for z in walk(h.body) if is_search(z)]
        if hc:
            helpers.append((y, h, hc))
    # a local closure (`auto step = [&]() {...};`, never reassigned, every use a direct call) is code of fn itself: its body
    # runs wherever it is called.  A closure that is used in any other way (copied, passed on, address taken) is not followed.
    for d, lam in local_closures(fn).items():
        h = fn.tu.by_did.get(lam["fn"]) if getattr(fn, "tu", None) is not None else None
        if h is None or h.body is None:
            continue
        hc = [z for z in walk(h.body) if is_search(z)]
        if not hc:
            continue
        sites = closure_call_sites(fn, d, lam)
        if sites is None:
            raise dtable.Undecidable("%s: the closure %s contains an in-node search and is used other than by calling it"
                                     % (fn.nloc(lam), dtable.describe(lam)[:60]))
        if any(y2["k"] == "LambdaExpr" for y2 in walk(h.body)):
            raise dtable.Undecidable("%s: a closure with an in-node search contains another closure" % fn.nloc(lam))
        for y in sites:
            helpers.append((y, h, hc))
    return own, helpers


def local_closures(fn):
    """{decl id: LambdaExpr} for the locals of fn that are initialised with a non-generic lambda and never assigned"""
    out = {}
    for n in walk(fn.body):
        if n["k"] == "VarDecl" and kids(n) and kids(n)[0] is not None:
            lam = peel(kids(n)[0])
            if lam is not None and lam["k"] == "LambdaExpr" and "fn" in lam:
                out[n["did"]] = lam
    return {d: lam for d, lam in out.items() if not writes_to(fn.body, {d})}


def closure_call_sites(fn, d, lam):
    """the calls closure(args) of the local closure d in fn; None if d is mentioned in any other way"""
    sites, called = [], set()
    for y in walk(fn.body):
        fc = match.functor_call(y) if "callee" in y else None
        if fc is not None and ref_of(strip_casts(fc[0])) == d and y["callee"].get("did") == lam["fn"]:
            sites.append(y)
            called |= {x.get("id") for x in walk(fc[0])}
    for y in walk(fn.body):
        if y["k"] == "DeclRefExpr" and ref_of(y) == d and y.get("id") not in called:
            return None
    return sites


def searched_node_is_result_of(fn, own, y):
    """a leaf-level search of fn works on the node the call y returned (through casts and never-reassigned locals)"""
    inits, assigns = B.local_inits(fn)

    def is_y(e, depth=0):
        e = peel(e)
        if e is None or depth > 4:
            return False
        if e.get("id") == y.get("id"):
            return True
        d = ref_of(e)
        return d is not None and d in inits and d not in assigns and not writes_to(fn.body, {d}) and is_y(inits[d], depth + 1)
    return any(search_level(fn, z) == "leaf" and len(kids(z)) > 1 and is_y(kids(z)[1]) for _, z in own)


def check_descent(ck, tree):
    for name, want in SEARCH_ROLE.items():
        for fn in tree.find(name):
            own, helpers = descent_searches(tree, fn)
            calls, seen = list(own), set()
            for _, h, hc in helpers:                 # a helper / closure called from several places counts once
                for z in hc:
                    if z.get("id") not in seen:
                        seen.add(z.get("id"))
                        calls.append((h, z))
            need = MIN_SEARCH_CALLS.get(name, 2)
            if len(calls) < need:
                raise dtable.Undecidable("%s: %s() is expected to descend with at least %d in-node searches, found %d"
                                         % (fn.loc, name, need, len(calls)))
            wrong = [(o, z) for o, z in calls if z["callee"]["name"] != want]
            kinds = sorted({search_level(o, z) for o, z in calls})
            cst = "const" if fn.d.get("const") else "mutable"
            if wrong:
                o, z = wrong[0]
                if value_use(o, z) is None:
                    raise dtable.Undecidable("%s: use of the result of %s not understood" % (o.nloc(z), dtable.describe(z)))
                if o is not fn and o.kind == "lambda":
                    # the other search sits in a local closure that fn calls directly: code of fn itself.  A closure that holds
                    # both searches may choose between them by a flag
                    if any(z2["callee"]["name"] == want for o2, z2 in calls if o2 is o):
                        site = [y for y, h, _ in helpers if h is o]
                        raise dtable.Undecidable("%s: %s() calls a closure that searches with both %s and %s; which one is the "
                                                 "descent of %s() is not understood" % (fn.nloc(site[0]), name, want,
                                                                                        z["callee"]["name"], name))
                elif o is not fn:
                    # the other search sits in a helper: evidence only if the helper's result is the leaf this lookup searches
                    # and the helper has no search of the wanted kind beside it (a helper shared by lower_bound and upper_bound
                    # may choose the search by a flag)
                    site = [y for y, h, _ in helpers if h is o]
                    mixed = any(z2["callee"]["name"] == want for o2, z2 in calls if o2 is o)
                    if mixed or not any(searched_node_is_result_of(fn, own, y) for y in site):
                        raise dtable.Undecidable("%s: %s() calls %s(), which searches with %s; whether that is the descent of %s() "
                                                 "is not understood" % (fn.nloc(site[0]), name, o.name, z["callee"]["name"], name))
                lvl = search_level(o, z)
                ck.violation("DESCENT-SEARCH", fn.qname, "%s:%s:%s" % (name, cst, lvl),
                             "%s() descends with %s at the %s level; every level must use %s, otherwise the position differs "
                             "from std::%s whenever equal keys or separators are met" % (name, z["callee"]["name"], lvl, want,
                                                                                       name if "bound" in name else "set"),
                             o.nloc(z))
                continue
            if need == 2 and kinds != ["inner", "leaf"]:
                raise dtable.Undecidable("%s: %s() searches only at %s level" % (fn.loc, name, kinds))
            # the child followed is the one the search returned
            problem = None
            for o, z in calls:
                if search_level(o, z) != "inner":
                    continue
                subs = child_subscripts(o)
                use = value_use(o, z)
                if use is None:
                    raise dtable.Undecidable("%s: use of the result of the inner search %s not understood"
                                             % (o.nloc(z), dtable.describe(z)))
                if use[0] in ("index", "shifted-index"):
                    if not any(q.get("id") == use[1].get("id") for q, _ in subs):
                        raise dtable.Undecidable("%s: the inner search indexes something that is not childid: %s"
                                                 % (o.nloc(z), dtable.describe(use[1])))
                    if use[0] == "shifted-index":
                        problem = ("the child followed is %s, not childid[result of the inner search]" % dtable.describe(use[1]), use[1], o)
                        break
                    continue
                var = use[1]
                if any(ref_of(i) == var for _, i in subs):
                    continue
                if subs and all(displaced_index(i, var) for _, i in subs):
                    problem = ("the child followed is %s, not childid[result of the inner search]" % dtable.describe(subs[0][0]), subs[0][0], o)
                    break
                raise dtable.Undecidable("%s: cannot tell which child %s() follows after %s" % (o.nloc(z), name, dtable.describe(z)))
            if problem:
                ck.violation("DESCENT-SEARCH", fn.qname, "%s:%s:child" % (name, cst), problem[0], problem[2].nloc(problem[1]))
            else:
                ck.ok("DESCENT-SEARCH", tree.where(fn, cst), "%d searches, all %s; child = childid[result]" % (len(calls), want))
    for fn in tree.find("equal_range"):
        rets = [n for n in walk(fn.body) if n["k"] == "ReturnStmt" and kids(n)]
        if len(rets) != 1:
            raise dtable.Undecidable("%s: equal_range() with %d return statements" % (fn.loc, len(rets)))
        inits, assigns = B.local_inits(fn)

        def bound_kind(e, depth=0):
            e = peel(e)
            if e is None or depth > 4:
                return None
            d = ref_of(e)
            if d is not None:
                if d in inits and d not in assigns:
                    return bound_kind(inits[d], depth + 1)
                return None
            if "callee" in e and e.get("member_call") and e["callee"]["name"] in ("lower_bound", "upper_bound") and \
                    kids(e) and strip_casts(kids(e)[0])["k"] == "This":
                return e["callee"]["name"]
            return None
        # evaluation order inside the pair constructor is irrelevant; the argument order is what counts
        pair = None
        for z in walk(rets[0]):
            if z["k"] in ("CXXConstructExpr", "CXXTemporaryObjectExpr", "InitListExpr") and len(kids(z)) == 2:
                pair = kids(z)
                break
            if "callee" in z and z["callee"]["name"] == "make_pair" and len(kids(z)) == 2:
                pair = kids(z)
                break
        if pair is None:
            r = peel(kids(rets[0])[0])
            d = ref_of(r)
            if d is not None and d in inits and d not in assigns:
                for z in walk(inits[d]):
                    if (z["k"] in ("CXXConstructExpr", "CXXTemporaryObjectExpr", "InitListExpr") or
                            ("callee" in z and z["callee"]["name"] == "make_pair")) and len(kids(z)) == 2:
                        pair = kids(z)
                        break
        if pair is None:
            raise dtable.Undecidable("%s: the pair returned by equal_range() is not understood: %s"
                                     % (fn.nloc(rets[0]), dtable.describe(kids(rets[0])[0])))
        order = [bound_kind(a) for a in pair]
        if None in order:
            raise dtable.Undecidable("%s: an element of the pair returned by equal_range() is not understood: %s"
                                     % (fn.nloc(rets[0]), dtable.describe(kids(rets[0])[0])))
        if order != ["lower_bound", "upper_bound"]:
            ck.violation("DESCENT-SEARCH", fn.qname, "equal_range", "equal_range must be (lower_bound(key), upper_bound(key)); found %s"
                         % order, fn.loc)
        else:
            ck.ok("DESCENT-SEARCH", tree.where(fn), "pair(lower_bound, upper_bound)")


def B_param_is_curr(fn, e):
    """the node expression is a local/param pointer (the node currently visited); anything but a sibling"""
    return ref_of(e) is not None


# ------------------------------------------------------------------ hit test
def _syn(k, ch=None, **kw):
    d = {"k": k, "id": _syn.next}
    _syn.next -= 1
    if ch is not None:
        d["ch"] = ch
    d.update(kw)
    return d


_syn.next = -1000


def split_returns(s, as_bool):
    """the statement with every `return c ? a : b;` turned into `if (c) return a; else return b;` and (as_bool) every
    `return e;` of a boolean function into `if (e) return true; else return false;` - same behaviour, decidable by paths"""
    if s is None:
        return None
    k = s["k"]
    if k == "ReturnStmt" and kids(s):
        e = peel(kids(s)[0])
        if e is not None and e["k"] == "ConditionalOperator":
            c, a, b = kids(e)
            return _syn("IfStmt", [c, split_returns(_syn("ReturnStmt", [a], l=s.get("l")), as_bool),
                                   split_returns(_syn("ReturnStmt", [b], l=s.get("l")), as_bool)], l=s.get("l"))
        if as_bool and e is not None and e["k"] != "CXXBoolLiteralExpr" and const_int(e) is None:
            return _syn("IfStmt", [e, _syn("ReturnStmt", [_syn("CXXBoolLiteralExpr", val=1, ty="bool")], l=s.get("l")),
                                   _syn("ReturnStmt", [_syn("CXXBoolLiteralExpr", val=0, ty="bool")], l=s.get("l"))], l=s.get("l"))
        return s
    if k == "CompoundStmt":
        out = dict(s)
        out["ch"] = [split_returns(c, as_bool) for c in kids(s)]
        return out
    if k == "IfStmt":
        out = dict(s)
        ch = list(kids(s))
        out["ch"] = [ch[0]] + [split_returns(c, as_bool) for c in ch[1:]]
        while len(out["ch"]) < 3:
            out["ch"].append(None)
        return out
    return s


def writes_to(e, dids):
    """the expression / statement assigns one of the variables (any assignment operator, ++, --)"""
    for y in walk(e):
        w = match.unop(y, ("++", "--")) if y["k"] in ("UnaryOperator", "CXXOperatorCallExpr") else None
        if w is None and y["k"] in ("BinaryOperator", "CompoundAssignOperator", "CXXOperatorCallExpr"):
            w = match.binop(y, ("=", "+=", "-=", "*=", "/=", "%=", "|=", "&=", "^=", ">>=", "<<="))
        if w and ref_of(w[1]) in dids:
            return True
    return False


def passed_by_reference(e, dids):
    """a call inside e receives one of the variables as an lvalue (reference parameter) or its address: it may change it"""
    for y in walk(e):
        if "callee" in y and y["k"] in ("CallExpr", "CXXMemberCallExpr", "CXXConstructExpr", "CXXTemporaryObjectExpr"):
            for a in kids(y):
                if a is not None and a.get("lv") and a["k"] == "DeclRefExpr" and a["ref"]["id"] in dids:
                    return True
        if y["k"] == "UnaryOperator" and y.get("op") == "&" and ref_of(kids(y)[0]) in dids:
            return True
    return False


HIT_OUTCOMES = {   # function -> (outcome on a hit, outcome on a miss)
    "exists": ("returns true", "returns false"),
    "find": ("returns the position (leaf, slot)", "returns end()"),
    "count": ("counts the slot", "stops counting"),
    "erase_one_descend": ("goes on to erase the slot", "returns btree_not_found"),
    "insert_descend": ("returns the existing entry", "goes on to insert"),
}


def decision_end(fn, st, at, eq, name):
    """index after the statement of the list `st` that decides on the test held by st[at]: st[at] itself if it branches, else
    (the outcome of the test is kept in a boolean flag) the first later statement that consumes the flag"""
    s = st[at]
    flags = {x["did"] for x in kids(s) if x["k"] == "VarDecl"} if s["k"] == "DeclStmt" else set()
    for y in walk(s):
        w = match.binop(y, ("=", "|=", "&=")) if y["k"] in ("BinaryOperator", "CompoundAssignOperator") else None
        t = strip_casts(w[1]) if w else None
        if t is not None and t["k"] == "DeclRefExpr" and (t.get("ty") or "").replace("const ", "") == "bool":
            flags.add(t["ref"]["id"])
    cannot_decide = s["k"] == "DeclStmt" or (s["k"] == "BinaryOperator" and s.get("op") == "=")
    j = at + 1
    while flags and j < len(st):
        s2 = st[j]
        j += 1
        if s2 is None or not any(y["k"] == "DeclRefExpr" and y["ref"]["id"] in flags for y in walk(s2)):
            continue
        if s2["k"] == "DeclStmt":
            flags |= {x["did"] for x in kids(s2) if x["k"] == "VarDecl"}
            continue
        return j
    if cannot_decide:
        raise dtable.Undecidable("%s: the result of the hit test of %s() is kept in a variable whose use was not found"
                                 % (fn.nloc(eq), name))
    return at + 1


def check_hit(ck, tree):
    for name in ("exists", "find", "count", "erase_one_descend", "insert_descend"):
        for fn in tree.find(name):
            check_hit_fn(ck, tree, fn, name)


def check_hit_fn(ck, tree, fn, name):
    """the code between the leaf-level search and the decision is executed as a decision table over the situations
    B (slot < slotuse), E (key_equal(key, key(slot))), N (leaf non-null); what the function does in each situation must be
    what it owes to a hit (B && E && N) or to a miss"""
    eqs = [z for z in walk(fn.body) if "callee" in z and z["callee"]["name"] == "key_equal"]
    if len(eqs) != 1:
        raise dtable.Undecidable("%s: expected one key_equal test in %s(), found %d" % (fn.loc, name, len(eqs)))
    eq = eqs[0]
    cst = "const" if fn.d.get("const") else "mutable"
    keyp = fn.params[0]["did"] if name != "insert_descend" else fn.params[1]["did"]
    inits, assigns = B.local_inits(fn)

    def operand(e, depth=0):
        """'key' | ('slot', leaf variable, slot variable) | None"""
        e = peel(e)
        if e is None or depth > 4:
            return None
        d = ref_of(e)
        if d == keyp:
            return "key"
        if d is not None:
            if d in inits and d not in assigns and not writes_to(fn.body, {d}):
                return operand(inits[d], depth + 1)
            return None
        if "callee" in e and e["callee"]["name"] == "key" and e.get("member_call") and len(kids(e)) == 2:
            lf, sl = ref_of(kids(e)[0]), ref_of(kids(e)[1])
            if lf is not None and sl is not None:
                return ("slot", lf, sl)
        return None
    args = kids(eq)[1:]
    ops = [operand(a) for a in args]
    if len(ops) != 2 or None in ops:
        raise dtable.Undecidable("%s: operands of the hit test not understood: %s" % (fn.nloc(eq), dtable.describe(eq)))
    slots = [o for o in ops if o != "key"]
    if len(slots) != 1:
        ck.violation("HIT-TEST", fn.qname, "%s:%s:operands" % (name, cst),
                     "the hit test does not compare the searched key with the slot found: %s" % dtable.describe(eq), fn.nloc(eq))
        return
    _, leafv, slotv = slots[0]

    # ---- the region: from the definition of the slot to the decision
    chain = []          # (compound, index of the statement holding eq) from the innermost compound outwards
    n = eq
    loop = None
    while True:
        p = fn.parent(n)
        if p is None:
            break
        if p["k"] in ("WhileStmt", "ForStmt", "DoStmt", "CXXForRangeStmt") and loop is None:
            loop = (p, n)
            break
        if p["k"] == "CompoundStmt":
            idx = [i for i, c in enumerate(kids(p)) if c is not None and c.get("id") == n.get("id")]
            if idx:
                chain.append((p, idx[0]))
        n = p
    if (loop is not None) != (name == "count"):
        raise dtable.Undecidable("%s: the hit test of %s() is %s a loop" % (fn.nloc(eq), name, "inside" if loop else "not inside"))
    if loop is not None:
        follows = []
        lp, inner = loop
        if lp["k"] not in ("WhileStmt", "ForStmt"):
            raise dtable.Undecidable("%s: counting loop of an unexpected kind" % fn.nloc(lp))
        _, cond, _, body = match.loop_parts(lp)
        brk = _syn("BreakStmt")
        if cond is not None and cond.get("id") == inner.get("id"):
            region = [_syn("IfStmt", [cond, _syn("NullStmt"), brk])]
        elif body is not None and body.get("id") == inner.get("id"):
            stmts = kids(body) if body["k"] == "CompoundStmt" else [body]
            upto = chain[-1][1] if chain and chain[-1][0].get("id") == body.get("id") else 0
            head = _syn("CompoundStmt", list(stmts[:decision_end(fn, stmts, upto, eq, name)]))
            region = [_syn("IfStmt", [cond, head, brk])] if cond is not None else [head]
        else:
            raise dtable.Undecidable("%s: the hit test sits in the init/increment of the counting loop" % fn.nloc(lp))
    else:
        region = None
        follows = []
        for comp, at in chain:
            st = kids(comp)
            for i in range(at, -1, -1):
                s = st[i]
                if s is None:
                    continue
                defines = (s["k"] == "DeclStmt" and any(v.get("did") == slotv for v in kids(s))) or \
                    (i < at and s["k"] not in ("DeclStmt",) and writes_to(s, {slotv}))
                if defines:
                    end = len(st)
                    if name in ("erase_one_descend", "insert_descend"):
                        # these go on with other work: the region ends with the statement that decides; a test kept in a
                        # flag is decided by the first statement that consumes the flag
                        end = decision_end(fn, st, at, eq, name)
                    region = list(st[i:end])
                    # a path that falls out of the region meets this statement next
                    follows = [s2 for s2 in st[end:] if s2 is not None and s2["k"] not in ("NullStmt", "DoStmt")][:1]
                    break
            if region is not None:
                break
        if region is None:
            raise dtable.Undecidable("%s: the definition of the slot tested by %s() was not found" % (fn.nloc(eq), name))
    region = [split_returns(s, name == "exists") for s in region]

    def atomize(n, run):
        n = strip_casts(n)
        if n.get("id") == eq["id"]:
            return "E", False
        b = match.binop(n, ("<", ">=", ">", "<=", "!=", "=="))
        if b:
            op, l, r = b
            # slot <= slotuse always holds for the result of the in-node search, so != / == test the bound as well
            f = match.field_of(r)
            if ref_of(l) == slotv and f and f[1] == "slotuse" and ref_of(f[0]) == leafv:
                return {"<": ("B", False), ">=": ("B", True), "!=": ("B", False), "==": ("B", True)}.get(op)
            f = match.field_of(l)
            if ref_of(r) == slotv and f and f[1] == "slotuse" and ref_of(f[0]) == leafv:
                return {">": ("B", False), "<=": ("B", True), "!=": ("B", False), "==": ("B", True)}.get(op)
            if op in ("!=", "=="):
                for x, y in ((l, r), (r, l)):
                    if B.is_null(y) and ref_of(x) == leafv:
                        return "N", op == "=="
        if ref_of(n) == leafv or (match.ptr_truth(n) is not None and ref_of(match.ptr_truth(n)) == leafv):
            return "N", False
        return None
    atomize = B.with_local_lambdas(atomize, B.Roles(fn))
    leaves = dtable.explore(_syn("CompoundStmt", region), atomize, fn)
    atoms = dtable.atoms_of(leaves)

    def outcome(lf):
        for ev in lf["events"]:
            if ev[0] in ("expr", "loop") and (writes_to(ev[1], {slotv, leafv}) or passed_by_reference(ev[1], {slotv, leafv})):
                raise dtable.Undecidable("%s: the slot or the leaf is changed between the search and the hit test" % fn.nloc(ev[1]))
        kind, payload = lf["stop"]
        if kind == "end" and follows and follows[0]["k"] == "ReturnStmt":
            kind, payload = "return", (kids(follows[0])[0] if kids(follows[0]) else None, follows[0])
        if name == "count":
            if kind == "end":
                return "counts the slot"
            if kind in ("break", "return"):
                return "stops counting"
        elif kind == "return":
            v = peel(payload[0]) if payload and payload[0] is not None else None
            if name == "exists" and v is not None and (v["k"] == "CXXBoolLiteralExpr" or const_int(v) is not None):
                return "returns true" if const_int(v) else "returns false"
            if name == "find" and v is not None:
                if any("callee" in z and z["callee"]["name"] == "end" for z in walk(v)):
                    return "returns end()"
                if v["k"] in ("CXXConstructExpr", "CXXTemporaryObjectExpr", "InitListExpr") and len(kids(v)) == 2 and \
                        ref_of(kids(v)[0]) == leafv and ref_of(kids(v)[1]) == slotv:
                    return "returns the position (leaf, slot)"
            if name == "erase_one_descend" and v is not None and \
                    any(z["k"] == "DeclRefExpr" and z["ref"]["name"] == "btree_not_found" for z in walk(v)):
                return "returns btree_not_found"
            if name == "insert_descend":
                return "returns the existing entry"
        elif kind == "end" and name == "erase_one_descend":
            return "goes on to erase the slot"
        elif kind == "end" and name == "insert_descend":
            return "goes on to insert"
        raise dtable.Undecidable("%s: what %s() does after the hit test is not understood (%s at line %s)"
                                 % (fn.nloc(eq), name, kind, (payload[1].get("l") if kind == "return" and payload else "?")))
    on_hit, on_miss = HIT_OUTCOMES[name]
    dead = name == "insert_descend" and tree.dup       # duplicates allowed: never `already present`
    if dead:
        on_hit = on_miss
    bad = None
    n_sit = 0
    for v, lf in dtable.table(leaves, None, atoms):
        n_sit += 1
        hit = v.get("B", True) and v.get("E", True) and v.get("N", True)
        got = outcome(lf)
        want = on_hit if hit else on_miss
        if got != want:
            bad = (v, got, want)
            break
    if bad is None and not dead:
        for a, what in (("B", "tests slot < slotuse"), ("E", "tests key_equal(key, key(slot))")):
            if a not in atoms:
                # closed world: every condition between the search and the decision was understood, none of them is this test
                bad = ({}, "never %s" % what, None)
                break
    if bad is not None:
        v, got, want = bad
        if want is None:
            msg = "%s() %s before it decides; a hit is `slot < slotuse && key_equal(key, key(slot))`" % (name, got)
        elif dead:
            msg = ("with duplicates allowed insert must never report `already present`, but in situation {%s} it %s"
                   % (dtable.fmt_val(v), got))
        else:
            msg = ("in situation {%s} %s() %s; expected here: %s (a hit is `slot < slotuse && key_equal(key, key(slot))`)"
                   % (dtable.fmt_val(v), name, got, want))
        ck.violation("HIT-TEST", fn.qname, "%s:%s" % (name, cst), msg, fn.nloc(eq))
    else:
        ck.ok("HIT-TEST", tree.where(fn, cst), "%d situations; hit -> %s, miss -> %s%s"
              % (n_sit, HIT_OUTCOMES[name][0], on_miss, " (duplicates allowed: the `already present` exit is dead)" if dead else ""))


# ------------------------------------------------------------------ duplicate-run walk of erase(iterator)
def advance_amount(y, var):
    """c if y is var += c / var -= c / var = var + c / var = c + var / var = var - c / ++var / --var (c a literal), else None"""
    u = match.unop(y, ("++", "--")) if y["k"] in ("UnaryOperator", "CXXOperatorCallExpr") else None
    if u and ref_of(u[1]) == var:
        return 1 if u[0] == "++" else -1
    b = match.binop(y, ("+=", "-=")) if y["k"] in ("CompoundAssignOperator", "CXXOperatorCallExpr") else None
    if b and ref_of(b[1]) == var and const_int(b[2]) is not None:
        return const_int(b[2]) if b[0] == "+=" else -const_int(b[2])
    b = match.binop(y, ("=",)) if y["k"] in ("BinaryOperator", "CXXOperatorCallExpr") else None
    if b and ref_of(b[1]) == var:
        r = match.binop(b[2], ("+", "-"))
        if r and ref_of(r[1]) == var and const_int(r[2]) is not None:
            return const_int(r[2]) if r[0] == "+" else -const_int(r[2])
        if r and r[0] == "+" and ref_of(r[2]) == var and const_int(r[1]) is not None:
            return const_int(r[1])
    return None


def check_iter_walk(ck, tu, tree):
    """what the walk does after a child did not hold the iterator's leaf is executed for every situation
    (slot < / == slotuse) x (order of separator and key): it may only give up when the separator proves the key cannot follow,
    otherwise it must advance to the next child"""
    fn = tree.one("erase_iter_descend")
    if not tree.dup:
        # unique keys: the leaf of the iterator is always below the first candidate child
        ck.ok("ITER-WALK-STOP", tree.where(fn), "unique keys: the first candidate child holds the leaf, the stop test is never decisive",
              nontrivial=False)
        return
    iterp = fn.params[0]["did"]
    is_rec = lambda z: "callee" in z and z["callee"]["name"] == "erase_iter_descend"      # noqa: E731
    loops = [l for l in match.loops_in(fn.body) if any(is_rec(z) for z in walk(l))]
    recs = [z for z in walk(fn.body) if is_rec(z)]
    if len(loops) != 1 or len(recs) != 1 or loops[0]["k"] not in ("WhileStmt", "ForStmt"):
        raise dtable.Undecidable("%s: the loop of erase_iter_descend over the candidate children was not found "
                                 "(%d loops, %d recursive calls)" % (fn.loc, len(loops), len(recs)))
    loop, rec = loops[0], recs[0]
    slotv = ref_of(kids(rec)[1 + B.P_PSLOT]) if len(kids(rec)) > 1 + B.P_PSLOT else None
    if slotv is None:
        raise dtable.Undecidable("%s: the slot handed to the recursive call is not a variable: %s" % (fn.nloc(rec), dtable.describe(rec)))
    _, _, inc, body = match.loop_parts(loop)
    stmts = kids(body) if body is not None and body["k"] == "CompoundStmt" else [body]
    at = [i for i, s in enumerate(stmts) if s is not None and any(z.get("id") == rec["id"] for z in walk(s))]
    if not at:
        raise dtable.Undecidable("%s: the recursive call is not in the body of the walk" % fn.nloc(rec))
    region = _syn("CompoundStmt", list(stmts[at[0]:]))
    inside = {y.get("id") for y in walk(region)}
    for y in walk(loop):
        if y.get("id") not in inside and "callee" in y and y.get("member_call") and y["callee"].get("record") == BT \
                and y["callee"]["name"].startswith("key_"):
            raise dtable.Undecidable("%s: the walk compares keys outside the statements that follow the recursive call: %s"
                                     % (fn.nloc(y), dtable.describe(y)))
    inc_ids = {y.get("id") for y in walk(inc)} if inc is not None else set()
    for y in walk(loop):
        if y.get("id") not in inside and y.get("id") not in inc_ids and (writes_to_node(y, slotv) or passed_by_reference(y, {slotv})) \
                and not any(z.get("id") == rec["id"] for z in walk(y)):
            raise dtable.Undecidable("%s: the walk changes the slot outside the statements that follow the recursive call: %s"
                                     % (fn.nloc(y), dtable.describe(y)))
    use = value_use(fn, rec)
    resv = use[1] if use and use[0] == "var" else None

    def reads_slot(e):
        """e is inner->slotkey[slot] / inner->key(slot)"""
        e = strip_casts(e)
        ip = match.index_parts(e)
        if ip:
            f = match.field_of(ip[0])
            if f and f[1] == "slotkey" and ref_of(f[0]) is not None and ref_of(ip[1]) == slotv:
                return True
        return "callee" in e and e["callee"]["name"] == "key" and e.get("member_call") and len(kids(e)) == 2 and \
            ref_of(kids(e)[0]) is not None and ref_of(kids(e)[1]) == slotv

    def classify(e):
        if "callee" in e and e["callee"]["name"] == "key" and e.get("member_call") and len(kids(e)) == 1 and ref_of(kids(e)[0]) == iterp:
            return "key"
        if reads_slot(e):
            return "slot"
        return None

    def is_pred(n):
        return "callee" in n and n.get("member_call") and n["callee"].get("record") == BT and n["callee"]["name"].startswith("key_") \
            and kids(n) and strip_casts(kids(n)[0])["k"] == "This"

    def bound(n):
        """True / False if n tests slot < slotuse / its negation (slot <= slotuse holds inside the walk), else None"""
        b = match.binop(n, ("<", ">=", ">", "<=", "!=", "=="))
        if not b:
            return None
        op, l, r = b
        f = match.field_of(r)
        if ref_of(l) == slotv and f and f[1] == "slotuse" and ref_of(f[0]) is not None:
            return {"<": True, "!=": True, ">=": False, "==": False}.get(op)
        f = match.field_of(l)
        if ref_of(r) == slotv and f and f[1] == "slotuse" and ref_of(f[0]) is not None:
            return {">": True, "!=": True, "<=": False, "==": False}.get(op)
        return None

    def child_failed(n):
        """n is <result of the recursive call>.has(btree_not_found)"""
        if not ("callee" in n and n["callee"]["name"] == "has" and n.get("member_call") and len(kids(n)) == 2):
            return False
        if not any(z["k"] == "DeclRefExpr" and z["ref"]["name"] == "btree_not_found" for z in walk(kids(n)[1])):
            return False
        recv = kids(n)[0]
        return (resv is not None and ref_of(recv) == resv) or any(z.get("id") == rec["id"] for z in walk(recv))
    bad = None
    n_sit = 0
    gives_up_somewhere = False
    ke = KeyEval(tu, classify)
    lam_roles = B.Roles(fn)
    for kv in SEARCH_VALS:
        for bv in (True, False):
            def atomize(n, run, kv=kv, bv=bv):
                n = strip_casts(n)
                if is_pred(n):
                    if not bv and any(reads_slot(z) for z in walk(n)):
                        return ("OOB",), False
                    return ke.truth(n, kv)
                t = bound(n)
                if t is not None:
                    return t == bv
                if child_failed(n):
                    return "F", False
                return None
            leaves = dtable.explore(region, B.with_local_lambdas(atomize, lam_roles), fn)
            for lf in leaves:
                if lf["val"].get("F") is False:
                    continue        # the child held the leaf: not part of the walk
                n_sit += 1
                kind, payload = lf["stop"]
                where = payload[1] if kind == "return" and payload else loop
                if ("OOB",) in lf["val"]:
                    bad = bad or ("the stop test reads slotkey[slot] although slot == slotuse (there is no such separator)", kv, where)
                    continue
                if kind in ("return", "break"):
                    gives_up_somewhere = True
                    if not bv:
                        bad = bad or ("the walk gives up at the last child without a separator to justify it", kv, where)
                        continue
                    sk_key, key_sk = kv[("slot", "key")], kv[("key", "slot")]
                    if sk_key:
                        continue      # infeasible: the walk starts at find_lower(key), separators ascend
                    if not key_sk:
                        bad = bad or ("the walk over a run of equal keys gives up at a child whose separator equals the key "
                                      "(less(sep,key)=false, less(key,sep)=false); entries with that key may continue in the next child, "
                                      "so erase(iterator) silently fails where std::multiset::erase(iterator) removes the element", kv, where)
                    continue
                if kind not in ("end", "continue"):
                    raise dtable.Undecidable("%s: the walk leaves the loop body by %s" % (fn.nloc(loop), kind))
                # the walk goes on: it must have advanced to the next child
                writes = []
                for ev in lf["events"]:
                    if ev[0] == "loop" and writes_to(ev[1], {slotv}):
                        raise dtable.Undecidable("%s: the slot is changed inside a nested loop of the walk" % fn.nloc(ev[1]))
                    if ev[0] == "expr":
                        if passed_by_reference(ev[1], {slotv}) and not any(z.get("id") == rec["id"] for z in walk(ev[1])):
                            raise dtable.Undecidable("%s: the slot is handed to a call that may change it" % fn.nloc(ev[1]))
                        writes += [y for y in walk(ev[1]) if writes_to_node(y, slotv)]
                if loop["k"] == "ForStmt" and inc is not None:
                    writes += [y for y in walk(inc) if writes_to_node(y, slotv)]
                if not writes:
                    bad = bad or ("after a child that does not hold the leaf the walk never advances to the next child", kv, loop)
                elif len(writes) == 1 and advance_amount(writes[0], slotv) not in (None, 1):
                    bad = bad or ("after a child that does not hold the leaf the walk moves by %d children instead of one"
                                  % advance_amount(writes[0], slotv), kv, writes[0])
                elif not (len(writes) == 1 and advance_amount(writes[0], slotv) == 1):
                    raise dtable.Undecidable("%s: how the walk advances the slot is not understood: %s"
                                             % (fn.nloc(writes[0]), dtable.describe(writes[0])))
    if bad:
        ck.violation("ITER-WALK-STOP", fn.qname, "advance" if ("never advances" in bad[0] or "moves by" in bad[0]) else "stop-test",
                     "%s [less(sep,key)=%s, less(key,sep)=%s]" % (bad[0], bad[1][("slot", "key")], bad[1][("key", "slot")]), fn.nloc(bad[2]))
    elif gives_up_somewhere:
        ck.ok("ITER-WALK-STOP", tree.where(fn), "%d situations: the walk only gives up when the separator proves the key cannot follow, "
              "otherwise it advances by one child" % n_sit)
    else:
        ck.ok("ITER-WALK-STOP", tree.where(fn), "%d situations, no early exit: all children from find_lower(key) on are searched" % n_sit)


def writes_to_node(y, var):
    """the node y itself is an assignment / increment / decrement of var"""
    w = match.unop(y, ("++", "--")) if y["k"] in ("UnaryOperator", "CXXOperatorCallExpr") else None
    if w is None and y["k"] in ("BinaryOperator", "CompoundAssignOperator", "CXXOperatorCallExpr"):
        w = match.binop(y, ("=", "+=", "-=", "*=", "/=", "%=", "|=", "&=", "^=", ">>=", "<<="))
    return bool(w) and ref_of(w[1]) == var


# ------------------------------------------------------------------ void helpers with out-parameters, read as inline code
def _const_trip_unroll(loop):
    """the statements of `for (T v = a; v < b; ++v) body` with literal a, b, at most 4 rounds, v only read in the body and no
    break / continue / goto in it: the body once per round with v replaced by its value; None for any other loop"""
    if loop["k"] != "ForStmt":
        return None
    init, cond, inc, body = match.loop_parts(loop)
    if init is None or cond is None or inc is None or init["k"] != "DeclStmt":
        return None
    decls = [x for x in kids(init) if x is not None]
    if len(decls) != 1 or decls[0]["k"] != "VarDecl" or not kids(decls[0]) or const_int(kids(decls[0])[0]) is None:
        return None
    if (decls[0].get("ty") or "").replace("const ", "") not in ("int", "unsigned int", "unsigned", "unsigned short", "short", "long",
                                                               "unsigned long", "size_t", "std::size_t"):
        return None
    v, a = decls[0]["did"], const_int(kids(decls[0])[0])
    b = match.binop(cond, ("<", "<=", "!=")) if cond["k"] == "BinaryOperator" else None
    if not b or ref_of(b[1]) != v or const_int(b[2]) is None:
        return None
    hi = const_int(b[2]) + (1 if b[0] == "<=" else 0)
    if advance_amount(inc, v) != 1 or inc["k"] not in ("UnaryOperator", "CompoundAssignOperator", "BinaryOperator"):
        return None
    if a < 0 or hi < a or hi - a > 4:
        return None
    if writes_to(body, {v}) or passed_by_reference(body, {v}):
        return None
    if any(y["k"] in ("BreakStmt", "ContinueStmt", "GotoStmt", "LabelStmt", "LambdaExpr") for y in walk(body)):
        return None
    ty = decls[0].get("ty")
    return [dtable._subst(body, {v: _syn("IntegerLiteral", val=i, ty=ty, l=loop.get("l"))}) for i in range(a, hi)]


def _unroll_all(s):
    if s is None:
        return None
    if s["k"] == "ForStmt":
        u = _const_trip_unroll(s)
        if u is not None:
            return _syn("CompoundStmt", [_unroll_all(x) for x in u], l=s.get("l"))
        return s
    if s["k"] in ("CompoundStmt", "IfStmt") and "init" not in s and "condvar" not in s:
        out = dict(s)
        ch = list(kids(s))
        keep = 1 if s["k"] == "IfStmt" else 0
        out["ch"] = ch[:keep] + [_unroll_all(c) for c in ch[keep:]]
        return out
    return s


def _without_returns(stmts, budget):
    """the statement list of a void function with every `return;` replaced by nesting what follows into the branches that go
    on (same behaviour, no jump); None if a return sits inside a construct that is not a block or an if"""
    out = []
    for i, st in enumerate(stmts):
        if st is None:
            continue
        if not any(y["k"] in ("ReturnStmt", "GotoStmt", "LabelStmt", "CXXThrowExpr") for y in walk(st)):
            out.append(st)
            continue
        budget[0] -= 1
        if budget[0] < 0:
            return None
        rest = list(stmts[i + 1:])
        if st["k"] == "ReturnStmt":
            return out if not kids(st) or kids(st)[0] is None else None
        if st["k"] == "CompoundStmt":
            r = _without_returns(list(kids(st)) + rest, budget)
            return None if r is None else out + r
        if st["k"] == "IfStmt" and "init" not in st and "condvar" not in st:
            c, t, e = (list(kids(st)) + [None, None])[:3]
            if any(y["k"] in ("ReturnStmt", "GotoStmt", "LabelStmt", "CXXThrowExpr") for y in walk(c)):
                return None
            tt = _without_returns(([t] if t is not None else []) + rest, budget)
            ee = _without_returns(([e] if e is not None else []) + rest, budget)
            if tt is None or ee is None:
                return None
            out.append(_syn("IfStmt", [c, _syn("CompoundStmt", tt, l=st.get("l")), _syn("CompoundStmt", ee, l=st.get("l"))], l=st.get("l")))
            return out
        return None
    return out


def inlined_void_helper(tree, fn, call):
    """the body of a void member helper called as a statement `helper(a, b, out1, out2);` on this, as a block of the caller:
    reference parameters stand for the variables passed, the other parameters for the (plain variable or literal) arguments;
    None whenever the substitution could change the meaning (argument with effects or reading memory, a value parameter that
    the helper assigns or that names a variable it also receives by reference, recursion, return inside a loop, ...)"""
    if "callee" not in call or not call.get("member_call") or call["k"] != "CXXMemberCallExpr":
        return None
    a = kids(call)
    if not a or a[0] is None or strip_casts(a[0])["k"] != "This":
        return None
    h = tree.by_did.get(call["callee"].get("did"))
    if h is None or h.body is None or h.did == fn.did or h.record != B.BT or h.d.get("ret") != "void" or h.d.get("virtual"):
        return None
    actual = a[1:]
    if len(actual) != len(h.params) or any(x is None or x["k"] == "DefaultArg" for x in actual):
        return None
    mapping, byref, byval = {}, set(), set()
    for prm, arg in zip(h.params, actual):
        ty = (prm.get("ty") or "").rstrip()
        if ty.endswith("&&"):
            return None
        base = ty[:-1].rstrip() if ty.endswith("&") else ty
        # T& with T not const-qualified at top level (`const node*&` is a mutable reference to a pointer)
        mutable_ref = ty.endswith("&") and not (base.endswith("const") or ("*" not in base and base.startswith("const ")))
        if mutable_ref:
            if arg["k"] != "DeclRefExpr" or arg["ref"].get("kind") not in ("local", "param"):
                return None
            byref.add(arg["ref"]["id"])
            mapping[prm["did"]] = arg
        else:
            x = strip_casts(arg)
            if x is None or not (x["k"] == "DeclRefExpr" and x["ref"].get("kind") in ("local", "param") or
                                 x["k"] in ("IntegerLiteral", "CXXBoolLiteralExpr", "NullPtr", "CXXNullPtrLiteralExpr", "GNUNullExpr")):
                return None
            if x["k"] == "DeclRefExpr":
                byval.add(x["ref"]["id"])
            # the parameter is a copy: the helper must not change it, nor the variable it is copied from
            if writes_to(h.body, {prm["did"]}) or passed_by_reference(h.body, {prm["did"]}):
                return None
            mapping[prm["did"]] = arg
    if byref & byval:
        return None
    # the helper calls nothing that could reach the caller's variables other than through its parameters: locals and
    # parameters of the caller are not visible to it, so only the parameters matter
    if any("callee" in y and y["callee"].get("did") in (h.did, fn.did) for y in walk(h.body)):
        return None
    if any(y["k"] == "LambdaExpr" for y in walk(h.body)):
        return None
    body = _unroll_all(h.body)
    stmts = _without_returns(list(kids(body)) if body["k"] == "CompoundStmt" else [body], [12])
    if stmts is None:
        return None
    return dtable._subst(_syn("CompoundStmt", stmts, l=call.get("l")), mapping)


def with_helpers_inlined(tree, fn, s):
    """statement s with every statement-level call of a void helper (see inlined_void_helper) replaced by the helper's body"""
    if s is None:
        return None
    if s["k"] in ("CompoundStmt", "IfStmt") and "init" not in s and "condvar" not in s:
        out = dict(s)
        ch = list(kids(s))
        keep = 1 if s["k"] == "IfStmt" else 0
        out["ch"] = ch[:keep] + [with_helpers_inlined(tree, fn, c) for c in ch[keep:]]
        return out
    x = s
    while x is not None and x["k"] in ("ExprWithCleanups", "ParenExpr") and kids(x):
        x = kids(x)[0]
    r = inlined_void_helper(tree, fn, x) if x is not None else None
    return r if r is not None else s


# ------------------------------------------------------------------ sibling bookkeeping of the descents
class SiblingRoles(B.Roles):
    """like Roles, but a local that is assigned anywhere is never identified with the parameter it was initialised from"""

    def __init__(self, fn):
        B.Roles.__init__(self, fn)
        self.written = {d for d in self.inits if writes_to(fn.body, {d})} | set(self.assigns)

    def param_of(self, e, depth=0):
        e = strip_casts(e)
        d = ref_of(e) if e is not None else None
        if d is None or depth > 4:
            return None
        if d in self.pidx:
            return self.pidx[d]
        if d in self.inits and d not in self.written:
            return self.param_of(self.inits[d], depth + 1)
        return None


def check_siblings(ck, tree):
    """the statements that prepare the recursive call are executed for every situation (slot first / last child, left / right
    neighbour null); the values handed to the child as (curr, left, right, left_parent, right_parent, parent, parentslot) are
    classified symbolically and compared with what the B+ tree shape requires"""
    for name in ("erase_one_descend", "erase_iter_descend"):
        fn = tree.one(name)
        roles = SiblingRoles(fn)
        recs = [z for z in walk(fn.body) if "callee" in z and z["callee"]["name"] == name]
        if len(recs) != 1:
            raise dtable.Undecidable("%s: expected one recursive call in %s, found %d" % (fn.loc, name, len(recs)))
        rec = recs[0]
        args = kids(rec)[1:]
        if len(args) <= B.P_PSLOT:
            raise dtable.Undecidable("%s: argument list of the recursive call not understood: %s" % (fn.nloc(rec), dtable.describe(rec)))
        slotv = ref_of(args[B.P_PSLOT])
        if slotv is None:
            raise dtable.Undecidable("%s: the slot handed to the recursive call is not a variable: %s"
                                     % (fn.nloc(rec), dtable.describe(args[B.P_PSLOT])))

        def atomize(n, run):
            n0 = n
            n = strip_casts(n)
            if match.positive_test(n0, slotv) or match.positive_test(n, slotv):
                return "first", True
            b = match.binop(n, ("==", "!=", "<", ">=", ">", "<="))
            if b:
                op, l, r = b
                if ref_of(l) == slotv and ((op in ("==", "<=") and const_int(r) == 0) or (op == "<" and const_int(r) == 1)):
                    return "first", False
                if ref_of(r) == slotv and ((op in ("==", ">=") and const_int(l) == 0) or (op == ">" and const_int(l) == 1)):
                    return "first", False
                # slot <= slotuse holds for the result of the in-node search
                f = match.field_of(r)
                if ref_of(l) == slotv and f and f[1] == "slotuse" and roles.param_of(f[0]) == B.P_CURR:
                    return {"==": ("last", False), ">=": ("last", False), "!=": ("last", True), "<": ("last", True)}.get(op)
                f = match.field_of(l)
                if ref_of(r) == slotv and f and f[1] == "slotuse" and roles.param_of(f[0]) == B.P_CURR:
                    return {"==": ("last", False), "<=": ("last", False), "!=": ("last", True), ">": ("last", True)}.get(op)
                if op in ("==", "!="):
                    for x, y in ((l, r), (r, l)):
                        if B.is_null(y) and roles.param_of(x) in (B.P_LEFT, B.P_RIGHT):
                            return ("null", roles.param_of(x)), op == "!="
            pt = match.ptr_truth(n0) or match.ptr_truth(n)
            if pt is not None and roles.param_of(pt) in (B.P_LEFT, B.P_RIGHT):
                return ("null", roles.param_of(pt)), True
            return None
        atomize = B.with_local_lambdas(atomize, roles)      # (kind() below evaluates conditions with the same atomizer)

        def kind(e, v, got, depth=0):
            """symbolic value of a node pointer expression in situation v: 'null' | a parameter name | 'X.child[off]' | None"""
            e = strip_casts(e)
            if e is None or depth > 8:
                return None
            if B.is_null(e):
                return "null"
            if e["k"] == "ParenExpr":
                return kind(kids(e)[0], v, got, depth + 1)
            if e["k"] == "ConditionalOperator":
                c, a, b = kids(e)
                try:
                    t = dtable.Run(atomize, v, fn).truth(c)
                except dtable._Need:
                    return None
                return kind(a if t else b, v, got, depth + 1)
            d = ref_of(e)
            if d is not None:
                if d in got:
                    return kind(got[d], v, got, depth + 1)
                p = roles.param_of(e)
                if p is not None:
                    return B.NAMES[p]
                if d in roles.inits and d not in roles.written:
                    return kind(roles.inits[d], v, got, depth + 1)
                return None
            ip = match.index_parts(e)
            if ip:
                f = match.field_of(ip[0])
                if f and f[1] == "childid":
                    owner = roles.param_of(f[0])
                    if owner is None:
                        return None
                    idx = strip_casts(ip[1])
                    if ref_of(idx) == slotv:
                        off = "slot"
                    elif const_int(idx) is not None:
                        off = str(const_int(idx))
                    else:
                        bb = match.binop(idx, ("+", "-"))
                        if bb and ref_of(bb[1]) == slotv and const_int(bb[2]) is not None:
                            off = "slot%s%d" % (bb[0], const_int(bb[2]))
                        elif bb and bb[0] == "+" and ref_of(bb[2]) == slotv and const_int(bb[1]) is not None:
                            off = "slot+%d" % const_int(bb[1])
                        elif bb and match.field_of(bb[1]) and match.field_of(bb[1])[1] == "slotuse" and const_int(bb[2]) is not None \
                                and roles.param_of(match.field_of(bb[1])[0]) == owner:
                            # childid[n->slotuse - 1]: index by separator count
                            off = "slotuse%s%d" % (bb[0], const_int(bb[2]))
                        elif match.field_of(idx) and match.field_of(idx)[1] == "slotuse" and roles.param_of(match.field_of(idx)[0]) == owner:
                            off = "slotuse"
                        else:
                            return None
                    return "%s.child[%s]" % (B.NAMES[owner], off)
            return None
        # the statements between the first definition of an argument variable and the recursive call
        holder, inner = fn.parent(rec), rec
        while holder is not None and holder["k"] != "CompoundStmt":
            holder, inner = fn.parent(holder), holder
        if holder is None:
            raise dtable.Undecidable("%s: the recursive call is not inside a block" % fn.nloc(rec))
        stmts = kids(holder)
        at = [i for i, s in enumerate(stmts) if s is not None and s.get("id") == inner.get("id")][0]
        argvars = {ref_of(args[i]) for i in (B.P_CURR, B.P_LEFT, B.P_RIGHT, B.P_LP, B.P_RP, B.P_PARENT)
                   if ref_of(args[i]) is not None and roles.param_of(args[i]) is None}
        start = at
        for i in range(at):
            s = stmts[i]
            if s is None:
                continue
            if (s["k"] == "DeclStmt" and any(x.get("did") in argvars for x in kids(s))) or writes_to(s, argvars):
                start = i
                break
        region = _syn("CompoundStmt", list(stmts[start:at]))
        # a variable written outside the executed statements (before them, or through its address) is not tracked
        for y in walk(fn.body):
            if y["k"] == "UnaryOperator" and y.get("op") == "&" and ref_of(kids(y)[0]) in argvars:
                raise dtable.Undecidable("%s: the address of an argument variable of the recursive call is taken" % fn.nloc(y))
        inside = {y.get("id") for y in walk(region)}
        for y in walk(fn.body):
            if y.get("id") not in inside and any(writes_to_node(y, d) for d in argvars):
                raise dtable.Undecidable("%s: an argument variable of the recursive call is written outside the statements that "
                                         "prepare the call" % fn.nloc(y))
        # a void helper that fills in argument variables through reference parameters is read as if written in place
        region = with_helpers_inlined(tree, fn, region)
        leaves = dtable.explore(region, atomize, fn)
        atoms = dtable.atoms_of(leaves)
        for a in ("first", "last", ("null", B.P_LEFT), ("null", B.P_RIGHT)):
            if a not in atoms:
                atoms.append(a)
        bad = None
        n = 0
        for v, lf in dtable.table(leaves, None, atoms):
            if lf["stop"][0] != "end":
                continue        # this path leaves before the recursive call
            n += 1
            got = {}
            for ev in lf["events"]:
                if ev[0] == "loop" and writes_to(ev[1], argvars | {slotv}):
                    raise dtable.Undecidable("%s: a loop writes an argument variable of the recursive call" % fn.nloc(ev[1]))
                if ev[0] == "decl" and ev[1].get("did") in argvars and kids(ev[1]) and kids(ev[1])[0] is not None:
                    got[ev[1]["did"]] = kids(ev[1])[0]
                if ev[0] != "expr":
                    continue
                if writes_to(ev[1], {slotv}) or passed_by_reference(ev[1], argvars | {slotv}):
                    raise dtable.Undecidable("%s: the slot or an argument variable may change in a way that is not tracked while the "
                                             "arguments of the recursive call are prepared: %s" % (fn.nloc(ev[1]), dtable.describe(ev[1])))
                b = match.binop(ev[1], ("=",)) if ev[1]["k"] in ("BinaryOperator", "CXXOperatorCallExpr") else None
                if b and ref_of(b[1]) in argvars:
                    got[ref_of(b[1])] = b[2]
                elif writes_to(ev[1], argvars):
                    raise dtable.Undecidable("%s: assignment to an argument variable of the recursive call not understood: %s"
                                             % (fn.nloc(ev[1]), dtable.describe(ev[1])))
            want = {
                B.P_CURR: ("curr.child[slot]",), B.P_PARENT: ("curr",),
                # the last child of an inner node with s separators is child[s]; a neighbour below a *different* parent is only
                # tested for null-ness and fill level, it is never a merge or shift partner (UNDERFLOW-LEGAL proves that), so any
                # child of the neighbouring inner node is accepted there, provided it is null exactly when that node is
                # (the library passes left->childid[left->slotuse - 1], which is not even the adjacent child)
                B.P_LEFT: ("curr.child[slot-1]",) if not v["first"] else ("null",) if v[("null", B.P_LEFT)] else ("left.child[", "*"),
                B.P_LP: ("curr",) if not v["first"] else ("left_parent",),
                B.P_RIGHT: ("curr.child[slot+1]",) if not v["last"] else ("null",) if v[("null", B.P_RIGHT)] else ("right.child[", "*"),
                B.P_RP: ("curr",) if not v["last"] else ("right_parent",),
            }
            for i, w in want.items():
                d = ref_of(args[i])
                if d in argvars and d not in got and d in roles.written and d in roles.inits:
                    raise dtable.Undecidable("%s: %s is initialised outside the statements that prepare the recursive call and "
                                             "assigned only on some paths" % (fn.nloc(args[i]), dtable.describe(args[i])))
                if d in argvars and d not in got and d not in roles.inits:
                    g = "<unset>"
                else:
                    g = kind(args[i], v, got)
                    if g is None:
                        e = got.get(d, args[i])
                        raise dtable.Undecidable("%s: value handed to the child as %s not understood: %s"
                                                 % (fn.nloc(e), B.NAMES[i], dtable.describe(e)))
                ok = g.startswith(w[0]) if len(w) == 2 else g == w[0]
                if not ok:
                    shown = w[0] + "*]" if len(w) == 2 else w[0]
                    what = {B.P_CURR: "the child descended into", B.P_PARENT: "the parent handed to the child"}.get(i, "my" + B.NAMES[i])
                    bad = (v, i, "%s is %s, expected %s" % (what, g, shown), got.get(d, args[i]))
                    break
            if bad:
                break
        if bad:
            v, i, text, at_node = bad
            sit = {("%s(%s)" % (k[0], B.NAMES[k[1]]) if isinstance(k, tuple) else str(k)): x for k, x in v.items()}
            sig = name + (":recursion" if i in (B.P_CURR, B.P_PARENT) else ":my" + B.NAMES[i])
            ck.violation("DESCENT-SIBLINGS", fn.qname, sig,
                         "in situation {%s}: %s — the neighbours handed to the child decide which nodes are merged or shifted"
                         % (dtable.fmt_val(sit), text), fn.nloc(at_node) if at_node is not None and at_node.get("l") else fn.nloc(rec))
        elif n == 0:
            raise dtable.Undecidable("%s: no path reaches the recursive call of %s" % (fn.nloc(rec), name))
        else:
            ck.ok("DESCENT-SIBLINGS", tree.where(fn), "%d situations (first/last slot x null neighbours): child, neighbours and their parents as required" % n)


# ------------------------------------------------------------------ front ends
FRONT = {
    "tlx::btree_set": (False, "set"), "tlx::btree_multiset": (True, "set"),
    "tlx::btree_map": (False, "map"), "tlx::btree_multimap": (True, "map"),
}
# members that are not plain forwards (each checked by its own clause below)
FORWARD_ALIAS = {"insert2": "insert"}
NOT_FORWARD = {"operator[]": "calls its own insert()", "swap": "std::swap of the trees"}


def check_frontends(ck, tu):
    seen = set()
    for fn in tu.functions:
        rec = fn.record
        if rec in FRONT and fn.kind in ("ctor",) and rec + fn.full.split("::")[1] not in seen:
            pass
    for rec, (dup, kind) in FRONT.items():
        fns = [f for f in tu.functions if f.record == rec]
        if not fns:
            raise ir.AnalysisBroken("front end %s not instantiated by the witness" % rec)
        # flags: the BTree instantiation behind tree_
        insts = {}
        for f in fns:
            for z in f.nodes():
                if z["k"] == "MemberExpr" and z.get("member") == "tree_":
                    insts.setdefault(z.get("ty", "").replace("const ", ""), f)
        for ty, f in insts.items():
            args = split_targs(ty)
            if len(args) < 6:
                raise ir.AnalysisBroken("cannot read the BTree arguments of %s::tree_: %s" % (rec, ty))
            flag = args[5] == "true"
            if flag != dup:
                ck.violation("FRONTEND-FLAGS", rec, "duplicates", "%s instantiates BTree with Duplicates=%s" % (rec, args[5]), f.loc)
            else:
                ck.ok("FRONTEND-FLAGS", rec + " " + args[3], "Duplicates=%s" % args[5])
        for f in fns:
            if f.name != "get" or not f.record:
                continue
        for f in [x for x in tu.functions if x.record == rec + "::key_of_value" and x.name == "get"]:
            r = peel(returned_expr(f))
            p = f.params[0]["did"]
            fo = match.field_of(r)
            if kind == "set":
                good = ref_of(r) == p
            else:
                good = fo is not None and fo[1] == "first" and ref_of(fo[0]) == p
            # positive evidence of a wrong key: a different member of the entry is returned
            wrong = fo is not None and ref_of(fo[0]) == p and not good
            if not good and not wrong:
                raise dtable.Undecidable("%s: the key extracted by %s is not understood: %s" % (f.loc, f.qname, dtable.describe(r)))
            if not good:
                ck.violation("FRONTEND-FLAGS", f.qname, "key_of_value", "the key of a %s entry must be %s, found %s"
                             % (kind, "the value itself" if kind == "set" else "value.first", dtable.describe(r)), f.loc)
            else:
                ck.ok("FRONTEND-FLAGS", f.qname, "key = " + dtable.describe(r))
        # forwarding
        for f in fns:
            if f.kind in ("ctor", "dtor") or f.name in NOT_FORWARD or f.body is None:
                continue
            if f.name == "operator=":
                continue
            check_forward(ck, f, rec, dup)


def split_targs(ty):
    i = ty.find("<")
    if i < 0:
        return []
    depth = 0
    cur = ""
    out = []
    for ch in ty[i + 1:]:
        if ch == "<":
            depth += 1
        if ch == ">":
            if depth == 0:
                out.append(cur.strip())
                break
            depth -= 1
        if ch == "," and depth == 0:
            out.append(cur.strip())
            cur = ""
        else:
            cur += ch
    return out


CMP_OPS = ("operator==", "operator!=", "operator<", "operator>", "operator<=", "operator>=")
_MIRROR = {"==": "==", "!=": "!=", "<": ">", ">": "<", "<=": ">=", ">=": "<="}
_NEGATE = {"==": "!=", "!=": "==", "<": ">=", ">=": "<", ">": "<=", "<=": ">"}


def compared_relation(e, other):
    """the relation `this REL other` that the expression computes from the two trees (or the two front ends themselves):
    tree_ OP other.tree_ | other.tree_ OP tree_ | *this OP other | other OP *this | !(...) ; None if not of that form"""
    e = peel(e)
    if e is None:
        return None
    u = match.unop(e, ("!",))
    if u:
        inner = compared_relation(u[1], other)
        return _NEGATE[inner] if inner else None
    b = match.binop(e, tuple(_MIRROR))
    if not b:
        return None

    def side(x):
        x = peel(x)
        if match.this_field(x) == "tree_":
            return "mine"
        f = match.field_of(x)
        if f is not None and f[1] == "tree_" and ref_of(f[0]) == other:
            return "other"
        if ref_of(x) == other:
            return "other"
        d = match.deref_of(x)
        if d is not None and strip_casts(d)["k"] == "This":
            return "mine"
        return None
    l, r = side(b[1]), side(b[2])
    if (l, r) == ("mine", "other"):
        return b[0]
    if (l, r) == ("other", "mine"):
        return _MIRROR[b[0]]
    return None


def check_forward(ck, f, rec, dup):
    want = FORWARD_ALIAS.get(f.name, f.name)
    cst = "const" if f.d.get("const") else "mutable"
    sig = "%s:%s:%d" % (f.name, cst, len(f.params))
    pdids = [p["did"] for p in f.params]
    if f.name in CMP_OPS:
        r = returned_expr(f)
        rel = compared_relation(r, pdids[0]) if len(pdids) == 1 else None
        if rel is None:
            raise dtable.Undecidable("%s: %s::%s does not compare the two trees in a recognised way: %s"
                                     % (f.loc, rec, f.name, dtable.describe(r)))
        if "operator" + rel != f.name:
            ck.violation("FRONTEND-FORWARD", f.qname, sig, "%s must compare tree_ %s other.tree_; found %s, which is the relation %s"
                         % (f.name, f.name[8:], dtable.describe(r), rel), f.loc)
        else:
            ck.ok("FRONTEND-FORWARD", "%s::%s" % (rec, f.name), "tree_ %s other.tree_" % f.name[8:], nontrivial=False)
        return
    calls = [z for z in f.nodes() if "callee" in z and z.get("member_call") and match.this_field(kids(z)[0]) == "tree_"]
    own = [z for z in f.nodes() if "callee" in z and z.get("member_call") and strip_casts(kids(z)[0])["k"] == "This"
           and z["callee"]["name"] == f.name and z["callee"].get("record") == rec]
    if not calls and own:
        ck.ok("FRONTEND-FORWARD", "%s::%s %s/%d" % (rec, f.name, cst, len(pdids)), "delegates to its own %s() overload" % f.name,
              nontrivial=False)
        return
    if len(calls) != 1:
        raise dtable.Undecidable("%s: %s::%s() is not a plain forward to one member of the tree (%d calls on tree_)"
                                 % (f.loc, rec, f.name, len(calls)))
    c = calls[0]
    # a plain forward: the call is the whole statement / the whole returned value
    stmts = [s for s in kids(f.body) if s is not None and s["k"] != "NullStmt"]
    plain = len(stmts) == 1 and ((stmts[0]["k"] == "ReturnStmt" and kids(stmts[0]) and peel(kids(stmts[0])[0]).get("id") == c.get("id"))
                                 or peel(stmts[0]).get("id") == c.get("id"))
    if c["callee"]["name"] != want:
        if not plain:
            raise dtable.Undecidable("%s: %s::%s() uses BTree::%s() in a way that is not a plain forward"
                                     % (f.nloc(c), rec, f.name, c["callee"]["name"]))
        ck.violation("FRONTEND-FORWARD", f.qname, sig, "%s() forwards to BTree::%s()" % (f.name, c["callee"]["name"]), f.nloc(c))
        return
    # parameters in order
    inits, assigns = B.local_inits(f)

    def params_in(a, depth=0):
        """(parameter ids read by the argument in order, the argument is nothing but one parameter)"""
        a0 = peel(a)
        d = ref_of(a0)
        if d is not None and d not in pdids and d in inits and d not in assigns and depth < 4:
            return params_in(inits[d], depth + 1)
        ids = [z["ref"]["id"] for z in walk(a) if z["k"] == "DeclRefExpr" and z["ref"]["id"] in pdids]
        return ids, d in pdids
    used, simple = [], True
    for a in kids(c)[1:]:
        if a is None or a["k"] == "DefaultArg":
            continue
        ids, s = params_in(a)
        used += ids
        simple = simple and s
    if used != pdids:
        if not (simple and plain):
            raise dtable.Undecidable("%s: cannot tell how %s::%s() passes its parameters on: %s" % (f.nloc(c), rec, f.name, dtable.describe(c)))
        ck.violation("FRONTEND-FORWARD", f.qname, sig, "%s() does not pass its parameters in order: %s"
                     % (f.name, dtable.describe(c)), f.nloc(c))
        return
    # constness: a const member must reach the const overload
    if bool(f.d.get("const")) != bool(c["callee"].get("const")) and f.d.get("const"):
        ck.violation("FRONTEND-FORWARD", f.qname, sig, "const %s() reaches a non-const tree member" % f.name, f.nloc(c))
        return
    ck.ok("FRONTEND-FORWARD", "%s::%s %s/%d" % (rec, f.name, cst, len(pdids)), "-> tree_.%s(%d args in order)" % (want, len(pdids)),
          nontrivial=False)


# ------------------------------------------------------------------ iterator steps, decided semantically
def _step_exec_class():
    from engine import absexec

    class StepExec(absexec.Exec):
        """iterator step executor: a by-value copy of *this is a snapshot of the position; the pre/post forms of the same
        class may call each other on *this"""

        def __init__(self, fn, tree):
            absexec.Exec.__init__(self, fn, {"leaf": 4, "inner": 4}, tu=tree,
                                  stubs={"operator++": self._twin, "operator--": self._twin})


        def snapshot(self):
            return ("copy", self.this.get("curr_leaf"), self.this.get("curr_slot"))

        @staticmethod
        def _twin(ex, e):
            args = kids(e)
            if not args or e["callee"].get("record") != ex.fn.record or e["callee"].get("did") == ex.fn.did:
                return NotImplemented
            a0 = strip_casts(args[0])
            d = match.deref_of(a0)
            if not (a0["k"] == "This" or (d is not None and strip_casts(d)["k"] == "This")):
                return NotImplemented
            callee = ex.tu.by_did.get(e["callee"].get("did"))
            if callee is None or callee.body is None or ex._depth >= 2:
                return NotImplemented
            r = ex._inline(callee, [a for a in args[1:] if a is not None and a["k"] != "DefaultArg"])
            return r

        def stmt(self, s):
            absexec.Exec.stmt(self, s)
            if s is not None and s["k"] == "DeclStmt":
                for v in kids(s):
                    ty = (v.get("ty") or "").rstrip()
                    if self.env.get(v.get("did")) == ("thisobj",) and not ty.endswith("&") and not ty.endswith("*"):
                        self.env[v["did"]] = self.snapshot()

        def store(self, l, v):
            if v == ("thisobj",) and l[0] == "var":
                v = self.snapshot()
            absexec.Exec.store(self, l, v)
    return StepExec


def check_iter_steps(ck, tree):
    """every ++/-- of the four iterator classes is executed abstractly on a chain of three leaves (the neighbours may be
    missing) for every position; the result must denote the neighbouring element of the global sequence in canonical form
    (forward: slot < slotuse except end() = (tail, slotuse); reverse: slot >= 1 except rend() = (head, 0))"""
    from engine import absexec
    StepExec = _step_exec_class()
    for cls, fwd in (("iterator", True), ("const_iterator", True), ("reverse_iterator", False), ("const_reverse_iterator", False)):
        for op in ("operator++", "operator--"):
            fns = tree.find(op, BT + "::" + cls)
            if len(fns) != 2 or sorted(len(f.params) for f in fns) != [0, 1]:
                raise dtable.Undecidable("%s::%s: expected the pre and the post form, found %d" % (cls, op, len(fns)))
            for fn in fns:
                form = "post" if fn.params else "pre"
                problem, n = None, 0
                for has_prev in (False, True):
                    for has_next in (False, True):
                        for u in (1, 2, 3):
                            for s in range(0, u + 1):
                                if problem:
                                    continue
                                P = absexec.Node("prev", "leaf", 4, 2) if has_prev else None
                                C = absexec.Node("curr", "leaf", 4, u)
                                N = absexec.Node("next", "leaf", 4, 2) if has_next else None
                                C.prev_leaf, C.next_leaf = P, N
                                if P:
                                    P.next_leaf = C
                                if N:
                                    N.prev_leaf = C
                                chain = [x for x in (P, C, N) if x]
                                offs = {}
                                tot = 0
                                for x in chain:
                                    offs[id(x)] = tot
                                    tot += x.slotuse
                                head, tail = chain[0], chain[-1]

                                def index_of(leaf, slot):
                                    """global element index denoted by a canonical position, None if not canonical"""
                                    if fwd:
                                        if slot < leaf.slotuse:
                                            return offs[id(leaf)] + slot
                                        return tot if (leaf is tail and slot == leaf.slotuse) else None
                                    if slot >= 1 and slot <= leaf.slotuse:
                                        return offs[id(leaf)] + slot - 1
                                    return -1 if (leaf is head and slot == 0) else None
                                start = index_of(C, s)
                                if start is None:
                                    continue          # not a position an iterator can hold
                                forward_move = (op == "operator++") == fwd
                                want = start + (1 if forward_move else -1)
                                # stepping past the ends is outside the contract (as for the std containers)
                                if want < (0 if fwd else -1) or want > (tot if fwd else tot - 1):
                                    continue
                                n += 1
                                ex = StepExec(fn, tree)
                                ex.this.update(curr_leaf=C, curr_slot=s)
                                for prm in fn.params:
                                    ex.env[prm["did"]] = 0
                                try:
                                    ret = ex.run(kids(fn.body))
                                except absexec.Problem as pr:
                                    problem = str(pr)
                                    continue
                                leaf2, slot2 = ex.this.get("curr_leaf"), ex.this.get("curr_slot")
                                got = index_of(leaf2, slot2) if isinstance(leaf2, absexec.Node) else None
                                if got != want:
                                    problem = ("from (%s leaf with %d entries, slot %d)%s%s the iterator goes to (%s, slot %s), which %s; it must denote the %s element"
                                               % ("the", u, s, " with a predecessor leaf" if has_prev else "", " with a successor leaf" if has_next else "",
                                                  getattr(leaf2, "name", leaf2), slot2,
                                                  "is not a valid position" if got is None else "is element %d instead of %d" % (got, want),
                                                  "next" if forward_move else "previous"))
                                if problem:
                                    continue
                                # return value: pre returns *this, post the copy taken before the step
                                if isinstance(ret, tuple) and len(ret) == 3 and ret[0] == "obj" and isinstance(ret[2], list) and \
                                        len(ret[2]) == 2 and isinstance(ret[2][0], absexec.Node):
                                    ret = ("copy", ret[2][0], ret[2][1])        # iterator(leaf, slot) built by hand
                                here = "from (the leaf with %d entries, slot %d)" % (u, s)
                                if form == "pre":
                                    if isinstance(ret, tuple) and ret and ret[0] == "copy":
                                        problem = "%s the pre form returns a copy taken at (%s, slot %s); it must return *this" % (
                                            here, getattr(ret[1], "name", ret[1]), ret[2])
                                    elif ret != ("thisobj",):
                                        raise dtable.Undecidable("%s: value returned by the pre form not understood: %r" % (fn.loc, ret))
                                else:
                                    if ret == ("thisobj",):
                                        problem = "%s the post form returns the iterator after the step; it must return the copy taken before the step" % here
                                    elif isinstance(ret, tuple) and ret and ret[0] == "copy":
                                        if ret[1] is not C or ret[2] != s:
                                            problem = "%s the post form returns the position (%s, slot %s); it must return the copy taken before the step" % (
                                                here, getattr(ret[1], "name", ret[1]), ret[2])
                                    else:
                                        raise dtable.Undecidable("%s: value returned by the post form not understood: %r" % (fn.loc, ret))
                if problem:
                    ck.violation("ITER-STEP", fn.qname, "%s:%s:%s" % (cls, op, form), "%s %s of %s: %s" % (form, op, cls, problem), fn.loc)
                else:
                    ck.ok("ITER-STEP", tree.where(fn, form), "%d positions x neighbour configurations: moves to the adjacent element in canonical form" % n)
                    ck.states += n


# ------------------------------------------------------------------ copy / assignment / swap carry the whole tree state
# STATE-TRANSFER.  A field of BTree that no member other than constructors, operator= and swap may write is *configuration*
# (closed world over the instantiated members: today the key order object and the allocator): its value is fixed by
# construction or transfer only, every query consults it, so a copy must take it from the source on every path and a swap
# must exchange it.  The three transfer functions are evaluated over a field-provenance domain (mine.F / other.F / fresh);
# all paths are enumerated; a construct that is not understood and may touch the state is "cannot decide".
_TRANSFER_FNS = ("operator=", "swap")
# frozen: single-argument constructors that only read their argument (allocator rebinding: allocator(const allocator<U>&))
_READING_CTORS = ("std::allocator",)


def _is_bt_field(z):
    return z is not None and z["k"] == "MemberExpr" and z.get("owner") == BT and kids(z)


def _access_is_read(fn, z):
    """the occurrence z (a MemberExpr) cannot modify the object it denotes"""
    cur = z
    for _ in range(12):
        if (cur.get("ty") or "").startswith("const "):
            return True
        p = fn.parent(cur)
        if p is None:
            return False
        k = p["k"]
        if k == "ImplicitCastExpr" and p.get("cast") == "LValueToRValue":
            return True
        if k == "MemberExpr" or k in ("ImplicitCastExpr", "CXXStaticCastExpr", "CStyleCastExpr", "CXXFunctionalCastExpr"):
            cur = p
            continue
        if "callee" in p and kids(p) and kids(p)[0] is cur and (p.get("member_call") or p.get("op") == "()") and p["callee"].get("const"):
            return True
        if k == "CXXConstructExpr" and len(kids(p)) == 1 and ir._bare(p.get("ty")) == ir._bare(cur.get("ty")):
            return True          # copy construction from it (std::move would sit in between)
        if k == "CXXConstructExpr" and len(kids(p)) == 1 and (p.get("callee") or {}).get("record") in _READING_CTORS:
            return True
        return False
    return False


def _may_write(tree, fn, memo, stack=()):
    """names of BTree fields the member function may write (directly or through members it calls), closed world"""
    if fn.did in memo:
        return memo[fn.did]
    if fn.did in stack:
        return set()
    out = set()
    for i in fn.inits:
        if i.get("field"):
            out.add(i["field"])
    for z in fn.nodes():
        if _is_bt_field(z) and not _access_is_read(fn, z):
            out.add(z["member"])
        if "callee" in z and z["callee"].get("record") == BT and not z["callee"].get("const"):
            g = tree.by_did.get(z["callee"].get("did"))
            if g is None or (g.body is None and g.kind != "ctor"):
                if z["callee"]["name"] in ("BTree", "~BTree"):
                    continue
                raise dtable.Undecidable("%s: %s calls BTree::%s(), whose body is not available" % (fn.nloc(z), fn.name, z["callee"]["name"]))
            out |= _may_write(tree, g, memo, stack + (fn.did,))
    if not stack:
        memo[fn.did] = out
    return out


def _is_copy_ctor(fn):
    return fn.kind == "ctor" and fn.record == BT and len(fn.params) == 1 and ir._bare(fn.params[0].get("ty")).startswith(BT + "<")


def _accessor_field(tree, call):
    """F if the call is a const BTree member without arguments whose body is `return F;`"""
    c = call.get("callee") or {}
    if c.get("record") != BT or not c.get("const") or len(kids(call)) != 1:
        return None
    g = tree.by_did.get(c.get("did"))
    if g is None or g.body is None or g.params:
        return None
    st = [s for s in kids(g.body) if s is not None and s["k"] != "NullStmt"]
    if len(st) != 1 or st[0]["k"] != "ReturnStmt" or not kids(st[0]):
        return None
    return match.this_field(kids(st[0])[0])


class _Transfer:
    def __init__(self, tree, fn, fields, memo):
        self.tree, self.fn, self.fields, self.memo = tree, fn, fields, memo
        self.other = fn.params[0]["did"]
        self.exits = []

    # ---- objects
    def obj(self, e):
        """'this' / 'other' if the expression denotes one of the two trees"""
        e = strip_casts(e)
        if e is None:
            return None
        if e["k"] == "This":
            return "this"
        d = match.deref_of(e)
        if d is not None and strip_casts(d)["k"] == "This":
            return "this"
        if ref_of(e) == self.other:
            return "other"
        return None

    def loc(self, e):
        e = strip_casts(e)
        if _is_bt_field(e):
            o = self.obj(kids(e)[0])
            if o:
                return (o, e["member"])
            return None
        d = ref_of(e)
        if d is not None and d != self.other:
            return ("var", d)
        return None

    def und(self, n, what):
        raise dtable.Undecidable("%s: %s of BTree: %s: %s" % (self.fn.nloc(n), self.fn.name, what, dtable.describe(n)[:120]))

    # ---- effects of something not interpreted precisely
    def havoc(self, st, n, skip=()):
        """an expression/statement that is not interpreted: the fields it may write become fresh; it must not touch configuration"""
        for z in walk(n):
            if z.get("id") in skip:
                continue
            if _is_bt_field(z) and not _access_is_read(self.fn, z):
                top = z
                o = self.obj(kids(z)[0])
                if o is None or z["member"] in self.config:
                    self.und(z, "a write to tree state that is not understood")
                st[(o, z["member"])] = ("fresh",)
            if "callee" in z:
                c = z["callee"]
                if c.get("record") == BT and z.get("member_call") and not c.get("const") and c["name"] not in ("BTree",):
                    o = self.obj(kids(z)[0])
                    g = self.tree.by_did.get(c.get("did"))
                    if o != "this" or g is None:
                        self.und(z, "a modifying member called on another tree")
                    w = _may_write(self.tree, g, self.memo)
                    if w & self.config:
                        self.und(z, "a called member writes the configuration state %s" % sorted(w & self.config))
                    for f in w:
                        st[("this", f)] = ("fresh",)
                elif c.get("record") != BT:
                    # a foreign function handed one of the trees or a configuration field by mutable reference
                    for a in kids(z):
                        a0 = strip_casts(a)
                        if a0 is None:
                            continue
                        if self.obj(a0) and not (a0.get("ty") or "").startswith("const ") and a0["k"] != "This" \
                                and not (a.get("ty") or "").startswith("const "):
                            self.und(z, "a tree is handed to a foreign function")

    # ---- values
    def val(self, st, e):
        e0 = strip_casts(e)
        if e0 is None:
            return ("fresh",)
        mv = match.call_named(e0, ("move", "forward"))
        if mv is not None and (mv["callee"].get("qname") or "").startswith("std::") and len(kids(mv)) == 1:
            return self.val(st, kids(mv)[0])
        l = self.loc(e0)
        if l is not None and l[0] in ("this", "other"):
            return st.get(l, ("fresh",))
        if l is not None:
            return st.get(l, ("fresh",))
        if "callee" in e0 and e0.get("member_call"):
            f = _accessor_field(self.tree, e0)
            o = self.obj(kids(e0)[0])
            if f is not None and o:
                return st.get((o, f), ("fresh",))
        a = self.assign(st, e0)
        if a is not None:
            return a
        self.havoc(st, e0)
        return ("fresh",)

    def assign(self, st, e):
        """interprets e if it is an assignment or std::swap; returns the assigned value (or True), None if it is neither"""
        b = match.binop(e, ("=",))
        if b:
            l = self.loc(b[1])
            if l is None:
                sub = strip_casts(b[1])
                # a part of a field (stats_.leaves = ...): the field is no longer a copy of anything
                base = sub
                while base is not None and base["k"] == "MemberExpr" and not _is_bt_field(base):
                    base = strip_casts(kids(base)[0]) if kids(base) else None
                if _is_bt_field(base) and self.obj(kids(base)[0]) and base["member"] not in self.config:
                    self.val(st, b[2])
                    st[(self.obj(kids(base)[0]), base["member"])] = ("fresh",)
                    return ("fresh",)
                if any(_is_bt_field(z) for z in walk(b[1])):
                    self.und(e, "assignment target not understood")
                self.havoc(st, e)
                return ("fresh",)
            v = self.val(st, b[2])
            st[l] = v
            return v
        e0 = strip_casts(e)
        if e0 is not None and "callee" in e0 and e0["callee"].get("qname") == "std::swap" and len(kids(e0)) == 2:
            la, lb = self.loc(kids(e0)[0]), self.loc(kids(e0)[1])
            if la is None or lb is None:
                if any(_is_bt_field(z) for z in walk(e0)):
                    self.und(e0, "std::swap of something that is not a plain field")
                return True
            st[la], st[lb] = st.get(lb, ("fresh",)), st.get(la, ("fresh",))
            return True
        return None

    # ---- statements
    def self_guard(self, c):
        b = match.binop(c, ("!=", "=="))
        if not b:
            return None

        def side(x):
            x = strip_casts(x)
            if x is not None and x["k"] == "This":
                return "this"
            u = match.unop(x, ("&",))
            if u and ref_of(u[1]) == self.other:
                return "other"
            return None
        if {side(b[1]), side(b[2])} == {"this", "other"}:
            return b[0] == "!="          # True: the then-branch is the distinct case
        return None

    def run(self, stmts, st, cont):
        """executes the statement list on state st, then calls cont(st) for every path that falls through"""
        if not stmts:
            return cont(st)
        s, rest = stmts[0], stmts[1:]
        nxt = lambda st2: self.run(rest, st2, cont)
        if s is None or s["k"] == "NullStmt":
            return nxt(st)
        k = s["k"]
        if k == "CompoundStmt":
            return self.run(list(kids(s)), st, nxt)
        if k == "ReturnStmt":
            if kids(s) and kids(s)[0] is not None:
                self.val(st, kids(s)[0])
            self.exits.append(st)
            return
        if k == "IfStmt" and not s.get("init") and not s.get("condvar") and len(kids(s)) >= 2:
            c = kids(s)[0]
            g = self.self_guard(c)
            st = dict(st)
            if g is None:
                self.val(st, c)
            cv = c.get("cval") if c is not None else None
            for taken in (True, False):
                if cv is not None and bool(cv) != taken:
                    continue
                st2 = dict(st)
                st2["path"] = st["path"] + [("" if taken else "!") + "(" + dtable.describe(c)[:60] + ")"]
                if g is not None and taken != g:
                    st2["alias"] = True
                br = kids(s)[1] if taken else (kids(s)[2] if len(kids(s)) > 2 else None)
                self.run([br] if br is not None else [], st2, nxt)
            return
        if k == "DeclStmt":
            st = dict(st)
            for v in kids(s):
                if v is None or v["k"] != "VarDecl":
                    self.und(s, "declaration not understood")
                ty = (v.get("ty") or "").rstrip()
                init = kids(v)[0] if kids(v) else None
                if init is not None and (ty.endswith("&") or ir._bare(ty) == ir._bare(self.fn.params[0].get("ty"))):
                    # a reference may alias a field or a tree; a tree-typed local is a whole copy: neither is modelled
                    if any(_is_bt_field(z) or z["k"] == "This" or ref_of(z) == self.other for z in walk(init)):
                        self.und(s, "an alias or a copy of a tree or of tree state")
                elif init is not None:
                    # a value: harmless unless it is the address of a tree or of a piece of tree state
                    i0 = strip_casts(init)
                    if (i0 is not None and i0["k"] == "This") or any(
                            z["k"] == "UnaryOperator" and z.get("op") == "&" and kids(z) and
                            (self.obj(kids(z)[0]) or self.loc(kids(z)[0]) is not None and self.loc(kids(z)[0])[0] != "var")
                            for z in walk(init)) or any(
                            "callee" in z and (z["callee"].get("qname") or "") in ("std::addressof", "std::ref") for z in walk(init)):
                        self.und(s, "the address of a tree or of tree state is kept")
                st[("var", v["did"])] = self.val(st, init) if init is not None else ("fresh",)
            return nxt(st)
        if k in ("ForStmt", "WhileStmt", "DoStmt", "CXXForRangeStmt", "SwitchStmt", "CXXTryStmt", "GotoStmt", "LabelStmt",
                 "BreakStmt", "ContinueStmt", "IfStmt"):
            if any(z["k"] == "ReturnStmt" for z in walk(s)):
                self.und(s, "a return inside a statement that is not interpreted")
            st = dict(st)
            for z in walk(s):
                if match.binop(z, ("=",)) and self.loc(match.binop(z, ("=",))[1]) and self.loc(match.binop(z, ("=",))[1])[0] == "var":
                    st[self.loc(match.binop(z, ("=",))[1])] = ("fresh",)
            self.havoc(st, s)
            return nxt(st)
        # expression statement
        st = dict(st)
        self.val(st, s)
        return nxt(st)


def _show(v):
    if v[0] == "mine":
        return "the tree's own previous %s" % v[1]
    if v[0] == "other":
        return "the source's %s" % v[1]
    if v[0] == "default":
        return "a default-constructed value"
    return "a value computed afresh"


_WHY = ("every search, insert and erase orders keys with key_less_ and every node is obtained from allocator_; the copied nodes "
        "were arranged by the source's objects")


def check_state_transfer(ck, tu, tree):
    rec = tu.record(BT)
    if rec is None or not rec.get("fields"):
        raise ir.AnalysisBroken("record layout of %s not available" % BT)
    fields = [f["name"] for f in rec["fields"]]
    members = [f for f in tree.fns if f.record == BT]
    memo = {}
    transfer = [f for f in members if f.name in _TRANSFER_FNS or f.kind == "ctor"]
    writers = {}
    for f in members:
        if f in transfer or f.kind == "dtor":
            continue
        for z in f.nodes():
            if _is_bt_field(z) and not _access_is_read(f, z):
                writers.setdefault(z["member"], set()).add(f.name)
    config = set(x for x in fields if x not in writers)
    copy_ctor = [f for f in members if _is_copy_ctor(f)]
    assign = [f for f in members if f.name == "operator=" and len(f.params) == 1]
    swaps = [f for f in members if f.name == "swap" and len(f.params) == 1]
    if len(copy_ctor) != 1 or len(assign) != 1 or len(swaps) != 1:
        raise ir.AnalysisBroken("BTree<%s>: expected one copy constructor, one operator= and one swap (found %d, %d, %d)"
                                % (tree.label, len(copy_ctor), len(assign), len(swaps)))
    for fn, kind in ((copy_ctor[0], "copy"), (assign[0], "assign"), (swaps[0], "swap")):
        T = _Transfer(tree, fn, fields, memo)
        T.config = config
        st = {"path": []}
        for x in fields:
            st[("this", x)] = ("default",) if kind == "copy" else ("mine", x)
            st[("other", x)] = ("other", x)
        for i in fn.inits:
            if i.get("field") in fields and i.get("e") is not None:
                v = T.val(st, i["e"])
                st[("this", i["field"])] = v if (v[0] == "other" or i.get("written")) else ("default",)
            elif i.get("field") is None and i.get("e") is not None:
                T.und(i["e"], "a delegating or base initialiser")
        T.run(list(kids(fn.body)) if fn.body else [], st, lambda s: T.exits.append(s))
        paths = [s for s in T.exits if not s.get("alias")]
        if not paths:
            raise dtable.Undecidable("%s: no path through %s of BTree reaches its end" % (fn.loc, fn.name))
        what = {"copy": "copy construction `BTree a(b)`", "assign": "the assignment `a = b`", "swap": "`a.swap(b)`"}[kind]
        need = sorted(config) if kind != "swap" else fields
        for x in need:
            bad = None
            for s in paths:
                got = s.get(("this", x), ("fresh",))
                if got != ("other", x):
                    bad = (s, "a.%s is %s" % (x, _show(got)))
                    break
                if kind == "swap" and s.get(("other", x)) != ("mine", x):
                    bad = (s, "b.%s is %s instead of a's previous %s" % (x, _show(s.get(("other", x), ("fresh",))), x))
                    break
            sig = "%s:%s" % (kind, x)
            if bad:
                s, txt = bad
                if x in config and kind != "swap" and bad[0].get(("this", x), ("fresh",))[0] == "fresh":
                    raise dtable.Undecidable("%s: cannot tell what %s holds after %s" % (fn.loc, x, what))
                path = (" on the path " + " && ".join(s["path"])) if s["path"] else ""
                ex = ""
                if x == "key_less_" or (x in config and "less" in x):
                    ex = (" Counterexample: key order with run-time state (ascending/descending flag), a ascending and empty, b descending "
                          "holding {3,2,1}: afterwards a holds b's nodes [3,2,1] but a.find(1), a.lower_bound(2) and a.insert(0) descend with "
                          "the ascending order and miss / misplace; std::set carries the comparator along.")
                ck.violation("STATE-TRANSFER", fn.qname, sig,
                             "after %s%s, %s; it must be the source's %s (%s).%s"
                             % (what, path, txt, x, "no other member can ever repair it: only constructors, operator= and swap write it; " + _WHY
                                if x in config else "swap exchanges the complete state", ex), fn.loc)
            else:
                ck.ok("STATE-TRANSFER", tree.where(fn, sig), "%d path(s): %s taken from the source%s"
                      % (len(paths), x, " and handed back" if kind == "swap" else ""))
        ck.states += len(paths)
    if not config:
        raise dtable.Undecidable("BTree<%s>: no configuration state recognised (every field has a writer outside constructors, "
                                 "operator= and swap: %s)" % (tree.label, writers))


# ------------------------------------------------------------------ driver
def run(ck):
    ck.explanation = (
        "Decides the structural clauses of C01, not the observational equality itself. The five key predicates are reduced to truth tables "
        "over the user's less(); find_lower/find_upper (leaf and inner instantiation, every compile-time variant: binary, linear, self-verifying) "
        "are executed on all sorted nodes with up to 5 keys of 2 ranks and 5 searched keys and compared with std::lower_bound/upper_bound; "
        "every lookup must use the same search at every level and follow childid[result]; the statements between the leaf search and the "
        "decision are executed for every situation (slot < slotuse, key_equal, leaf non-null) and must do what a hit / a miss requires; the walk "
        "of erase(iterator) over a run of equal keys may only give up when the separator proves the key cannot follow and otherwise advances "
        "by one child; the erase descents must hand the right child, neighbours and neighbour-parents to the recursive call in all 16 "
        "first/last/null situations; every "
        "consistent underflow situation (null/few neighbours, same/different parents) must be resolved by exactly one legal merge or shift with "
        "the separator slot of the side used; is_full/is_few/is_underflow must fit the node's own capacity (leaf and inner chosen independently); "
        "the four front ends select the right Duplicates flag and key extractor and forward every member in order; the 16 iterator step "
        "functions move to the adjacent element of the leaf chain in canonical form (abstract execution on a three-leaf chain). Returned iterator positions, contents after histories, bulk-load shape and copies are not decided.")
    ck.assumptions += [
        "B+ tree shape facts used to prune impossible underflow situations: the root is the only node without neighbours; the outermost node of "
        "a level has a null neighbour whose parent pointer differs from its own parent; every inner node has at least two children",
        "the walk of erase(iterator) starts at find_lower(key) and separators ascend, so less(separator, key) cannot hold inside the walk",
    ]
    n_trees = 0
    for cfg, tu in B.load(ck.tier):
        ts = B.trees(tu)
        n_trees += len(ts)
        for t in ts:
            # a rule that cannot decide (exit 2) must not hide a violation another rule can prove (exit 1)
            ck.guarded(lambda: check_keypreds(ck, tu, t))
            for which in ("find_lower", "find_upper"):
                for fn in t.find(which):
                    ck.guarded(lambda: check_search(ck, tu, t, fn))
            ck.guarded(lambda: check_descent(ck, t))
            ck.guarded(lambda: check_hit(ck, t))
            ck.guarded(lambda: check_iter_walk(ck, tu, t))
            ck.guarded(lambda: check_siblings(ck, t))
            for name in ("erase_one_descend", "erase_iter_descend"):
                ck.guarded(lambda: B.check_underflow(ck, t, t.one(name)))
            if t.small:
                ck.guarded(lambda: B.check_capacity(ck, t, cfg))
                ck.guarded(lambda: btprim.check_primitives(ck, t, cfg))
                ck.guarded(lambda: btprim.check_insert(ck, tu, t, cfg))
                ck.guarded(lambda: btprim.check_erase(ck, tu, t, cfg))
                ck.guarded(lambda: btprim.check_bulk_load(ck, tu, t, cfg))
            ck.guarded(lambda: check_iter_steps(ck, t))
            ck.guarded(lambda: check_state_transfer(ck, tu, t))
        ck.guarded(lambda: check_frontends(ck, tu))
    m = n_trees
    ck.floor("KEYPRED-TABLE", 4 * m)
    ck.floor("SEARCH-TABLE", 8 * m)
    ck.floor("DESCENT-SEARCH", 12 * m)
    ck.floor("HIT-TEST", 6 * m)
    ck.floor("ITER-WALK-STOP", m)
    ck.floor("DESCENT-SIBLINGS", 2 * m)
    ck.floor("UNDERFLOW-LEGAL", 4 * m)
    ck.floor("NODE-CAPACITY", m)
    ck.floor("PRIMITIVE-EFFECT", 4 * m)      # eight primitives per small_traits tree
    ck.floor("INSERT-EFFECT", m)            # leaf and inner level per small_traits tree
    ck.floor("ERASE-EFFECT", 2 * m)
    ck.floor("BULK-LOAD-SHAPE", m // 2)      # two per small_traits tree, half of the trees
    ck.floor("ITER-STEP", 16 * m)
    ck.floor("STATE-TRANSFER", 10 * m)        # key_less_, allocator_ for copy and assignment, six fields for swap
    ck.floor("FRONTEND-FLAGS", 12 * (m // 8))
    ck.floor("FRONTEND-FORWARD", 4 * 40 * (m // 8))
