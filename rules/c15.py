"""C15 — sorting networks: comparator-sequence extraction (engine A1) + zero-one
principle, size dispatch, compare-exchange decision table.

Every violation of this file is the result of an evaluation: the network functions are EXECUTED by a concrete
interpreter (iterator offsets, integers, references, loops, helper calls, lambdas) and the list of compare-exchanges
they perform is decided with the zero-one principle; the compare-exchange functor is EXECUTED on two labelled elements
for every consistent outcome of the comparator.  Whatever the interpreters do not understand stops the check as
undecidable (exit 2); nothing is concluded from a shape that was not found."""
import os
import re

from engine import ir, dtable, match
from engine.ir import kids, const_int

FAMILIES = ["best", "bose_nelson", "bose_nelson_parameter"]
NS = "tlx::sort_networks::"

CASTS = ("ImplicitCastExpr", "CStyleCastExpr", "CXXStaticCastExpr", "CXXFunctionalCastExpr", "CXXReinterpretCastExpr",
         "CXXConstCastExpr")
CONSTRUCTS = ("CXXConstructExpr", "CXXTemporaryObjectExpr")
INT_TYPES = {"char": (8, True), "signed char": (8, True), "unsigned char": (8, False), "short": (16, True),
             "unsigned short": (16, False), "int": (32, True), "unsigned int": (32, False), "long": (64, True),
             "unsigned long": (64, False), "long long": (64, True), "unsigned long long": (64, False)}
ARITH = ("+", "-", "*", "/", "%", "<<", ">>", "&", "|", "^", "==", "!=", "<", "<=", ">", ">=", "<=>")
ASSIGN = ("=", "+=", "-=", "*=", "/=", "%=", "<<=", ">>=", "&=", "|=", "^=")
MUTABLE = ("int", "bool", "it", "aptr")       # kinds of values a local variable may be (re-)assigned
FUEL = 200000                         # statements per interpreted entry point
DEPTH = 64


def is_ref_ty(ty):
    return (ty or "").rstrip().endswith("&")


def is_cs_ty(ty):
    return "sort_networks::CS_" in (ty or "")


def bare_ty(ty):
    t = (ty or "").strip()
    while t.endswith("&"):
        t = t[:-1].strip()
    if t.startswith("const "):
        t = t[6:].strip()
    if t.endswith("const") and not t[:-5].rstrip()[-1:].isalnum():      # "int *const"
        t = t[:-5].strip()
    elif t.endswith(" const"):
        t = t[:-6].strip()
    return t


def array_dims(ty):
    """(element type, [d0, d1, ...]) of an array type 'T[d0][d1]'; None for everything else (also for a pointer or a
    reference to an array)"""
    m = re.match(r"^(.*?)((?:\[\d+\])+)$", bare_ty(ty))
    if not m or "(" in m.group(1):
        return None
    return m.group(1).strip(), [int(x) for x in re.findall(r"\[(\d+)\]", m.group(2))]


def is_const_obj(ty):
    """the declared object itself is const (not merely what it points to)"""
    t = re.sub(r"(\[\d*\])+$", "", (ty or "").strip()).strip()
    if "*" in t or "&" in t:
        return t.endswith("const")
    return t.startswith("const ") or t.endswith(" const")


STD_TUPLES = ("std::pair", "std::tuple")


def tuple_fields(ty):
    """(template name, [field type, ...]) of std::pair<A, B> / std::tuple<A, ...>; None for every other type"""
    t = bare_ty(ty)
    for name in STD_TUPLES:
        if not (t.startswith(name + "<") and t.endswith(">")):
            continue
        out, depth, cur = [], 0, ""
        for ch in t[len(name) + 1:-1]:
            if ch in "<([{":
                depth += 1
            elif ch in ">)]}":
                depth -= 1
                if depth < 0:
                    return None
            if ch == "," and depth == 0:
                out.append(cur.strip())
                cur = ""
            else:
                cur += ch
        if depth != 0:
            return None
        if cur.strip():
            out.append(cur.strip())
        if any(not f for f in out) or (name == "std::pair" and len(out) != 2):
            return None
        return name, out
    return None


def is_tuple(v):
    """value of a std::pair / std::tuple: an aggregate whose fields are numbered 0, 1, ..."""
    return v is not None and v[0] == "agg" and tuple_fields(v[1]) is not None


def const_tree(n):
    """n is an integer constant or a (nested) initialiser list / std::pair / std::tuple of integer constants"""
    n = unwrap(n)
    if n is None:
        return False
    if n["k"] == "InitListExpr":
        return bool(kids(n)) and all(const_tree(c) for c in kids(n))
    if n["k"] in CONSTRUCTS and n.get("callee", {}).get("record") in STD_TUPLES and tuple_fields(n.get("ty")):
        return len(kids(n)) == len(tuple_fields(n["ty"])[1]) and all(const_tree(c) for c in kids(n))
    return const_int(n) is not None


def decay(v):
    """an array used as a value is a pointer to its first element"""
    return ("aptr", v[1], 0) if v is not None and v[0] == "arr" else v


def copy_val(v):
    """copy of a value: arrays and the non-reference fields of an aggregate are copied, reference fields and pointers
    keep designating the same object"""
    if v is None:
        return None
    if v[0] == "arr":
        return ("arr", [[copy_val(c[0])] for c in v[1]])
    if v[0] == "agg":
        return ("agg", v[1], {m: (c if m in v[3] else [copy_val(c[0])]) for m, c in v[2].items()}, v[3])
    return v


def unwrap(n):
    """looks through casts and parentheses only (not through copy constructions: a copy is not the object)"""
    while n is not None and n["k"] in CASTS + ("ParenExpr",) and kids(n):
        n = kids(n)[0]
    return n


def num(v):
    return int(v[1]) if v is not None and v[0] in ("int", "bool") else None


def is_std(n, names):
    return "callee" in n and n["callee"]["name"] in names and n["callee"].get("qname", "").startswith("std::")


def foreign_label(s):
    """a case/default label below the top level of a switch body (not flattened by flatten_switch)"""
    if s is None or s["k"] == "SwitchStmt":
        return False
    if s["k"] in ("CaseStmt", "DefaultStmt"):
        return True
    return any(foreign_label(c) for c in kids(s))


class NetInterp:
    """concrete interpreter for network functions.  A variable is a cell [value]; references and by-reference lambda
    captures share the cell.  Values: ('it', off) iterator at slot off | ('slot', i) reference to element i |
    ('int', k) | ('bool', b) | ('cswap',) compare-exchange functor | ('cmp',) the caller's comparator |
    ('lambda', {did: cell}) | ('arr', [cell, ...]) builtin array | ('aptr', [cell, ...], i) pointer to element i of a
    builtin array | ('agg', record, {field id: cell}, {ids of the reference fields}) aggregate without constructors"""

    def __init__(self, tu, ns):
        self.tu = tu
        self.ns = ns
        self.fn_visited = set()
        self.defaulted = False
        self.steps = 0
        self.depth = 0
        self._ret = None

    # ------------------------------------------------------------------ integers
    def wrap(self, v, ty, fn, n):
        t = bare_ty(ty)
        if t == "bool":
            return ("bool", bool(v))
        spec = INT_TYPES.get(t)
        if spec is None:
            if 0 <= v < 128:
                return ("int", v)
            raise dtable.Undecidable("%s: integer %d of a type whose range is not known (%s)" % (fn.nloc(n), v, ty))
        bits, signed = spec
        if signed:
            if not -(1 << (bits - 1)) <= v < (1 << (bits - 1)):
                raise dtable.Undecidable("%s: signed integer overflow while interpreting a network function" % fn.nloc(n))
            return ("int", v)
        return ("int", v % (1 << bits))

    def arith(self, op, a, b, ty, fn, n):
        """a OP b for two values, None when the combination is not understood"""
        a, b = decay(a), decay(b)
        if a[0] == "aptr" or b[0] == "aptr":
            if op == "<=>":
                return None
            if a[0] == "aptr" and b[0] == "aptr":
                if a[1] is not b[1]:
                    return None                  # pointers into different arrays
                a, b = ("it", a[2]), ("it", b[2])
            elif a[0] == "aptr" and num(b) is not None and op in ("+", "-"):
                return ("aptr", a[1], a[2] + (num(b) if op == "+" else -num(b)))
            elif num(a) is not None and b[0] == "aptr" and op == "+":
                return ("aptr", b[1], b[2] + num(a))
            else:
                return None
        if op == "<=>":
            # the ordering object is represented by its sign (it is only ever compared with the literal 0)
            if (a[0] == "it" and b[0] == "it") or (num(a) is not None and num(b) is not None):
                return ("int", (a[1] > b[1]) - (a[1] < b[1]))
            return None
        if a[0] == "it" and b[0] == "it":
            if op == "-":
                return self.wrap(a[1] - b[1], ty, fn, n)
            if op in ("==", "!=", "<", "<=", ">", ">="):
                x, y = a[1], b[1]
                return ("bool", {"==": x == y, "!=": x != y, "<": x < y, "<=": x <= y, ">": x > y, ">=": x >= y}[op])
            return None
        if a[0] == "it" and num(b) is not None and op in ("+", "-"):
            return ("it", a[1] + (num(b) if op == "+" else -num(b)))
        if num(a) is not None and b[0] == "it" and op == "+":
            return ("it", b[1] + num(a))
        x, y = num(a), num(b)
        if x is None or y is None:
            return None
        if op in ("==", "!=", "<", "<=", ">", ">="):
            return ("bool", {"==": x == y, "!=": x != y, "<": x < y, "<=": x <= y, ">": x > y, ">=": x >= y}[op])
        if op in ("/", "%"):
            if y == 0:
                raise dtable.Undecidable("%s: division by zero while interpreting a network function" % fn.nloc(n))
            q = abs(x) // abs(y) * (1 if (x >= 0) == (y >= 0) else -1)      # C++ truncates towards zero
            r = q if op == "/" else x - q * y
        elif op in ("<<", ">>"):
            if not 0 <= y < 64 or x < 0:
                raise dtable.Undecidable("%s: shift not understood while interpreting a network function" % fn.nloc(n))
            r = x << y if op == "<<" else x >> y
        else:
            r = {"+": x + y, "-": x - y, "*": x * y, "&": x & y, "|": x | y, "^": x ^ y}[op]
        return self.wrap(r, ty, fn, n)

    # ------------------------------------------------------------------ expressions (no side effects)
    def not_understood(self, n, fn):
        raise dtable.Undecidable("%s: expression not understood in a network function: %s"
                                 % (fn.nloc(n), dtable.describe(n)))

    def value(self, n, env, fn):
        if n is None:
            raise dtable.Undecidable("%s: missing expression in a network function" % fn.loc)
        k = n["k"]
        if k == "DeclRefExpr":
            cell = env.get(n["ref"]["id"])
            if cell is not None:
                if cell[0] is None:
                    raise dtable.Undecidable("%s: %s is read before it holds a value" % (fn.nloc(n), n["ref"]["name"]))
                return cell[0]
            if const_int(n) is not None:
                return self.wrap(const_int(n), n.get("ty"), fn, n)
            raise dtable.Undecidable("%s: unknown variable %s" % (fn.nloc(n), n["ref"]["name"]))
        if k == "ParenExpr":
            return self.value(kids(n)[0], env, fn)
        if const_int(n) is not None:
            return ("bool", bool(const_int(n))) if bare_ty(n.get("ty")) == "bool" else ("int", const_int(n))
        if k == "MemberExpr":
            return self.load(self.lcell(n, env, fn), n, fn)
        if k in CASTS and kids(n):
            v = self.value(kids(n)[0], env, fn)
            if v[0] in ("int", "bool") and bare_ty(n.get("ty")) != "void":
                return self.wrap(v[1], n.get("ty"), fn, n)
            return v
        if k == "InitListExpr" and array_dims(n.get("ty")):
            dims = array_dims(n["ty"])[1]
            if len(kids(n)) != dims[0]:
                raise dtable.Undecidable("%s: array of %d elements with %d initialisers (the rest is not in the IR)"
                                         % (fn.nloc(n), dims[0], len(kids(n))))
            cells = []
            for a in kids(n):
                v = self.value(a, env, fn)
                if v[0] == "slot":
                    raise dtable.Undecidable("%s: array element is a copy of an element (%s) in a network function" % (fn.nloc(n), dtable.describe(a)))
                if (v[0] == "arr") != (len(dims) > 1):
                    self.not_understood(n, fn)
                cells.append([v])
            return ("arr", cells)
        if k in CONSTRUCTS and n.get("callee", {}).get("record") in STD_TUPLES:
            return self.make_tuple(n, kids(n), env, fn, False)
        if k == "CallExpr" and is_std(n, ("make_pair", "make_tuple", "tie", "forward_as_tuple")):
            return self.make_tuple(n, kids(n), env, fn, True)
        if k == "CallExpr" and is_std(n, ("get",)):
            return self.load(self.lcell(n, env, fn), n, fn)
        if k == "CallExpr" and is_std(n, ("tuple_cat",)):
            return self.tuple_cat(n, env, fn)
        if k == "InitListExpr" and not is_cs_ty(n.get("ty")) and self.record_of(n.get("ty")) is not None:
            return self.aggregate(n, self.record_of(n.get("ty")), env, fn)
        if k in CONSTRUCTS or k == "InitListExpr":
            args = kids(n)
            if is_cs_ty(n.get("ty")):
                # a compare-exchange functor is a copy of another one or is built from the caller's comparator
                if len(args) == 1 and args[0] is not None and args[0]["k"] != "DefaultArg":
                    v = self.value(args[0], env, fn)
                    if v[0] in ("cswap", "cmp"):
                        return ("cswap",)
                raise dtable.Undecidable("%s: compare-exchange functor that is neither a copy of the one passed in nor built from "
                                         "the comparator argument" % fn.nloc(n))
            if len(args) == 1 and args[0] is not None and args[0]["k"] != "DefaultArg":
                v = self.value(args[0], env, fn)         # copy of an iterator / comparator
                if v[0] in ("it", "cmp", "int", "bool", "aptr"):
                    return v
                if v[0] == "agg" and k in CONSTRUCTS:
                    # the implicit copy / move constructor of an aggregate copies member by member
                    rec = self.record_of(n.get("ty"))
                    if rec is not None and rec.get("full") == v[1] and not self.user_ctor(rec):
                        return copy_val(v)
                if v[0] == "slot":
                    raise dtable.Undecidable("%s: copy of an element (%s) in a network function" % (fn.nloc(n), dtable.describe(args[0])))
            self.not_understood(n, fn)
        if k == "LambdaExpr":
            caps = {}
            for c in n.get("captures", []):
                cell = env.get(c.get("id"))
                if cell is None:
                    raise dtable.Undecidable("%s: lambda captures something that is not a local of the network function (%s)"
                                             % (fn.nloc(n), c.get("name")))
                caps[c["id"]] = cell if c.get("byref") else [copy_val(cell[0])]
            return ("lambda", caps, n.get("fn"))         # fn: the call operator (absent for a generic lambda)
        if k == "ConditionalOperator":
            c = num(self.value(kids(n)[0], env, fn))
            if c is None:
                self.not_understood(n, fn)
            return self.value(kids(n)[1] if c else kids(n)[2], env, fn)
        if k == "BinaryOperator" and n.get("op") in ("&&", "||"):
            a = num(self.value(kids(n)[0], env, fn))
            if a is None:
                self.not_understood(n, fn)
            if bool(a) == (n["op"] == "||"):
                return ("bool", n["op"] == "||")
            b = num(self.value(kids(n)[1], env, fn))
            if b is None:
                self.not_understood(n, fn)
            return ("bool", bool(b))
        pl = self.place(n, env, fn)
        if pl is not None:
            return pl if pl[0] == "slot" else self.load(self.element(pl, n, fn), n, fn)
        if (k == "UnaryOperator" and n.get("op") == "&") or (is_std(n, ("addressof",)) and len(kids(n)) == 1):
            pl = self.place(unwrap(kids(n)[0]), env, fn)
            if pl is not None and pl[0] == "elem":
                return ("aptr", pl[1], pl[2])
            v = pl if pl is not None else self.value(kids(n)[0], env, fn)
            if v[0] == "slot":
                return ("it", v[1])
            self.not_understood(n, fn)
        u = match.unop(n, ("!", "-", "+", "~"))
        if u and not u[2]:
            v = num(self.value(u[1], env, fn))
            if v is None:
                self.not_understood(n, fn)
            if u[0] == "!":
                return ("bool", not v)
            return self.wrap({"-": -v, "+": v, "~": ~v}[u[0]], n.get("ty"), fn, n)
        bo = match.binop(n, ARITH)
        if bo:
            r = self.arith(bo[0], self.value(bo[1], env, fn), self.value(bo[2], env, fn), n.get("ty"), fn, n)
            if r is None:
                self.not_understood(n, fn)
            return r
        if "callee" in n:
            args = kids(n)
            plain = all(a is not None and a["k"] != "DefaultArg" for a in args)
            if is_std(n, ("next", "prev")) and args and args[0] is not None:
                rest = [a for a in args[1:] if a is not None and a["k"] != "DefaultArg"]
                step = 1 if not rest else (num(self.value(rest[0], env, fn)) if len(rest) == 1 else None)
                v = self.value(args[0], env, fn)
                if step is not None and v[0] == "it":
                    return ("it", v[1] + (step if n["callee"]["name"] == "next" else -step))
                self.not_understood(n, fn)
            if is_std(n, ("distance",)) and len(args) == 2 and plain:
                a, b = self.value(args[0], env, fn), self.value(args[1], env, fn)
                if a[0] == "it" and b[0] == "it":
                    return self.wrap(b[1] - a[1], n.get("ty"), fn, n)
                self.not_understood(n, fn)
            if is_std(n, ("min", "max")) and len(args) == 2 and plain:
                a, b = num(self.value(args[0], env, fn)), num(self.value(args[1], env, fn))
                if a is not None and b is not None:
                    return ("int", min(a, b) if n["callee"]["name"] == "min" else max(a, b))
                self.not_understood(n, fn)
            if is_std(n, ("move", "forward", "as_const")) and len(args) == 1 and plain:
                return self.value(args[0], env, fn)
            if is_std(n, ("begin", "end", "cbegin", "cend", "size", "ssize")) and len(args) == 1 and plain:
                v = self.value(args[0], env, fn)
                if v[0] == "arr":
                    name = n["callee"]["name"]
                    if name in ("size", "ssize"):
                        return self.wrap(len(v[1]), n.get("ty"), fn, n)
                    return ("aptr", v[1], len(v[1]) if name in ("end", "cend") else 0)
                self.not_understood(n, fn)
            if is_std(n, ("apply",)) and n["k"] == "CallExpr":
                st, ret = self.apply_call(n, env, fn, self._out)
                if st is None and ret is not None:
                    return ret
                raise dtable.Undecidable("%s: call of %s gives no value" % (fn.nloc(n), n["callee"]["qname"]))
            callee, base = None, None
            if n["k"] == "CallExpr" and self.is_helper(n["callee"]):
                callee = self.tu.by_did[n["callee"]["did"]]
            elif n.get("op") == "()" and args and plain:
                obj = self.value(args[0], env, fn)
                callee = self.tu.by_did.get(n["callee"].get("did")) if obj[0] == "lambda" else None
                if callee is not None and callee.body is not None:
                    args, base = args[1:], obj[1]
                else:
                    callee = None
            if callee is not None:
                st, ret = self.invoke(callee, args, env, fn, self._out, fn.nloc(n), base=base)
                if st is None and ret is not None:
                    return ret
                raise dtable.Undecidable("%s: call of %s gives no value" % (fn.nloc(n), n["callee"]["qname"]))
        self.not_understood(n, fn)

    # ------------------------------------------------------------------ lvalues: arrays and aggregates
    def place(self, n, env, fn):
        """for x[i] and *p: ('slot', k) element of the sequence | ('elem', cells, i) element of a builtin array;
        None when n has another form"""
        ip = match.index_parts(n)
        if ip and not n.get("member_call"):
            base, idx = decay(self.value(ip[0], env, fn)), num(self.value(ip[1], env, fn))
        else:
            d = match.deref_of(n)
            if d is None:
                return None
            base, idx = decay(self.value(d, env, fn)), 0
        if idx is not None and base[0] == "it":
            return ("slot", base[1] + idx)
        if idx is not None and base[0] == "aptr":
            return ("elem", base[1], base[2] + idx)
        self.not_understood(n, fn)

    def element(self, pl, n, fn):
        if not 0 <= pl[2] < len(pl[1]):
            raise dtable.Undecidable("%s: index %d is outside the array of %d elements: %s"
                                     % (fn.nloc(n), pl[2], len(pl[1]), dtable.describe(n)))
        return pl[1][pl[2]]

    def load(self, cell, n, fn):
        if cell is None:
            self.not_understood(n, fn)
        if cell[0] is None:
            raise dtable.Undecidable("%s: %s is read before it holds a value" % (fn.nloc(n), dtable.describe(n)))
        return cell[0]

    def lcell(self, e, env, fn):
        """the cell an lvalue expression designates: a local variable, an element of a builtin array, a field of an
        aggregate; a fresh cell for an element of the sequence (a slot is a value of the interpreter).  None when e has
        another form (nothing has been evaluated then)"""
        n = unwrap(e)
        if n is None:
            return None
        if n["k"] == "DeclRefExpr":
            return env.get(n["ref"]["id"])
        if n["k"] == "MemberExpr":
            if len(kids(n)) != 1 or n.get("arrow") or n.get("method") or n.get("static"):
                self.not_understood(n, fn)
            base = self.value(kids(n)[0], env, fn)
            if is_tuple(base) or n.get("owner") in STD_TUPLES:
                # p.first / p.second of a std::pair
                idx = {"first": 0, "second": 1}.get(n.get("member"))
                if not is_tuple(base) or n.get("owner") != "std::pair" or not base[1].startswith("std::pair<") or idx is None:
                    self.not_understood(n, fn)
                return base[2][idx]
            if base[0] != "agg" or n.get("mid") not in base[2]:
                self.not_understood(n, fn)
            return base[2][n["mid"]]
        if n["k"] == "CallExpr" and is_std(n, ("get",)):
            # std::get<I>(pair or tuple)
            targs = n["callee"].get("targs") or []
            m = re.fullmatch(r"(\d+)[uUlL]*", str(targs[0]).strip()) if targs else None      # std::get<Type> is not modelled
            if len(kids(n)) != 1 or kids(n)[0] is None or kids(n)[0]["k"] == "DefaultArg" or not m:
                self.not_understood(n, fn)
            base = self.value(kids(n)[0], env, fn)
            if not is_tuple(base) or int(m.group(1)) not in base[2]:
                self.not_understood(n, fn)
            return base[2][int(m.group(1))]
        pl = self.place(n, env, fn)
        if pl is None:
            return None
        return [pl] if pl[0] == "slot" else self.element(pl, n, fn)

    def record_of(self, ty):
        t = bare_ty(ty)
        rs = [r for r in self.tu.records if r.get("full") == t]
        return rs[0] if len(rs) == 1 else None

    def user_ctor(self, rec):
        short = rec["qname"].rsplit("::", 1)[-1]
        return any(m.get("name") in (short, "~" + short, "operator=") for m in rec.get("methods", []))

    def bind_ref(self, a, env, fn, what, blank_ok=False):
        """cell a reference is bound to: the object itself for an lvalue the interpreter can name, a new cell for a
        temporary.  blank_ok: the object may hold no value yet (std::tie on variables that are assigned through it)"""
        cell = self.lcell(a, env, fn)
        if cell is not None:
            if not (blank_ok and cell[0] is None):
                self.load(cell, a, fn)
            return cell
        v = self.value(a, env, fn)
        if v[0] in MUTABLE and unwrap(a).get("lv"):
            raise dtable.Undecidable("%s: %s is bound to something that is not a local variable" % (fn.nloc(a), what))
        return [v]

    def aggregate(self, n, rec, env, fn):
        """aggregate initialisation T{e0, e1, ...} of a class without bases and constructors: one initialiser per field"""
        fields, args = rec.get("fields", []), kids(n)
        if rec.get("bases") or self.user_ctor(rec) or len(args) != len(fields) or not fields:
            raise dtable.Undecidable("%s: initialisation of %s is not one initialiser per field of an aggregate"
                                     % (fn.nloc(n), rec.get("full")))
        cells, refs = {}, set()
        for f, a in zip(fields, args):
            if a is None or a["k"] == "DefaultArg":
                self.not_understood(n, fn)
            if is_ref_ty(f.get("ty")):
                refs.add(f["mid"])
                cells[f["mid"]] = self.bind_ref(a, env, fn, "reference field %s" % f.get("name"))
                continue
            v = self.value(a, env, fn)
            if v[0] == "slot":
                raise dtable.Undecidable("%s: field %s is a copy of an element (%s), not the element"
                                         % (fn.nloc(n), f.get("name"), dtable.describe(a)))
            cells[f["mid"]] = [v if array_dims(f.get("ty")) else decay(v)]
        return ("agg", rec["full"], cells, frozenset(refs))

    def field_val(self, v, fty, n, fn):
        """value a non-reference field of type fty of a std::pair / std::tuple holds when it is initialised from v"""
        if v[0] == "slot":
            raise dtable.Undecidable("%s: a field of a pair / tuple is a copy of an element, not the element: %s"
                                     % (fn.nloc(n), dtable.describe(n)))
        if v[0] in ("int", "bool"):
            return self.wrap(v[1], fty, fn, n)
        return copy_val(v if array_dims(fty) else decay(v))

    def make_tuple(self, n, args, env, fn, elementwise):
        """std::pair / std::tuple: constructor call (no argument, one initialiser per field, or another pair / tuple
        with as many fields) and std::make_pair / make_tuple / tie / forward_as_tuple (one argument per field).  The
        fields are numbered; a field of reference type shares the cell of the object it is bound to"""
        tf = tuple_fields(n.get("ty"))
        if tf is None or any(a is None or a["k"] == "DefaultArg" for a in args):
            self.not_understood(n, fn)
        name, ftys = tf
        full = bare_ty(n["ty"])
        cells, refs = {}, set()
        if not elementwise:
            if n["callee"].get("record") != name or n["callee"].get("name") != name[5:]:
                self.not_understood(n, fn)
            if not args:
                for i, t in enumerate(ftys):                 # value-initialised fields
                    if is_ref_ty(t):
                        self.not_understood(n, fn)
                    b = bare_ty(t)
                    cells[i] = [("bool", False) if b == "bool" else ("int", 0) if b in INT_TYPES else None]
                return ("agg", full, cells, frozenset())
            if len(args) == 1 and tuple_fields(unwrap(args[0]).get("ty")) is not None:
                # copy / move / converting constructor: field by field from the other pair or tuple
                if len(ftys) == 1 and tuple_fields(ftys[0]) is not None:
                    self.not_understood(n, fn)
                src = self.value(args[0], env, fn)
                if not is_tuple(src) or len(src[2]) != len(ftys):
                    self.not_understood(n, fn)
                for i, t in enumerate(ftys):
                    if is_ref_ty(t):
                        refs.add(i)
                        cells[i] = src[2][i]
                    else:
                        cells[i] = [self.field_val(self.load(src[2][i], args[0], fn), t, n, fn)]
                return ("agg", full, cells, frozenset(refs))
        if len(args) != len(ftys):
            self.not_understood(n, fn)
        for i, (t, a) in enumerate(zip(ftys, args)):
            if is_ref_ty(t):
                refs.add(i)
                cells[i] = self.bind_ref(a, env, fn, "reference field %d of a tuple" % i, blank_ok=True)
            else:
                cells[i] = [self.field_val(self.value(a, env, fn), t, a, fn)]
        return ("agg", full, cells, frozenset(refs))

    def tuple_cat(self, n, env, fn):
        """std::tuple_cat(t0, t1, ...): the fields of the operands in order; a field of reference type keeps designating
        the same object, every other field is a copy"""
        tf = tuple_fields(n.get("ty"))
        if tf is None or tf[0] != "std::tuple" or any(a is None or a["k"] == "DefaultArg" for a in kids(n)):
            self.not_understood(n, fn)
        src = []
        for a in kids(n):
            v = self.value(a, env, fn)
            if not is_tuple(v) or sorted(v[2]) != list(range(len(v[2]))):
                self.not_understood(n, fn)
            src += [(v[2][i], i in v[3], a) for i in range(len(v[2]))]
        if len(src) != len(tf[1]):
            self.not_understood(n, fn)
        cells, refs = {}, set()
        for i, (t, (cell, isref, a)) in enumerate(zip(tf[1], src)):
            if is_ref_ty(t) != isref:
                self.not_understood(n, fn)
            if isref:
                refs.add(i)
                cells[i] = cell
            else:
                cells[i] = [self.field_val(self.load(cell, a, fn), t, n, fn)]
        return ("agg", bare_ty(n["ty"]), cells, frozenset(refs))

    def apply_call(self, n, env, fn, out):
        """std::apply(f, t): f is called once with the fields of the pair / tuple t as arguments, in their order.
        returns (status, return value)"""
        args = kids(n)
        if len(args) != 2 or any(a is None or a["k"] == "DefaultArg" for a in args):
            self.not_understood(n, fn)
        f, t = self.value(args[0], env, fn), self.value(args[1], env, fn)
        if f[0] != "lambda" or not is_tuple(t) or sorted(t[2]) != list(range(len(t[2]))):
            raise dtable.Undecidable("%s: std::apply of something else than a lambda to a pair / tuple: %s"
                                     % (fn.nloc(n), dtable.describe(n)))
        callee = self.tu.by_did.get(f[2]) if len(f) > 2 and f[2] is not None else None
        if callee is None or callee.body is None:
            raise dtable.Undecidable("%s: the body of the lambda that std::apply calls is not in the IR (the instantiated call "
                                     "operator of a generic lambda is not extracted): %s" % (fn.nloc(n), dtable.describe(n)))
        site = fn.nloc(n)
        if len(t[2]) != len(callee.params):
            raise dtable.Undecidable("%s: arity mismatch calling %s" % (site, callee.qname))
        new = dict(f[1])
        for i, p in enumerate(callee.params):
            cell = t[2][i]
            if is_ref_ty(p.get("ty")):
                # std::get<I>(t) is the object a reference field designates, or the field of t itself
                self.load(cell, args[1], fn)
                new[p["did"]] = cell
                continue
            v = self.load(cell, args[1], fn)
            if v[0] == "slot":
                raise dtable.Undecidable("%s: an element is passed by value to %s (%s works on a copy)" % (site, callee.qname, p["name"]))
            new[p["did"]] = [copy_val(decay(v))]
        return self.run_body(callee, new, out, site)

    def assign_tuple(self, n, lhs, rhs, env, fn):
        """pair / tuple = pair / tuple: field by field in order, through the reference fields of std::tie"""
        tv, rv = self.value(lhs, env, fn), self.value(rhs, env, fn)
        if not is_tuple(tv) or not is_tuple(rv) or len(tv[2]) != len(rv[2]):
            self.not_understood(n, fn)
        ftys = tuple_fields(tv[1])[1]
        for i in range(len(ftys)):
            cell = tv[2][i]
            v = decay(self.load(rv[2][i], rhs, fn))
            if (cell[0] is not None and cell[0][0] not in MUTABLE) or v[0] not in MUTABLE:
                raise dtable.Undecidable("%s: assignment through %s (an element or a functor is overwritten)"
                                         % (fn.nloc(n), dtable.describe(lhs)))
            cell[0] = self.wrap(v[1], ftys[i], fn, n) if v[0] in ("int", "bool") else v

    def cell_of(self, e, env, fn):
        cell = self.lcell(e, env, fn)
        if cell is not None:
            return cell
        raise dtable.Undecidable("%s: write to something that is not a local variable of the network function: %s"
                                 % (fn.nloc(e), dtable.describe(e)))

    def is_helper(self, c):
        callee = self.tu.by_did.get(c.get("did"))
        return callee is not None and callee.body is not None and c.get("qname", "").startswith("tlx::") \
            and not c.get("record", "").startswith(NS + "CS_")

    # ------------------------------------------------------------------ expressions with effects (statement level)
    def exec_expr(self, e, env, fn, out):
        """returns 'noreturn' | None"""
        n = unwrap(e)
        if n is None:
            return None
        k = n["k"]
        if k == "BinaryOperator" and n.get("op") == ",":
            return self.exec_expr(kids(n)[0], env, fn, out) or self.exec_expr(kids(n)[1], env, fn, out)
        if k == "ConditionalOperator":
            c = num(self.value(kids(n)[0], env, fn))
            if c is None:
                self.not_understood(n, fn)
            return self.exec_expr(kids(n)[1] if c else kids(n)[2], env, fn, out)
        b = match.binop(n, ASSIGN)
        if b and b[0] == "=" and tuple_fields((unwrap(b[1]) or {}).get("ty")) is not None:
            self.assign_tuple(n, b[1], b[2], env, fn)
            return None
        if b:
            cell = self.cell_of(b[1], env, fn)
            rhs = decay(self.value(b[2], env, fn))
            if cell[0] is not None and cell[0][0] not in MUTABLE:
                raise dtable.Undecidable("%s: assignment through %s (an element or a functor is overwritten)"
                                         % (fn.nloc(n), dtable.describe(b[1])))
            if b[0] == "=":
                new = rhs if rhs[0] in MUTABLE else None
            else:
                if cell[0] is None:
                    raise dtable.Undecidable("%s: %s is updated before it holds a value" % (fn.nloc(n), dtable.describe(b[1])))
                new = self.arith(b[0][:-1], cell[0], rhs, n.get("ty"), fn, n)
            if new is None:
                self.not_understood(n, fn)
            cell[0] = new
            return None
        u = match.unop(n, ("++", "--"))
        if u:
            cell = self.cell_of(u[1], env, fn)
            if cell[0] is None or cell[0][0] not in ("int", "it", "aptr"):
                self.not_understood(n, fn)
            d = 1 if u[0] == "++" else -1
            if cell[0][0] == "aptr":
                cell[0] = ("aptr", cell[0][1], cell[0][2] + d)
            else:
                cell[0] = ("it", cell[0][1] + d) if cell[0][0] == "it" else self.wrap(cell[0][1] + d, u[1].get("ty"), fn, n)
            return None
        if "callee" in n and k not in CONSTRUCTS:
            c = n["callee"]
            args = kids(n)
            if c.get("noreturn"):
                return "noreturn"
            if n.get("op") == "()" and args:
                obj = self.value(args[0], env, fn)
                if obj == ("cswap",):
                    if len(args) != 3:
                        raise dtable.Undecidable("%s: compare-exchange with %d operands" % (fn.nloc(n), len(args) - 1))
                    a = self.value(args[1], env, fn)
                    b = self.value(args[2], env, fn)
                    if a[0] != "slot" or b[0] != "slot":
                        raise dtable.Undecidable("%s: compare-exchange on non-slot" % fn.nloc(n))
                    out.append((a[1], b[1], fn.nloc(n)))
                    return None
                if obj[0] == "lambda":
                    callee = self.tu.by_did.get(c.get("did"))
                    if callee is None or callee.body is None:
                        raise dtable.Undecidable("%s: lambda body is not in the IR" % fn.nloc(n))
                    st, _ = self.invoke(callee, args[1:], env, fn, out, fn.nloc(n), base=obj[1])
                    return st
            if k == "CallExpr" and is_std(n, ("apply",)):
                return self.apply_call(n, env, fn, out)[0]
            if k == "CallExpr" and c.get("qname", "").startswith("tlx::"):
                if not self.is_helper(c):
                    raise dtable.Undecidable("%s: callee %s has no body in the IR" % (fn.nloc(n), c["qname"]))
                st, _ = self.invoke(self.tu.by_did[c["did"]], args, env, fn, out, fn.nloc(n))
                return st
            if is_std(n, ("swap",)) and k == "CallExpr" and len(args) == 2:
                # std::swap of two iterator / integer variables (a swap of elements is not a compare-exchange: not modelled)
                x, y = self.cell_of(args[0], env, fn), self.cell_of(args[1], env, fn)
                if x[0] is None or y[0] is None or x[0][0] not in MUTABLE or y[0][0] not in MUTABLE or x[0][0] != y[0][0] \
                        or bare_ty(args[0].get("ty")) != bare_ty(args[1].get("ty")):
                    self.not_understood(n, fn)
                x[0], y[0] = y[0], x[0]
                return None
            if is_std(n, ("advance",)) and len(args) == 2:
                cell = self.cell_of(args[0], env, fn)
                step = num(self.value(args[1], env, fn))
                if cell[0] is None or cell[0][0] not in ("it", "aptr") or step is None:
                    self.not_understood(n, fn)
                cell[0] = ("it", cell[0][1] + step) if cell[0][0] == "it" else ("aptr", cell[0][1], cell[0][2] + step)
                return None
            if k == "CallExpr" or n.get("member_call"):
                raise dtable.Undecidable(
                    "%s: statement is neither a compare-exchange nor a call of another network (%s)"
                    % (fn.nloc(n), dtable.describe(n)))
        # anything else must be an expression without effects that the interpreter can evaluate
        self._out = out
        self.value(n, env, fn)
        return None

    # ------------------------------------------------------------------ statements
    def run_stmt(self, s, env, fn, out):
        """returns 'break' | 'continue' | 'return' | 'noreturn' | None"""
        if s is None:
            return None
        self._out = out
        self.steps += 1
        if self.steps > FUEL:
            raise dtable.Undecidable("%s: interpretation of the network does not finish within %d statements" % (fn.nloc(s), FUEL))
        k = s["k"]
        if k in ("CompoundStmt", "AttributedStmt"):
            for c in kids(s):
                r = self.run_stmt(c, env, fn, out)
                if r:
                    return r
            return None
        if k == "NullStmt":
            return None
        if k == "BreakStmt":
            return "break"
        if k == "ContinueStmt":
            return "continue"
        if k == "ReturnStmt":
            if kids(s) and kids(s)[0] is not None:
                if bare_ty(kids(s)[0].get("ty")) == "void":          # return f(...); in a void function
                    r = self.exec_expr(kids(s)[0], env, fn, out)
                    if r:
                        return r
                else:
                    self._ret = self.value(kids(s)[0], env, fn)
            return "return"
        if k == "IfStmt":
            if "condvar" in s:
                raise dtable.Undecidable("%s: condition variable in a network function" % fn.nloc(s))
            if s.get("init") is not None:
                r = self.run_stmt(s["init"], env, fn, out)
                if r:
                    return r
            c = num(self.value(kids(s)[0], env, fn))
            if c is None:
                raise dtable.Undecidable("%s: condition not understood in a network function" % fn.nloc(s))
            br = kids(s)[1] if c else (kids(s)[2] if len(kids(s)) > 2 else None)
            return self.run_stmt(br, env, fn, out) if br is not None else None
        if k == "SwitchStmt":
            c = num(self.value(kids(s)[0], env, fn))
            if c is None:
                raise dtable.Undecidable("%s: switch on something that is not the size" % fn.nloc(s))
            flat = flatten_switch(kids(s)[1])
            if any(e[0] == "case" and e[1] is None for e in flat) or any(e[0] == "stmt" and foreign_label(e[1]) for e in flat):
                raise dtable.Undecidable("%s: switch with a case label that is not understood" % fn.nloc(s))
            pos = [i for i, e in enumerate(flat) if e[0] == "case" and int(e[1]) == c]
            if not pos:
                pos = [i for i, e in enumerate(flat) if e[0] == "default"]
                if pos:
                    self.defaulted = True
            if not pos:
                return None
            for e in flat[pos[0]:]:
                if e[0] != "stmt":
                    continue
                r = self.run_stmt(e[1], env, fn, out)
                if r == "break":
                    return None
                if r:
                    return r
            return None
        if k in ("ForStmt", "WhileStmt", "DoStmt"):
            init, cond, inc, body = match.loop_parts(s)
            if init is not None:
                r = self.run_stmt(init, env, fn, out)
                if r:
                    return r
            first = (k == "DoStmt")
            while True:
                self.steps += 1
                if self.steps > FUEL:
                    raise dtable.Undecidable("%s: loop does not finish within %d statements" % (fn.nloc(s), FUEL))
                if not first and cond is not None:
                    c = num(self.value(cond, env, fn))
                    if c is None:
                        raise dtable.Undecidable("%s: loop condition not understood in a network function" % fn.nloc(s))
                    if not c:
                        return None
                first = False
                r = self.run_stmt(body, env, fn, out)
                if r == "break":
                    return None
                if r in ("return", "noreturn"):
                    return r
                if inc is not None:
                    r = self.exec_expr(inc, env, fn, out)
                    if r:
                        return r
        if k == "CXXForRangeStmt":
            var = kids(s)[1] if len(kids(s)) == 3 else None
            if var is None or var["k"] != "VarDecl" or kids(s)[0] is None:
                raise dtable.Undecidable("%s: range-based loop not understood in a network function" % fn.nloc(s))
            rng = self.value(kids(s)[0], env, fn)
            if rng[0] != "arr":
                raise dtable.Undecidable("%s: range-based loop over something that is not a builtin array the interpreter "
                                         "knows: %s" % (fn.nloc(s), dtable.describe(kids(s)[0])))
            byref = is_ref_ty(var.get("ty")) or var.get("isref")
            for cell in list(rng[1]):
                self.steps += 1
                if self.steps > FUEL:
                    raise dtable.Undecidable("%s: loop does not finish within %d statements" % (fn.nloc(s), FUEL))
                # the loop variable is the element (reference) or a copy of it (an inner array decays to a pointer)
                env[var["did"]] = cell if byref else [copy_val(decay(self.load(cell, kids(s)[0], fn)))]
                self.load(env[var["did"]], kids(s)[0], fn)
                r = self.run_stmt(kids(s)[2], env, fn, out)
                if r == "break":
                    return None
                if r in ("return", "noreturn"):
                    return r
            return None
        if k == "DeclStmt":
            for v in kids(s):
                if v is None or v["k"] != "VarDecl":
                    raise dtable.Undecidable("%s: declaration not understood in a network function" % fn.nloc(s))
                ty = v.get("ty", "")
                init = kids(v)[0] if kids(v) else None
                # a static local keeps its value between calls: it is re-evaluated per call only when it is a constant
                if v.get("static") and not (is_const_obj(ty) and const_tree(init)):
                    raise dtable.Undecidable("%s: static local in a network function that is not a table of constants" % fn.nloc(v))
                isref = is_ref_ty(ty) or v.get("isref")
                if init is None:
                    if isref or is_cs_ty(ty):
                        raise dtable.Undecidable("%s: uninitialised local in a network function" % fn.nloc(v))
                    env[v["did"]] = [self.blank(array_dims(ty)[1]) if array_dims(ty) else None]
                    continue
                if isref:
                    env[v["did"]] = self.bind_ref(init, env, fn, "reference %s" % v.get("name"))     # alias
                    continue
                if init["k"] in CONSTRUCTS and not kids(init) and not v.get("static") and any(
                        bare_ty(p.get("ty")) == bare_ty(ty) and (env.get(p["did"]) or [None])[0] is not None
                        and env[p["did"]][0][0] == "it" for p in fn.params):
                    # 'Iterator x;' for an iterator of class type: holds no position until it is assigned
                    env[v["did"]] = [None]
                    continue
                val = self.value(init, env, fn)
                if val[0] == "slot":
                    raise dtable.Undecidable("%s: local %s is a copy of an element, not the element" % (fn.nloc(v), v.get("name")))
                env[v["did"]] = [val if array_dims(ty) else decay(val)]
            return None
        if "ty" in s or "callee" in s:
            return self.exec_expr(s, env, fn, out)
        raise dtable.Undecidable(
            "%s: statement is neither a compare-exchange nor a call of another network (%s)"
            % (fn.nloc(s), dtable.describe(s)))

    def blank(self, dims):
        """array without initialiser: every element is there and holds no value yet"""
        return ("arr", [[self.blank(dims[1:]) if len(dims) > 1 else None] for _ in range(dims[0])])

    # ------------------------------------------------------------------ calls
    def invoke(self, callee, argnodes, env, fn, out, site, base=None):
        """call with argument expressions of the caller; returns (status, return value)"""
        if len(argnodes) != len(callee.params):
            raise dtable.Undecidable("%s: arity mismatch calling %s" % (site, callee.qname))
        new = dict(base or {})
        if base is None:
            self.fn_visited.add(callee.qname)
        for p, a in zip(callee.params, argnodes):
            if a is None or a["k"] == "DefaultArg":
                raise dtable.Undecidable("%s: default argument used for %s" % (site, p["name"]))
            if is_ref_ty(p.get("ty")):
                # a reference to an object the interpreter can name shares its cell; other lvalues are not modelled
                new[p["did"]] = self.bind_ref(a, env, fn, "reference parameter %s of %s" % (p["name"], callee.qname))
                continue
            v = self.value(a, env, fn)
            if v[0] == "slot":
                raise dtable.Undecidable("%s: an element is passed by value to %s (%s works on a copy)" % (site, callee.qname, p["name"]))
            new[p["did"]] = [decay(v)]
        return self.run_body(callee, new, out, site)

    def run_body(self, callee, env, out, site):
        if callee.body is None:
            raise dtable.Undecidable("%s: callee %s has no body in the IR" % (site, callee.qname))
        self.depth += 1
        if self.depth > DEPTH:
            raise dtable.Undecidable("%s: call depth of the network exceeds %d" % (site, DEPTH))
        saved, self._ret = self._ret, None
        r = self.run_stmt(callee.body, env, callee, out)
        ret, self._ret = self._ret, saved
        self.depth -= 1
        self._out = out
        return ("noreturn" if r == "noreturn" else None), ret

    def call(self, fn, argvals, out, site):
        """top-level call with given parameter values; returns 'noreturn' | None"""
        self.fn_visited.add(fn.qname)
        self.steps = 0
        self._out = out
        if len(argvals) != len(fn.params):
            raise dtable.Undecidable("%s: arity mismatch calling %s" % (site, fn.qname))
        env = {}
        for p, v in zip(fn.params, argvals):
            if v is None:
                raise dtable.Undecidable("%s: default argument used for %s" % (site, p["name"]))
            env[p["did"]] = [v]
        return self.run_body(fn, env, out, site)[0]


def zero_one(n, comps):
    """bit-parallel evaluation over all 2^n zero-one inputs.
    returns None if sorted on all, else a failing input as a list of bits"""
    N = 1 << n
    wires = []
    for w in range(n):
        # bit j of wires[w] = bit w of j
        block = (1 << (1 << w)) - 1          # 2^w ones
        period = 1 << (w + 1)
        # pattern: 2^w zeros then 2^w ones, repeated
        unit = block << (1 << w)
        # build by doubling
        x = unit
        length = period
        while length < N:
            x |= x << length
            length *= 2
        wires.append(x)
    for (i, j, _) in comps:
        if i == j:
            continue
        a, b = wires[i], wires[j]
        wires[i] = a & b      # min to the left operand
        wires[j] = a | b
    for k in range(n - 1):
        bad = wires[k] & ~wires[k + 1]
        if bad:
            j = (bad & -bad).bit_length() - 1
            return [(j >> w) & 1 for w in range(n)]
    return None


def check_network(ck, rule, fn, label, n, comps):
    where = "%s %s" % (fn.full if hasattr(fn, "full") else fn, label)
    oob = [c for c in comps if not (0 <= c[0] < n and 0 <= c[1] < n)]
    if oob:
        ck.violation(rule, fn.qname, label,
                     "compare-exchange touches slot (%d,%d) outside [0,%d)" % (oob[0][0], oob[0][1], n),
                     oob[0][2])
        return False
    if n >= 2:
        cex = zero_one(n, comps)
        ck.states += 1 << n
        if cex is not None:
            ck.violation(rule, fn.qname, label,
                         "network with %d comparators does not sort %d wires: zero-one input %s stays unsorted"
                         % (len(comps), n, "".join(map(str, cex))), fn.loc)
            return False
    ck.ok(rule, where, "%d comparators sort all 2^%d zero-one inputs" % (len(comps), n),
          nontrivial=(n >= 2),
          sample=dict(rule=rule, fn=fn.full, n=n, comparators=[(a, b) for a, b, _ in comps][:12]))
    return True


def flatten_switch(body):
    """linear list of ('case', v)/('default',)/('stmt', s) for a switch body"""
    out = []

    def add(s):
        if s is None:
            return
        if s["k"] == "CaseStmt":
            out.append(("case", s.get("val")))
            add(kids(s)[0])
        elif s["k"] == "DefaultStmt":
            out.append(("default",))
            add(kids(s)[0])
        else:
            out.append(("stmt", s))
    if body is not None and body["k"] == "CompoundStmt":
        for c in kids(body):
            add(c)
    else:
        add(body)
    return out


def check_dispatcher(ck, tu, fam, fn, nets_seen):
    """the dispatcher is interpreted for every size 0..16 (end = begin + n): whatever its control structure, the
    compare-exchanges it reaches must sort exactly slots 0..n-1"""
    ns = NS + fam
    interp = NetInterp(tu, ns)
    p = fn.params
    if len(p) != 3 or bare_ty(p[0].get("ty")) != bare_ty(p[1].get("ty")) or is_cs_ty(p[2].get("ty")):
        raise dtable.Undecidable("%s: the parameters of %s are not (begin, end, comparator)" % (fn.loc, fn.full))
    for n in range(0, 17):
        label = "case=%d" % n
        comps = []
        interp.defaulted = False
        r = interp.call(fn, [("it", 0), ("it", n), ("cmp",)], comps, fn.loc)
        if r == "noreturn":
            ck.violation("DISPATCH-SIZE", fn.qname, label, "size %d reaches a no-return call" % n, fn.loc)
            continue
        if interp.defaulted and not comps and n >= 2:
            ck.violation("DISPATCH-SIZE", fn.qname, label, "no case for size %d (falls to default)" % n, fn.loc)
            continue
        check_network(ck, "DISPATCH-SIZE", fn, label, n, comps)
    interp.fn_visited.discard(fn.qname)
    nets_seen.update(interp.fn_visited)


# ---------------------------------------------------------------------- the compare-exchange functor
CMP = ("cmp",)


class Misuse(Exception):
    def __init__(self, msg, node):
        Exception.__init__(self, msg)
        self.node = node


class CswapEval:
    """executes the compare-exchange functor on two labelled elements 'L', 'R' for one valuation v of the comparator.
    A variable is a cell [value]; reference locals and reference parameters share the cell of what they are bound to.
    Values: 'L' | 'R' (an element) | True / False | CMP (the functor's comparator).
    Understood: if / ?: / && / || / ! on comparator calls, std::swap / iter_swap, value and reference locals,
    assignments (copy or move), std::min / std::max with the functor's comparator, early return, calls of other
    members / tlx helpers (executed)"""

    def __init__(self, tu, v):
        self.tu = tu
        self.v = v
        self.cmpcell = [CMP]
        self.depth = 0
        self.steps = 0
        self._ret = None

    def cmp(self, a, b):
        return False if a == b else self.v[(a, b)]

    def und(self, fn, n, what):
        raise dtable.Undecidable("%s: %s not understood in the compare-exchange functor: %s" % (fn.nloc(n), what, dtable.describe(n)))

    def elem(self, x, fn, n):
        if x not in ("L", "R"):
            self.und(fn, n, "operand of the comparator / of min, max")
        return x

    def truth(self, e, env, fn):
        x = self.ev(e, env, fn)
        if isinstance(x, (bool, int)):
            return bool(x)
        self.und(fn, e, "condition")

    def pick(self, n, env, fn):
        """the argument expression std::min / std::max returns (two operands or a two-element initializer list)"""
        args = kids(n)
        name = n["callee"]["name"]
        if any(a is None or a["k"] == "DefaultArg" for a in args) or not args:
            self.und(fn, n, "arguments of std::%s" % name)
        first = unwrap(args[0])
        if first["k"] == "CXXStdInitializerListExpr" and len(kids(first)) == 1 and kids(first)[0] is not None \
                and kids(first)[0]["k"] == "InitListExpr" and len(kids(kids(first)[0])) == 2:
            ops, rest = kids(kids(first)[0]), args[1:]
        else:
            ops, rest = args[:2], args[2:]
        if len(ops) != 2 or len(rest) > 1:
            self.und(fn, n, "arguments of std::%s" % name)
        a, b = self.elem(self.ev(ops[0], env, fn), fn, n), self.elem(self.ev(ops[1], env, fn), fn, n)
        if not rest:
            # std::min(x, y) of two elements compares with operator<, whatever the functor's comparator is
            raise Misuse("std::%s is called without the functor's comparator" % name, n)
        if self.ev(rest[0], env, fn) != CMP:
            self.und(fn, n, "comparator of std::%s" % name)
        if name == "min":
            return ops[1] if self.cmp(b, a) else ops[0]
        return ops[1] if self.cmp(a, b) else ops[0]

    def tuple_of(self, n, args, env, fn, elementwise):
        """('tup', [cell, ...]) for a std::pair / std::tuple: a constructor call (one initialiser per field, or another
        pair / tuple) or std::make_pair / make_tuple / tie / forward_as_tuple.  A field of reference type shares the
        cell of the variable it is bound to, every other field is a copy"""
        tf = tuple_fields(n.get("ty"))
        if tf is None or not args or any(a is None or a["k"] == "DefaultArg" for a in args):
            self.und(fn, n, "pair / tuple")
        ftys = tf[1]
        if not elementwise:
            if n["callee"].get("record") != tf[0] or n["callee"].get("name") != tf[0][5:]:
                self.und(fn, n, "pair / tuple")
            if len(args) == 1 and tuple_fields(unwrap(args[0]).get("ty")) is not None:
                src = self.ev(args[0], env, fn)
                if len(ftys) == 1 and tuple_fields(ftys[0]) is not None:
                    self.und(fn, n, "pair / tuple")
                if not isinstance(src, tuple) or src[0] != "tup" or len(src[1]) != len(ftys):
                    self.und(fn, n, "pair / tuple")
                return ("tup", [c if is_ref_ty(t) else [self.field(c[0], fn, n)] for t, c in zip(ftys, src[1])])
        if len(args) != len(ftys):
            self.und(fn, n, "pair / tuple")
        cells = []
        for t, a in zip(ftys, args):
            cell = self.lv(a, env, fn) if is_ref_ty(t) else None
            if is_ref_ty(t) and cell is None and unwrap(a).get("lv"):
                self.und(fn, a, "object a reference field of the tuple is bound to")
            cells.append(cell if cell is not None else [self.field(self.ev(a, env, fn), fn, a)])
        return ("tup", cells)

    def field(self, x, fn, n):
        """a field of a pair / tuple holds an element, a truth value or nothing yet (a moved-from / default value is
        not modelled)"""
        if x in ("L", "R") or isinstance(x, bool):
            return x
        self.und(fn, n, "field of a pair / tuple")

    def tuple_cell(self, n, env, fn):
        """cell of p.first / p.second / std::get<I>(p); None when n has another form"""
        if n["k"] == "MemberExpr" and n.get("owner") == "std::pair" and len(kids(n)) == 1 and not n.get("arrow") \
                and not n.get("method") and n.get("member") in ("first", "second"):
            base, idx = self.ev(kids(n)[0], env, fn), ("first", "second").index(n["member"])
        elif n["k"] == "CallExpr" and is_std(n, ("get",)) and len(kids(n)) == 1 and kids(n)[0] is not None \
                and kids(n)[0]["k"] != "DefaultArg":
            targs = n["callee"].get("targs") or []
            m = re.fullmatch(r"(\d+)[uUlL]*", str(targs[0]).strip()) if targs else None
            if not m:
                self.und(fn, n, "std::get")
            base, idx = self.ev(kids(n)[0], env, fn), int(m.group(1))
        else:
            return None
        if not isinstance(base, tuple) or base[0] != "tup" or not 0 <= idx < len(base[1]):
            self.und(fn, n, "field access")
        return base[1][idx]

    def lv(self, e, env, fn):
        """cell of an lvalue expression; None when e is not an lvalue of an understood form"""
        n = unwrap(e)
        if n is None:
            return None
        k = n["k"]
        if k == "DeclRefExpr":
            return env.get(n["ref"]["id"])
        if ir.is_this_member(n):
            return self.cmpcell
        if k in ("MemberExpr", "CallExpr"):
            cell = self.tuple_cell(n, env, fn)
            if cell is not None:
                return cell
        if k == "ConditionalOperator":
            return self.lv(kids(n)[1] if self.truth(kids(n)[0], env, fn) else kids(n)[2], env, fn)
        if is_std(n, ("move", "forward", "as_const")) and len(kids(n)) == 1:
            return self.lv(kids(n)[0], env, fn)
        if is_std(n, ("min", "max")) and "&" in n["callee"].get("ret", ""):
            return self.lv(self.pick(n, env, fn), env, fn)
        return None

    def ev(self, e, env, fn):
        n = unwrap(e)
        if n is None:
            raise dtable.Undecidable("%s: missing expression in the compare-exchange functor" % fn.loc)
        k = n["k"]
        cell = self.lv(n, env, fn)
        if cell is not None:
            if cell[0] is None:
                raise dtable.Undecidable("%s: variable is read before it holds a value in the compare-exchange functor" % fn.nloc(n))
            return cell[0]
        if k == "DeclRefExpr":
            if const_int(n) is not None:
                return bool(const_int(n))
            raise dtable.Undecidable("%s: unbound variable in the compare-exchange functor" % fn.nloc(n))
        if const_int(n) is not None:
            return bool(const_int(n))
        if k in CONSTRUCTS and n.get("callee", {}).get("record") in STD_TUPLES:
            return self.tuple_of(n, kids(n), env, fn, False)
        if k == "CallExpr" and is_std(n, ("make_pair", "make_tuple", "tie", "forward_as_tuple")):
            return self.tuple_of(n, kids(n), env, fn, True)
        if k in CONSTRUCTS and len(kids(n)) == 1 and kids(n)[0] is not None and kids(n)[0]["k"] != "DefaultArg":
            return self.ev(kids(n)[0], env, fn)            # copy / move of an element or of the comparator
        if k == "UnaryOperator" and n.get("op") == "!":
            return not self.truth(kids(n)[0], env, fn)
        if k == "BinaryOperator" and n.get("op") in ("&&", "||"):
            a = self.truth(kids(n)[0], env, fn)
            if a == (n["op"] == "||"):
                return a
            return self.truth(kids(n)[1], env, fn)
        if k == "ConditionalOperator":
            return self.ev(kids(n)[1] if self.truth(kids(n)[0], env, fn) else kids(n)[2], env, fn)
        if "callee" in n and n.get("op") == "()" and len(kids(n)) == 3 and self.lv(kids(n)[0], env, fn) is not None \
                and self.ev(kids(n)[0], env, fn) == CMP:
            a, b = self.ev(kids(n)[1], env, fn), self.ev(kids(n)[2], env, fn)
            return self.cmp(self.elem(a, fn, n), self.elem(b, fn, n))
        if is_std(n, ("min", "max")):
            return self.ev(self.pick(n, env, fn), env, fn)
        if is_std(n, ("exchange",)) and len(kids(n)) == 2:
            cell = self.lv(kids(n)[0], env, fn)
            if cell is None or cell is self.cmpcell or cell[0] is None:
                self.und(fn, n, "target of std::exchange")
            new = self.ev(kids(n)[1], env, fn)
            old, cell[0] = cell[0], new
            return old
        if "callee" in n and n["k"] in ("CallExpr", "CXXMemberCallExpr") and self.is_helper(n["callee"]):
            ret = self.invoke(n, env, fn)
            if ret is None:
                self.und(fn, n, "value of the call")
            return ret
        self.und(fn, n, "expression")

    def is_helper(self, c):
        callee = self.tu.by_did.get(c.get("did"))
        return callee is not None and callee.body is not None and c.get("qname", "").startswith("tlx::")

    def invoke(self, n, env, fn):
        callee = self.tu.by_did[n["callee"]["did"]]
        args = list(kids(n))
        if n.get("member_call"):
            obj = unwrap(args[0]) if args else None
            if obj is None or obj["k"] != "This":
                self.und(fn, n, "member call on another object")
            args = args[1:]
        if len(args) != len(callee.params):
            self.und(fn, n, "arity of the call")
        new = {}
        for p, a in zip(callee.params, args):
            if a is None or a["k"] == "DefaultArg":
                self.und(fn, n, "default argument of the call")
            cell = self.lv(a, env, fn) if is_ref_ty(p.get("ty")) else None
            if is_ref_ty(p.get("ty")) and cell is None and unwrap(a).get("lv"):
                self.und(fn, a, "object the reference parameter %s is bound to" % p.get("name"))
            new[p["did"]] = cell if cell is not None else [self.ev(a, env, fn)]
        self.depth += 1
        if self.depth > DEPTH:
            self.und(fn, n, "recursion")
        saved, self._ret = self._ret, None
        self.run(callee.body, new, callee)
        ret, self._ret = self._ret, saved
        self.depth -= 1
        return ret

    def exec_expr(self, e, env, fn):
        n = unwrap(e)
        if n is None:
            return
        k = n["k"]
        if k == "BinaryOperator" and n.get("op") == ",":
            self.exec_expr(kids(n)[0], env, fn)
            self.exec_expr(kids(n)[1], env, fn)
            return
        if k == "ConditionalOperator":
            self.exec_expr(kids(n)[1] if self.truth(kids(n)[0], env, fn) else kids(n)[2], env, fn)
            return
        if "callee" in n and n["callee"]["name"] in ("swap", "iter_swap") and len(kids(n)) == 2 and k == "CallExpr" \
                and not self.is_helper(n["callee"]):
            cells = []
            for a in kids(n):
                a = unwrap(a)
                if n["callee"]["name"] == "iter_swap":
                    if a is not None and ((a["k"] == "UnaryOperator" and a.get("op") == "&") or is_std(a, ("addressof",))) and len(kids(a)) == 1:
                        a = kids(a)[0]
                    else:
                        a = None
                c = self.lv(a, env, fn) if a is not None else None
                if c is None or c is self.cmpcell or c[0] not in ("L", "R"):
                    raise dtable.Undecidable("%s: swap of something else than two variables that hold an element" % fn.nloc(n))
                cells.append(c)
            cells[0][0], cells[1][0] = cells[1][0], cells[0][0]
            return
        if n.get("member_call") and n["callee"]["name"] == "swap" and len(kids(n)) == 2:
            cells = [self.lv(a, env, fn) for a in kids(n)]
            if any(c is None or c is self.cmpcell or c[0] not in ("L", "R") for c in cells):
                raise dtable.Undecidable("%s: swap of something else than two variables that hold an element" % fn.nloc(n))
            cells[0][0], cells[1][0] = cells[1][0], cells[0][0]
            return
        b = match.binop(n, ("=",))
        if b and tuple_fields((unwrap(b[1]) or {}).get("ty")) is not None:
            # pair / tuple = pair / tuple: field by field in order, through the reference fields of std::tie
            tv, rv = self.ev(b[1], env, fn), self.ev(b[2], env, fn)
            if not (isinstance(tv, tuple) and isinstance(rv, tuple) and tv[0] == "tup" and rv[0] == "tup" and len(tv[1]) == len(rv[1])):
                self.und(fn, n, "assignment of a pair / tuple")
            for tc, rc in zip(tv[1], rv[1]):
                if tc is self.cmpcell or rc is self.cmpcell:
                    self.und(fn, n, "assignment of a pair / tuple")
                tc[0] = self.field(rc[0], fn, n)
            return
        if b:
            cell = self.lv(b[1], env, fn)
            if cell is None or cell is self.cmpcell:
                self.und(fn, n, "target of the assignment")
            cell[0] = self.ev(b[2], env, fn)
            return
        if "callee" in n and k in ("CallExpr", "CXXMemberCallExpr") and self.is_helper(n["callee"]):
            self.invoke(n, env, fn)
            return
        if "callee" in n and k in ("CallExpr", "CXXMemberCallExpr"):
            self.und(fn, n, "statement")
        self.ev(n, env, fn)        # an expression without effects

    def run(self, s, env, fn):
        """returns 'return' | None"""
        if s is None:
            return None
        self.steps += 1
        if self.steps > FUEL:
            raise dtable.Undecidable("%s: the compare-exchange functor does not finish" % fn.nloc(s))
        k = s["k"]
        if k in ("CompoundStmt", "AttributedStmt"):
            for c in kids(s):
                if self.run(c, env, fn):
                    return "return"
            return None
        if k == "NullStmt":
            return None
        if k == "IfStmt":
            if "condvar" in s:
                self.und(fn, s, "condition variable")
            if s.get("init") is not None and self.run(s["init"], env, fn):
                return "return"
            br = kids(s)[1] if self.truth(kids(s)[0], env, fn) else (kids(s)[2] if len(kids(s)) > 2 else None)
            return self.run(br, env, fn)
        if k == "DeclStmt":
            for d in kids(s):
                if d is None or d["k"] != "VarDecl" or d.get("static"):
                    self.und(fn, s, "declaration")
                init = kids(d)[0] if kids(d) else None
                ref = is_ref_ty(d.get("ty")) or d.get("isref")
                if init is None or (init["k"] in CONSTRUCTS and not kids(init)):
                    if ref:
                        self.und(fn, s, "declaration")
                    env[d["did"]] = [None]                 # holds no input element yet
                    continue
                cell = self.lv(init, env, fn) if ref else None
                if ref and cell is None and unwrap(init).get("lv"):
                    self.und(fn, init, "object the reference %s is bound to" % d.get("name"))
                env[d["did"]] = cell if cell is not None else [self.ev(init, env, fn)]
            return None
        if k == "ReturnStmt":
            if kids(s) and kids(s)[0] is not None:
                if bare_ty(kids(s)[0].get("ty")) == "void":
                    self.exec_expr(kids(s)[0], env, fn)
                else:
                    self._ret = self.ev(kids(s)[0], env, fn)
            return "return"
        if "ty" in s or "callee" in s:
            self.exec_expr(s, env, fn)
            return None
        self.und(fn, s, "statement")


def check_cswap(ck, tu):
    """the compare-exchange functor is executed on two labelled elements L, R for the three consistent outcomes of
    (cmp(L,R), cmp(R,L)): the caller's slots must afterwards hold a permutation of {L, R} with not cmp(right, left)"""
    fns = tu.some(qname=NS + "CS_IfSwap::operator()")
    for fn in fns:
        if len(fn.params) != 2:
            raise dtable.Undecidable("%s: the compare-exchange functor does not take two elements" % fn.loc)
        bad = None
        for v in ({("L", "R"): True, ("R", "L"): False}, {("L", "R"): False, ("R", "L"): True}, {("L", "R"): False, ("R", "L"): False}):
            evl = CswapEval(tu, v)
            slots = (["L"], ["R"])                       # the two elements of the caller
            # a by-value parameter is a copy: what the functor does to it never reaches the caller's slot
            env = {p["did"]: (cell if is_ref_ty(p.get("ty")) else [cell[0]]) for p, cell in zip(fn.params, slots)}
            try:
                evl.run(fn.body, env, fn)
            except Misuse as m:
                bad = (v, str(m))
                break
            left, right = slots[0][0], slots[1][0]
            if left not in ("L", "R") or right not in ("L", "R"):
                raise dtable.Undecidable("%s: a slot holds something else than one of the two elements after the compare-exchange" % fn.loc)
            if sorted((left, right)) != ["L", "R"]:
                bad = (v, "both slots hold element %s afterwards: one of two elements that compare %s is lost and the other duplicated (the output is "
                          "no longer a permutation of the input)" % (left, "equivalent" if not v[("L", "R")] and not v[("R", "L")] else "unequal"))
                break
            if evl.cmp(right, left):
                bad = (v, "afterwards right < left still holds: the pair is not put in order")
                break
        if bad:
            v, msg = bad
            ck.violation("CSWAP-TABLE", fn.qname, "row:cmp(L,R)=%s,cmp(R,L)=%s" % (v[("L", "R")], v[("R", "L")]),
                         "with cmp(left,right)=%s and cmp(right,left)=%s: %s" % (v[("L", "R")], v[("R", "L")], msg), fn.loc)
        else:
            ck.ok("CSWAP-TABLE", fn.full, "3 consistent outcomes of (cmp(l,r), cmp(r,l)): the slots hold a permutation of the two elements, in order")


def direct_args(fn, n):
    """parameter values for a direct call of sort<n>: one iterator, or n element references, and the functor"""
    cs = [p for p in fn.params if is_cs_ty(p.get("ty"))]
    rest = [p for p in fn.params if not is_cs_ty(p.get("ty"))]
    if len(cs) != 1 or fn.params[-1] is not cs[0]:
        raise dtable.Undecidable("%s: parameters of %s are not (elements..., compare-exchange functor)" % (fn.loc, fn.full))
    if len(rest) == n and all(is_ref_ty(p.get("ty")) for p in rest):
        return [("slot", i) for i in range(n)] + [("cswap",)]
    if len(rest) == 1:
        return [("it", 0), ("cswap",)]
    raise dtable.Undecidable("%s: %s takes neither one iterator nor %d element references" % (fn.loc, fn.full, n))


def extract_as_written(src, defs):
    """the interpreters of this file execute new helpers, locals, aliases and lambdas themselves, so the tree is taken as
    written: the rewriting of engine/normalize.py is not needed here, and one of its rewrites (a local that is written
    only inside a lambda replaced by its initialiser) would change what is executed"""
    old = os.environ.get("VERIF_NO_NORMALIZE")
    os.environ["VERIF_NO_NORMALIZE"] = "1"
    try:
        return ir.extract(src, defines=defs)
    finally:
        if old is None:
            del os.environ["VERIF_NO_NORMALIZE"]
        else:
            os.environ["VERIF_NO_NORMALIZE"] = old


def run(ck):
    ck.level = "proof"
    ck.explanation = (
        "For each network family and n=2..16 the compare-exchange sequence is extracted from the "
        "instantiated AST by concrete interpretation of slot indices (iterator offsets / reference "
        "parameters, integer locals, loops, helper calls) through the call tree; the zero-one principle is then decided over all 2^n "
        "inputs bit-parallel. The size dispatchers are interpreted case by case (0..16) and each case "
        "must reach a network that sorts exactly slots 0..n-1. CS_IfSwap is executed on two labelled elements "
        "for the weak-order-consistent valuations of cmp(l,r), cmp(r,l). Any construct the interpreters do not "
        "understand makes the check stop as undecidable.")
    defs = ["WITNESS_THOROUGH"] if ck.tier == "thorough" else []
    tu = extract_as_written("witness/C15_networks.cpp", defs)
    per_inst = {}
    for fam in FAMILIES:
        ns = NS + fam
        disp = tu.some(qname=ns + "::sort")
        seen = set()
        for fn in disp:
            ck.guarded(lambda fn=fn: check_dispatcher(ck, tu, fam, fn, seen))
        direct = [f for f in tu.functions if f.qname.startswith(ns + "::") and re.fullmatch(r"sort(\d+)", f.name)]
        sizes = set()

        def one(fn, n):
            interp = NetInterp(tu, ns)
            comps = []
            r = interp.call(fn, direct_args(fn, n), comps, fn.loc)
            interp.fn_visited.discard(fn.qname)
            seen.update(interp.fn_visited)
            seen.add(fn.qname)
            if r == "noreturn":
                ck.violation("NET-SORTS", fn.qname, "n=%d" % n, "sort%d reaches a no-return call" % n, fn.loc)
                return
            check_network(ck, "NET-SORTS", fn, "n=%d" % n, n, comps)
            per_inst.setdefault((fam, n), []).append((fn.full, [(a, b) for a, b, _ in comps]))
        for fn in direct:
            n = int(fn.name[4:])
            sizes.add(n)
            ck.guarded(lambda fn=fn, n=n: one(fn, n))
        missing = [n for n in range(2, 17) if n not in sizes]
        ck.require(not missing, "family %s: sort%s not instantiated by the witness" % (fam, missing))
        for q in sorted(seen):
            ck.ok("NET-OBLIVIOUS", q, "body consists of compare-exchanges and network calls only", nontrivial=False)
    if ck.tier == "thorough" and not ck.deferred:
        for (fam, n), lst in sorted(per_inst.items()):
            ck.require(len(lst) >= 2, "thorough: second instantiation of %s::sort%d missing" % (fam, n))
            same = all(c == lst[0][1] for _, c in lst)
            if not same:
                raise ir.AnalysisBroken("network %s::sort%d differs between instantiations" % (fam, n))
            ck.ok("NET-INST-INDEPENDENT", "%s::sort%d" % (fam, n), "%d instantiations give the identical network" % len(lst), nontrivial=False)
    ck.guarded(lambda: check_cswap(ck, tu))
    ck.floor("NET-SORTS", 45)
    ck.floor("DISPATCH-SIZE", 51)
    ck.floor("CSWAP-TABLE", 1)
