"""C15 — sorting networks: comparator-sequence extraction (engine A1) + zero-one
principle, size dispatch, compare-exchange decision table."""
import re

from engine import ir, dtable, match
from engine.ir import kids, const_int, strip_casts

FAMILIES = ["best", "bose_nelson", "bose_nelson_parameter"]
NS = "tlx::sort_networks::"


class NetInterp:
    """abstract interpreter for network functions: values are
    ('it', off) iterator at slot off | ('slot', i) | ('cswap',)"""

    def __init__(self, tu, ns):
        self.tu = tu
        self.ns = ns
        self.fn_visited = set()

    def value(self, n, env, fn):
        n0 = n
        n = strip_casts(n)
        k = n["k"]
        if k == "DeclRefExpr":
            did = n["ref"]["id"]
            if did in env:
                return env[did]
            raise dtable.Undecidable("%s: unknown variable %s" % (fn.nloc(n), n["ref"]["name"]))
        if k in ("CXXConstructExpr",) and len(kids(n)) == 1:
            return self.value(kids(n)[0], env, fn)      # copy of iterator / cswap
        if k == "ParenExpr":
            return self.value(kids(n)[0], env, fn)
        if const_int(n) is not None:
            return ("int", const_int(n))
        if k == "UnaryOperator" and n.get("op") == "!":
            v = self.value(kids(n)[0], env, fn)
            if v[0] in ("int", "bool"):
                return ("bool", not v[1])
        if k == "BinaryOperator" and n.get("op") in ("&&", "||"):
            a = self.value(kids(n)[0], env, fn)
            if a[0] in ("int", "bool"):
                if bool(a[1]) == (n["op"] == "||"):
                    return ("bool", n["op"] == "||")
                b = self.value(kids(n)[1], env, fn)
                if b[0] in ("int", "bool"):
                    return ("bool", bool(b[1]))
        bo = match.binop(n, ("-", "==", "!=", "<", "<=", ">", ">="))
        if bo and const_int(bo[2]) is None or (bo and bo[0] != "-"):
            try:
                a, b = self.value(bo[1], env, fn), self.value(bo[2], env, fn)
            except dtable.Undecidable:
                a = b = None
            if a is not None and a[0] == b[0] and a[0] in ("it", "int") and a[1] is not None and b[1] is not None:
                if bo[0] == "-":
                    return ("int", a[1] - b[1])
                return ("bool", {"==": a[1] == b[1], "!=": a[1] != b[1], "<": a[1] < b[1], "<=": a[1] <= b[1], ">": a[1] > b[1], ">=": a[1] >= b[1]}[bo[0]])
        if k == "BinaryOperator" and n["op"] in ("+", "-"):
            a, b = kids(n)
            ca, cb = const_int(a), const_int(b)
            if cb is not None:
                v = self.value(a, env, fn)
                if v[0] == "it":
                    return ("it", v[1] + (cb if n["op"] == "+" else -cb))
            if ca is not None and n["op"] == "+":
                v = self.value(b, env, fn)
                if v[0] == "it":
                    return ("it", v[1] + ca)
        if "callee" in n and n.get("op") in ("+", "-") and len(kids(n)) == 2:
            a, b = kids(n)
            cb = const_int(b)
            if cb is not None:
                v = self.value(a, env, fn)
                if v[0] == "it":
                    return ("it", v[1] + (cb if n["op"] == "+" else -cb))
        if "callee" in n and n["callee"]["name"] in ("next", "prev") and kids(n):
            args = [a for a in kids(n) if a is not None and a["k"] != "DefaultArg"]
            step = 1 if len(args) == 1 else const_int(args[1])
            v = self.value(args[0], env, fn)
            if step is not None and v[0] == "it" and v[1] is not None:
                return ("it", v[1] + (step if n["callee"]["name"] == "next" else -step))
        if k == "ArraySubscriptExpr" or ("callee" in n and n.get("op") == "[]"):
            a, b = kids(n)
            cb = const_int(b)
            v = self.value(a, env, fn)
            if cb is not None and v[0] == "it":
                return ("slot", v[1] + cb)
        if (k == "UnaryOperator" and n["op"] == "*") or ("callee" in n and n.get("op") == "*" and len(kids(n)) == 1):
            v = self.value(kids(n)[0], env, fn)
            if v[0] == "it":
                return ("slot", v[1])
        raise dtable.Undecidable("%s: expression not understood in a network function: %s"
                                 % (fn.nloc(n0), dtable.describe(n0)))

    def run_stmt(self, s, env, fn, out):
        """returns 'break' | 'return' | 'noreturn' | None"""
        k = s["k"]
        if k == "CompoundStmt":
            for c in kids(s):
                r = self.run_stmt(c, env, fn, out)
                if r:
                    return r
            return None
        if k == "NullStmt":
            return None
        if k == "BreakStmt":
            return "break"
        if k == "ReturnStmt" and not kids(s):
            return "return"
        if k == "IfStmt":
            c = self.value(kids(s)[0], env, fn)
            if c[0] not in ("bool", "int"):
                raise dtable.Undecidable("%s: condition not understood in a network function" % fn.nloc(s))
            br = kids(s)[1] if c[1] else (kids(s)[2] if len(kids(s)) > 2 else None)
            return self.run_stmt(br, env, fn, out) if br is not None else None
        if k == "SwitchStmt":
            c = self.value(kids(s)[0], env, fn)
            if c[0] != "int":
                raise dtable.Undecidable("%s: switch on something that is not the size" % fn.nloc(s))
            flat = flatten_switch(kids(s)[1])
            pos = [i for i, e in enumerate(flat) if e[0] == "case" and e[1] == c[1]]
            if not pos:
                pos = [i for i, e in enumerate(flat) if e[0] == "default"]
                self.defaulted = True
            if not pos:
                return None
            for e in flat[pos[0]:]:
                if e[0] != "stmt":
                    continue
                r = self.run_stmt(e[1], env, fn, out)
                if r == "break":
                    return None
                if r:
                    return r
            return None
        if k == "AttributedStmt":
            for c in kids(s):
                r = self.run_stmt(c, env, fn, out)
                if r:
                    return r
            return None
        if k == "DeclStmt":
            for v in kids(s):
                ty = v.get("ty", "")
                if "sort_networks::CS_" in ty:
                    env[v["did"]] = ("cswap",)
                elif kids(v):
                    env[v["did"]] = self.value(kids(v)[0], env, fn)
                else:
                    raise dtable.Undecidable("%s: uninitialised local in a network function" % fn.nloc(v))
            return None
        if "callee" in s:
            c = s["callee"]
            args = kids(s)
            if c.get("noreturn"):
                return "noreturn"
            if s.get("op") == "()" and args:
                obj = self.value(args[0], env, fn)
                if obj == ("cswap",) and len(args) == 3:
                    a = self.value(args[1], env, fn)
                    b = self.value(args[2], env, fn)
                    if a[0] != "slot" or b[0] != "slot":
                        raise dtable.Undecidable("%s: compare-exchange on non-slot" % fn.nloc(s))
                    out.append((a[1], b[1], fn.nloc(s)))
                    return None
            if c["qname"].startswith(self.ns + "::") and s["k"] == "CallExpr":
                callee = self.tu.by_did.get(c["did"])
                if callee is None:
                    raise dtable.Undecidable("%s: callee %s has no body in the IR" % (fn.nloc(s), c["qname"]))
                self.call(callee, [self.value(a, env, fn) if a["k"] != "DefaultArg" else None
                                   for a in args], out, fn.nloc(s))
                return None
        raise dtable.Undecidable(
            "%s: statement is neither a compare-exchange nor a call of another network (%s)"
            % (fn.nloc(s), dtable.describe(s)))

    def call(self, fn, argvals, out, site):
        self.fn_visited.add(fn.qname)
        env = {}
        if len(argvals) != len(fn.params):
            raise dtable.Undecidable("%s: arity mismatch calling %s" % (site, fn.qname))
        for p, v in zip(fn.params, argvals):
            if v is None:
                raise dtable.Undecidable("%s: default argument used for %s" % (site, p["name"]))
            env[p["did"]] = v
        self.run_stmt(fn.body, env, fn, out)


def zero_one(n, comps):
    """bit-parallel evaluation over all 2^n zero-one inputs.
    returns None if sorted on all, else a failing input as a list of bits"""
    N = 1 << n
    wires = []
    for w in range(n):
        # bit j of wires[w] = bit w of j
        block = (1 << (1 << w)) - 1          # 2^w ones
        period = 1 << (w + 1)
        x = 0
        # pattern: 2^w zeros then 2^w ones, repeated
        unit = block << (1 << w)
        reps = N // period
        # build by doubling
        x = unit
        length = period
        while length < N:
            x |= x << length
            length *= 2
        wires.append(x)
    for (i, j, _) in comps:
        if i == j:
            continue
        a, b = wires[i], wires[j]
        wires[i] = a & b      # min to the left operand
        wires[j] = a | b
    for k in range(n - 1):
        bad = wires[k] & ~wires[k + 1]
        if bad:
            j = (bad & -bad).bit_length() - 1
            return [(j >> w) & 1 for w in range(n)]
    return None


def check_network(ck, rule, fn, label, n, comps):
    where = "%s %s" % (fn.full if hasattr(fn, "full") else fn, label)
    oob = [c for c in comps if not (0 <= c[0] < n and 0 <= c[1] < n)]
    if oob:
        ck.violation(rule, fn.qname, label,
                     "compare-exchange touches slot (%d,%d) outside [0,%d)" % (oob[0][0], oob[0][1], n),
                     oob[0][2])
        return False
    if n >= 2:
        cex = zero_one(n, comps)
        ck.states += 1 << n
        if cex is not None:
            ck.violation(rule, fn.qname, label,
                         "network with %d comparators does not sort %d wires: zero-one input %s stays unsorted"
                         % (len(comps), n, "".join(map(str, cex))), fn.loc)
            return False
    ck.ok(rule, where, "%d comparators sort all 2^%d zero-one inputs" % (len(comps), n),
          nontrivial=(n >= 2),
          sample=dict(rule=rule, fn=fn.full, n=n, comparators=[(a, b) for a, b, _ in comps][:12]))
    return True


def flatten_switch(body):
    """linear list of ('case', v)/('default',)/('stmt', s) for a switch body"""
    out = []

    def add(s):
        if s is None:
            return
        if s["k"] == "CaseStmt":
            out.append(("case", s.get("val")))
            add(kids(s)[0])
        elif s["k"] == "DefaultStmt":
            out.append(("default",))
            add(kids(s)[0])
        else:
            out.append(("stmt", s))
    for c in kids(body):
        add(c)
    return out


def check_dispatcher(ck, tu, fam, fn, nets_seen):
    """the dispatcher is interpreted for every size 0..16 (end = begin + n): whatever its control structure, the
    compare-exchanges it reaches must sort exactly slots 0..n-1"""
    ns = NS + fam
    interp = NetInterp(tu, ns)
    p = fn.params
    for n in range(0, 17):
        label = "case=%d" % n
        env = {p[0]["did"]: ("it", 0), p[1]["did"]: ("it", n)}
        comps = []
        interp.defaulted = False
        r = interp.run_stmt(fn.body, env, fn, comps)
        if r == "noreturn":
            ck.violation("DISPATCH-SIZE", fn.qname, label, "size %d reaches a no-return call" % n, fn.loc)
            continue
        if interp.defaulted and not comps and n >= 2:
            ck.violation("DISPATCH-SIZE", fn.qname, label, "no case for size %d (falls to default)" % n, fn.loc)
            continue
        check_network(ck, "DISPATCH-SIZE", fn, label, n, comps)
    nets_seen.update(interp.fn_visited)


def check_cswap(ck, tu):
    """the compare-exchange functor is evaluated on two labelled elements L, R for the three consistent outcomes of
    (cmp(L,R), cmp(R,L)): the slots must afterwards hold a permutation of {L, R} with not cmp(right, left).  Understood:
    if / ?: on comparator calls, std::swap, locals, assignments, std::min / std::max with the functor's comparator"""
    fns = tu.some(qname=NS + "CS_IfSwap::operator()")
    for fn in fns:
        l, r = fn.params[0]["did"], fn.params[1]["did"]
        bad = None
        for v in ({("L", "R"): True, ("R", "L"): False}, {("L", "R"): False, ("R", "L"): True}, {("L", "R"): False, ("R", "L"): False}):
            env = {l: "L", r: "R"}

            def cmp(a, b, v=v):
                return False if a == b else v[(a, b)]

            def ev(e):
                e = strip_casts(e)
                d = ir.ref_of(e)
                if d is not None:
                    if d not in env:
                        raise dtable.Undecidable("%s: unbound variable in the compare-exchange functor" % fn.nloc(e))
                    return env[d]
                if e["k"] == "ParenExpr":
                    return ev(kids(e)[0])
                if e["k"] == "ConditionalOperator":
                    c, a, b = kids(e)
                    return ev(a) if truth(c) else ev(b)
                if "callee" in e and e["callee"]["name"] in ("min", "max") and len(kids(e)) in (2, 3):
                    if len(kids(e)) == 2 or not ir.is_this_member(strip_casts(kids(e)[2])):
                        raise Misuse("std::%s is called without the functor's comparator" % e["callee"]["name"], e)
                    a, b = ev(kids(e)[0]), ev(kids(e)[1])
                    if e["callee"]["name"] == "min":
                        return b if cmp(b, a) else a
                    return b if cmp(a, b) else a
                if "callee" in e and e["callee"]["name"] == "move" and len(kids(e)) == 1:
                    return ev(kids(e)[0])
                if e["k"] in ("CXXConstructExpr",) and len(kids(e)) == 1:
                    return ev(kids(e)[0])
                raise dtable.Undecidable("%s: expression not understood in the compare-exchange functor: %s" % (fn.nloc(e), dtable.describe(e)))

            def truth(c):
                c = strip_casts(c)
                if c["k"] == "ParenExpr":
                    return truth(kids(c)[0])
                if c["k"] == "UnaryOperator" and c.get("op") == "!":
                    return not truth(kids(c)[0])
                if c["k"] == "BinaryOperator" and c.get("op") in ("&&", "||"):
                    a = truth(kids(c)[0])
                    if c["op"] == "&&":
                        return a and truth(kids(c)[1])
                    return a or truth(kids(c)[1])
                if "callee" in c and c.get("op") == "()" and len(kids(c)) == 3 and ir.is_this_member(strip_casts(kids(c)[0])):
                    return cmp(ev(kids(c)[1]), ev(kids(c)[2]))
                raise dtable.Undecidable("%s: condition not understood in the compare-exchange functor: %s" % (fn.nloc(c), dtable.describe(c)))

            def stmt(s_):
                if s_ is None:
                    return
                k = s_["k"]
                if k == "CompoundStmt":
                    for c in kids(s_):
                        stmt(c)
                elif k == "IfStmt":
                    c, t, e = kids(s_)
                    stmt(t if truth(c) else e)
                elif k == "DeclStmt":
                    for d in kids(s_):
                        if kids(d) and kids(d)[0] is not None:
                            env[d["did"]] = ev(kids(d)[0])
                elif k == "ReturnStmt":
                    raise _Ret()
                elif k == "NullStmt":
                    pass
                else:
                    e = strip_casts(s_)
                    if "callee" in e and e["callee"]["name"] in ("swap", "iter_swap") and len(kids(e)) == 2:
                        a, b = ir.ref_of(kids(e)[0]), ir.ref_of(kids(e)[1])
                        if a is None or b is None:
                            raise dtable.Undecidable("%s: swap of something else than two variables" % fn.nloc(e))
                        env[a], env[b] = env[b], env[a]
                        return
                    b = match.binop(e, ("=",))
                    if b and ir.ref_of(b[1]) is not None:
                        env[ir.ref_of(b[1])] = ev(b[2])
                        return
                    raise dtable.Undecidable("%s: statement not understood in the compare-exchange functor: %s" % (fn.nloc(e), dtable.describe(e)))
            try:
                try:
                    stmt(fn.body)
                except _Ret:
                    pass
            except Misuse as m:
                bad = (v, str(m))
                break
            left, right = env[l], env[r]
            if sorted((left, right)) != ["L", "R"]:
                bad = (v, "both slots hold element %s afterwards: one of two elements that compare %s is lost and the other duplicated (the output is "
                          "no longer a permutation of the input)" % (left, "equivalent" if not v[("L", "R")] and not v[("R", "L")] else "unequal"))
                break
            if cmp(right, left):
                bad = (v, "afterwards right < left still holds: the pair is not put in order")
                break
        if bad:
            v, msg = bad
            ck.violation("CSWAP-TABLE", fn.qname, "row:cmp(L,R)=%s,cmp(R,L)=%s" % (v[("L", "R")], v[("R", "L")]),
                         "with cmp(left,right)=%s and cmp(right,left)=%s: %s" % (v[("L", "R")], v[("R", "L")], msg), fn.loc)
        else:
            ck.ok("CSWAP-TABLE", fn.full, "3 consistent outcomes of (cmp(l,r), cmp(r,l)): the slots hold a permutation of the two elements, in order")


class _Ret(Exception):
    pass


class Misuse(Exception):
    def __init__(self, msg, node):
        Exception.__init__(self, msg)
        self.node = node




def run(ck):
    ck.level = "proof"
    ck.explanation = (
        "For each network family and n=2..16 the compare-exchange sequence is extracted from the "
        "instantiated AST by abstract interpretation of slot indices (iterator offsets / reference "
        "parameters) through the call tree; the zero-one principle is then decided over all 2^n "
        "inputs bit-parallel. The size dispatchers are interpreted case by case (0..16) and each case "
        "must reach a network that sorts exactly slots 0..n-1. CS_IfSwap's decision table is decided "
        "over the weak-order-consistent valuations of cmp(l,r), cmp(r,l). Any construct other than a "
        "compare-exchange or a call of another network function makes the check stop as undecidable.")
    defs = ["WITNESS_THOROUGH"] if ck.tier == "thorough" else []
    tu = ir.extract("witness/C15_networks.cpp", defines=defs)
    per_inst = {}
    for fam in FAMILIES:
        ns = NS + fam
        disp = tu.some(qname=ns + "::sort")
        seen = set()
        for fn in disp:
            check_dispatcher(ck, tu, fam, fn, seen)
        direct = [f for f in tu.functions if f.qname.startswith(ns + "::") and re.fullmatch(r"sort(\d+)", f.name)]
        sizes = set()
        for fn in direct:
            n = int(fn.name[4:])
            sizes.add(n)
            interp = NetInterp(tu, ns)
            comps = []
            its = [p for p in fn.params[:-1]]
            if len(its) == 1 and n != 1:
                args = [("it", 0)]
            else:
                args = [("slot", i) for i in range(len(its))]
                if len(its) != n:
                    ck.violation("NET-SORTS", fn.qname, "arity", "sort%d takes %d element references" % (n, len(its)), fn.loc)
                    continue
            args.append(("cswap",))
            interp.call(fn, args, comps, fn.loc)
            seen.update(interp.fn_visited)
            check_network(ck, "NET-SORTS", fn, "n=%d" % n, n, comps)
            per_inst.setdefault((fam, n), []).append((fn.full, [(a, b) for a, b, _ in comps]))
        missing = [n for n in range(2, 17) if n not in sizes]
        ck.require(not missing, "family %s: sort%s not instantiated by the witness" % (fam, missing))
        for q in sorted(seen):
            ck.ok("NET-OBLIVIOUS", q, "body consists of compare-exchanges and network calls only", nontrivial=False)
    if ck.tier == "thorough":
        for (fam, n), lst in sorted(per_inst.items()):
            ck.require(len(lst) >= 2, "thorough: second instantiation of %s::sort%d missing" % (fam, n))
            same = all(c == lst[0][1] for _, c in lst)
            if not same:
                raise ir.AnalysisBroken("network %s::sort%d differs between instantiations" % (fam, n))
            ck.ok("NET-INST-INDEPENDENT", "%s::sort%d" % (fam, n), "%d instantiations give the identical network" % len(lst), nontrivial=False)
    check_cswap(ck, tu)
    ck.floor("NET-SORTS", 45)
    ck.floor("DISPATCH-SIZE", 51)
    ck.floor("CSWAP-TABLE", 1)
