"""C14 — digests and SipHash: chunking/padding skeleton (linear conservation), finalize
thresholds and byte order, constant tables vs their defining formulas, boolean /
rotation functions, hex front ends, SipHash tail tables."""
import decimal
import math

from engine import ir, dtable, match, skel, cfg as cfgm
from engine.ir import kids, strip_casts, const_int, ref_of
from rules.c15 import flatten_switch

DIGESTS = {
    "MD5": dict(file="tlx/digest/md5.cpp", block=64, L=8, endian="little", words=4, wbytes=4, pfx="md5"),
    "SHA1": dict(file="tlx/digest/sha1.cpp", block=64, L=8, endian="big", words=5, wbytes=4, pfx="sha1"),
    "SHA256": dict(file="tlx/digest/sha256.cpp", block=64, L=8, endian="big", words=8, wbytes=4, pfx="sha256"),
    "SHA512": dict(file="tlx/digest/sha512.cpp", block=128, L=16, endian="big", words=8, wbytes=8, pfx="sha512"),
}


# ---------------------------------------------------------------- linear forms
def lin(e, env):
    """linear form {sym: coef, 1: const}; env: decl id / field name -> linear form"""
    e = strip_casts(e)
    c = const_int(e)
    if c is not None and e["k"] in ("IntegerLiteral", "UnaryExprOrTypeTraitExpr"):
        return {1: c} if c else {}
    if e["k"] == "DeclRefExpr":
        did = e["ref"]["id"]
        if did in env:
            return dict(env[did])
        if c is not None:
            return {1: c}
        return {("v", did, e["ref"]["name"]): 1}
    f = match.this_field(e)
    if f:
        return dict(env.get(f, {("f", f): 1}))
    sh = match.binop(e, ("<<",))
    if sh and e["k"] == "BinaryOperator" and const_int(sh[2]) is not None:
        l = lin(sh[1], env)
        return None if l is None else {s_: v << const_int(sh[2]) for s_, v in l.items()}
    b = match.binop(e, ("+", "-", "*"))
    if b and e["k"] == "BinaryOperator":
        l, r = lin(b[1], env), lin(b[2], env)
        if l is None or r is None:
            return None
        if b[0] == "*":
            if set(l) <= {1}:
                k = l.get(1, 0)
                return {s: k * v for s, v in r.items() if k * v}
            if set(r) <= {1}:
                k = r.get(1, 0)
                return {s: k * v for s, v in l.items() if k * v}
            return None
        out = dict(l)
        for s, v in r.items():
            out[s] = out.get(s, 0) + (v if b[0] == "+" else -v)
        return {s: v for s, v in out.items() if v}
    return None


def ladd(a, b, k=1):
    out = dict(a)
    for s, v in b.items():
        out[s] = out.get(s, 0) + k * v
    return {s: v for s, v in out.items() if v}


def multiple_of(delta, eq):
    """delta == k * eq for some rational k (or delta == 0)"""
    if not delta:
        return True
    if not eq:
        return False
    s0 = next(iter(eq))
    if s0 not in delta:
        return False
    from fractions import Fraction
    k = Fraction(delta[s0], eq[s0])
    return all(Fraction(delta.get(s, 0)) == k * eq.get(s, 0) for s in set(delta) | set(eq))


IN_BASE, STATE_BASE, OUT_BASE = 100000, 50000, 200000


class DigestModel:
    """process()/finalize() of one digest evaluated on a model: sizes and positions are small concrete integers, the
    bytes are labels (("B", i): byte i of the buffer before the call, ("I", i): byte i of the input, ("S", w): state word w).
    The compress calls are observed, not executed: each consumes the block it is given."""

    def __init__(self, tu, fn, info, curlen0, size0=0, length0=0):
        self.tu, self.fn, self.info = tu, fn, info
        self.B = info["block"]
        self.size0 = size0
        self.blocks = []         # [(kind, [labels])]
        self.events = []
        self.sk = None
        self.curlen0, self.length0 = curlen0, length0

    def mem_default(self, a):
        if 0 <= a < self.B:
            return ("B", a)
        if IN_BASE <= a < IN_BASE + self.size0:
            return ("I", a - IN_BASE)
        if STATE_BASE <= a < STATE_BASE + self.info["words"]:
            return ("S", a - STATE_BASE)
        return ("OOB", a)

    def event(self, e, sk):
        if "callee" not in e:
            return NotImplemented
        nm = e["callee"]["name"]
        args = [a for a in kids(e) if a is not None and a["k"] != "DefaultArg"]
        if nm.endswith("_compress") and len(args) == 2:
            p = sk.ev(args[1])
            if not isinstance(p, int):
                raise dtable.Undecidable("%s: block handed to %s not understood" % (self.fn.loc, nm))
            self.blocks.append(("direct" if p >= IN_BASE else "buffer", [sk.load(("mem", p + i)) for i in range(self.B)], p))
            self.events.append(("compress", len(self.blocks)))
            return None
        if nm in ("copy", "copy_n", "memcpy", "fill", "fill_n", "memset") and len(args) == 3:
            v = [sk.ev(a) for a in args]
            if nm == "copy":
                first, last, dst = v
                n, src, val = (last - first if isinstance(first, int) and isinstance(last, int) else None), first, None
            elif nm == "copy_n":
                src, n, dst = v
                val = None
            elif nm == "memcpy":
                dst, src, n = v
                val = None
            elif nm == "fill":
                dst, last, val = v
                n, src = (last - dst if isinstance(dst, int) and isinstance(last, int) else None), None
            elif nm == "fill_n":
                dst, n, val = v
                src = None
            else:
                dst, val, n = v
                src = None
            if not isinstance(n, int) or not isinstance(dst, int) or n < 0 or n > 4 * self.B or (src is None and val is None):
                raise dtable.Undecidable("%s: %s() with arguments that are not understood" % (self.fn.loc, nm))
            vals = [sk.load(("mem", src + i)) for i in range(n)] if src is not None else [val] * n
            for i in range(n):
                sk.store(("mem", dst + i), vals[i])
            return dst + n
        if nm.startswith("store") and len(args) == 2 and self.tu.by_did.get(e["callee"]["did"]) is not None:
            so = store_order(self.tu, e)
            val, dst = sk.ev(args[0]), sk.ev(args[1])
            if so is None or so[0] == "mixed" or not isinstance(dst, int):
                raise dtable.Undecidable("%s: %s() not understood" % (self.fn.loc, nm))
            order, n = so
            for j in range(n):
                k = (n - 1 - j) if order == "big" else j          # significance of the byte written at dst + j
                if isinstance(val, int):
                    byte = (val >> (8 * k)) & 255
                else:
                    byte = ("byte", val, k)
                sk.store(("mem", dst + j), byte)
            self.events.append(("store", dst, n))
            return None
        return NotImplemented

    def run(self, params):
        env = {("field", "curlen_"): self.curlen0, ("field", "length_"): self.length0, ("field", "buf_"): 0, ("field", "state_"): STATE_BASE}
        env.update(params)
        self.sk = skel.Skel(self.fn, env, None, self.event, mem_default=self.mem_default, max_iter=8 * self.B)
        self.diverged = None
        try:
            self.sk.run(kids(self.fn.body))
        except skel.Return:
            pass
        except skel.Diverges as d:
            self.diverged = d.loop
        except skel.TooLong as d:
            # 8 * block rounds for at most 3 * block bytes: a loop that consumes a byte per round (or per two) has long ended
            self.diverged = d.loop
        return self.sk


def check_process(ck, tu, name, info):
    """PROCESS-STREAM / PROCESS-CONSERVE: for buffer fills {0, 1, B/2, B-1} and input sizes {0, 1, B-1, B, B+1, 2B, 2B+5, 3B-1}
    the blocks handed to the compression function are, in order, the bytes buffered before followed by the input, cut
    into blocks; what is left is in buf_[0, curlen_); length_ grows by 8 * block per compressed block; nothing is written
    outside buf_."""
    fn = [f for f in tu.find(qname="tlx::%s::process" % name) if len(f.params) == 2][0]
    B = info["block"]
    bad = None
    ncases = 0
    for curlen0 in (0, 1, B // 2, B - 1):
        for size0 in (0, 1, B - 1, B, B + 1, 2 * B, 2 * B + 5, 3 * B - 1):
            m = DigestModel(tu, fn, info, curlen0, size0, length0=8 * B * 7)
            sk = m.run({fn.params[0]["did"]: IN_BASE, fn.params[1]["did"]: size0})
            ncases += 1
            want = [("B", i) for i in range(curlen0)] + [("I", i) for i in range(size0)]
            k = len(want) // B
            got = [x for _, blk, _ in m.blocks for x in blk]
            cur = sk.env.get(("field", "curlen_"))
            ln = sk.env.get(("field", "length_"))
            oob = [key[1] for key in sk.env if isinstance(key, tuple) and key[0] == "mem" and not (0 <= key[1] < B)]
            where = "buffer fill %d, input of %d bytes" % (curlen0, size0)
            if m.diverged is not None and bad is None:
                bad = ("PROCESS-STREAM", "for %s the chunk loop at line %s does not end (same state again, or more than 8 x block rounds): process() does not return"
                       % (where, m.diverged.get("l")))
            elif oob and bad is None:
                bad = ("PROCESS-STREAM", "write outside buf_ (offset %d) for %s" % (min(oob), where))
            elif got != want[:k * B] and bad is None:
                i = next((j for j in range(min(len(got), k * B)) if got[j] != want[j]), min(len(got), k * B))
                bad = ("PROCESS-STREAM", "for %s the compression function receives %d blocks; byte %d of that stream is %s, it must be %s "
                       "(buffered bytes first, then the input, in order, whole blocks only)"
                       % (where, len(m.blocks), i, lab(got[i]) if i < len(got) else "missing", lab(want[i]) if i < k * B else "nothing"))
            elif cur != len(want) - k * B and bad is None:
                bad = ("PROCESS-STREAM", "for %s curlen_ is %s afterwards, %d bytes remain unhashed" % (where, cur, len(want) - k * B))
            elif [sk.load(("mem", i)) for i in range(len(want) - k * B)] != want[k * B:] and bad is None:
                bad = ("PROCESS-STREAM", "for %s the bytes left in buf_ are not the unhashed tail of the input" % where)
            elif ln != 8 * B * 7 + 8 * B * k and bad is None:
                bad = ("PROCESS-CONSERVE", "for %s length_ grows by %s bits, %d blocks of %d bytes were hashed: the length hashed into the padding is wrong"
                       % (where, (ln - 8 * B * 7) if isinstance(ln, int) else "?", k, B))
    if bad:
        ck.violation(bad[0], fn.qname, name + ":process", bad[1], fn.loc)
    else:
        ck.ok("PROCESS-STREAM", name + "::process", "%d (fill, size) cases: compressed blocks == (buffered ++ input) cut into blocks, rest in buf_[0, curlen_)" % ncases,
              sample=dict(rule="PROCESS-STREAM", digest=name, cases=ncases))
        ck.ok("PROCESS-CONSERVE", name + "::process", "length_ grows by 8 * %d per compressed block in all %d cases" % (B, ncases))


def lab(x):
    if isinstance(x, tuple):
        return {"B": "buffered byte %s", "I": "input byte %s", "OOB": "memory outside buffer and input (%s)"}.get(x[0], str(x[0]) + " %s") % (x[1],)
    return repr(x)


def fmt_lin(l):
    if not l:
        return "0"
    parts = []
    for s, v in sorted(l.items(), key=lambda kv: str(kv[0])):
        nm = "1" if s == 1 else s[-1] if s[0] in ("v",) else s[1] if s[0] == "f" else {"B": "block_size", "n": "n"}.get(s[0], str(s))
        parts.append(("%+d" % v) if s == 1 else "%+d*%s" % (v, nm))
    return " ".join(parts)


def store_order(tu, call):
    """('big'|'little', width) of a storeNN helper by evaluating its shift schedule"""
    fn = tu.by_did.get(call["callee"]["did"])
    if fn is None:
        return None
    loop = [x for x in fn.nodes() if x["k"] == "ForStmt"]
    if not loop:
        return None
    init, cond, inc, body = match.loop_parts(loop[0])
    var = [y["did"] for y in ir.walk(init) if y["k"] == "VarDecl"][0]
    n = const_int(match.binop(cond, ("!=", "<"))[2])
    shifts = []
    for i in range(n):
        for y in ir.walk(body):
            b = match.binop(y, (">>",))
            if b and strip_casts(y)["k"] == "BinaryOperator":
                from rules.c13 import eval_arith
                shifts.append(eval_arith(b[2], {var: i}))
                break
    if shifts == [8 * (n - 1 - i) for i in range(n)]:
        return "big", n
    if shifts == [8 * i for i in range(n)]:
        return "little", n
    return "mixed", n


def check_finalize(ck, tu, name, info):
    """FINAL-THRESHOLDS: finalize() evaluated for every buffer fill 0 .. B-1: the blocks compressed are exactly
    buffered bytes ++ 0x80 ++ zeros ++ bit length (L bytes, the digest's byte order), one block if it fits and two otherwise;
    the digest is the state words in the digest's byte order, written after the last compression."""
    fn = tu.one(qname="tlx::%s::finalize" % name)
    B, L = info["block"], info["L"]
    bad = None
    LEN0 = 8 * B * 5
    for curlen0 in range(B):
        m = DigestModel(tu, fn, info, curlen0, 0, length0=LEN0)
        sk = m.run({fn.params[0]["did"]: OUT_BASE})
        bits = LEN0 + 8 * curlen0
        lenbytes = [(bits >> (8 * (L - 1 - j))) & 255 for j in range(L)]
        if info["endian"] == "little":
            lenbytes = lenbytes[::-1]
        nblk = 1 if curlen0 + 1 + L <= B else 2
        want = [("B", i) for i in range(curlen0)] + [0x80]
        want += [0] * (nblk * B - L - len(want)) + lenbytes
        got = [x for _, blk, _ in m.blocks for x in blk]
        where = "%d buffered bytes" % curlen0
        if m.diverged is not None:
            bad = bad or ("hang", "with %s a loop of finalize() does not end (same state again, or more than 8 x block rounds)" % where)
            continue
        oob = [key[1] for key in sk.env if isinstance(key, tuple) and key[0] == "mem" and not (0 <= key[1] < B or OUT_BASE <= key[1] < OUT_BASE + info["words"] * info["wbytes"])]
        if oob:
            bad = bad or ("overflow", "with %s finalize writes outside buf_ / the digest (offset %d)" % (where, min(oob)))
            continue
        if len(m.blocks) != nblk:
            bad = bad or ("threshold", "with %s finalize compresses %d block(s); the 0x80 byte and the %d-byte length field need %d"
                          % (where, len(m.blocks), L, nblk))
            continue
        if got != want:
            i = next(j for j in range(len(want)) if got[j] != want[j])
            what = "padding" if i < nblk * B - L else "length field"
            bad = bad or (what.replace(" ", "-"), "with %s byte %d of the final block(s) is %s, the %s needs %s (length %d bits, %s-endian in the last %d bytes)"
                          % (where, i, lab(got[i]), what, lab(want[i]), bits, info["endian"], L))
            continue
        out = [sk.load(("mem", OUT_BASE + i)) for i in range(info["words"] * info["wbytes"])]
        wb = info["wbytes"]
        wout = [("byte", ("S", w), (wb - 1 - j) if info["endian"] == "big" else j) for w in range(info["words"]) for j in range(wb)]
        if out != wout:
            i = next(j for j in range(len(wout)) if out[j] != wout[j])
            bad = bad or ("output", "digest byte %d is %s; %s writes %d state words of %d bytes, %s-endian" % (i, lab(out[i]), name, info["words"], wb, info["endian"]))
            continue
        last_compress = max(i for i, ev in enumerate(m.events) if ev[0] == "compress")
        if any(ev[0] == "store" and ev[1] >= OUT_BASE and i < last_compress for i, ev in enumerate(m.events)):
            bad = bad or ("output-early", "the digest is written before the last block was compressed")
    if bad:
        ck.violation("FINAL-THRESHOLDS", fn.qname, name + ":" + bad[0], bad[1], fn.loc)
    else:
        ck.ok("FINAL-THRESHOLDS", name + "::finalize", "all %d buffer fills: blocks == buffered ++ 0x80 ++ zeros ++ %d-byte %s-endian bit length (extra block iff fill > %d); "
              "digest == %d state words of %d bytes, %s-endian, after the last compression" % (B, L, info["endian"], B - L - 1, info["words"], info["wbytes"], info["endian"]))


def check_frontends(ck, tu, name, info):
    pfx = info["pfx"]
    for meth, want in (("digest_hex", "hexdump_lc"), ("digest_hex_uc", "hexdump")):
        fn = tu.one(qname="tlx::%s::%s" % (name, meth))
        calls = [x["callee"]["name"] for x in fn.nodes() if "callee" in x and x["callee"]["name"].startswith("hexdump")]
        fin = [x for x in fn.nodes() if "callee" in x and x["callee"]["name"] == "finalize"]
        if calls == [want] and len(fin) == 1:
            ck.ok("HEX-FRONTENDS", "%s::%s" % (name, meth), "finalize then " + want, nontrivial=False)
        else:
            ck.violation("HEX-FRONTENDS", fn.qname, "%s:%s" % (name, meth), "%s must finalize once and print with %s (uses %s)" % (meth, want, calls), fn.loc)
    for free, meth in ((pfx + "_hex", "digest_hex"), (pfx + "_hex_uc", "digest_hex_uc")):
        for fn in tu.find(qname="tlx::" + free):
            ms = [x["callee"]["name"] for x in fn.nodes() if "callee" in x and x.get("member_call") and x["callee"]["name"].startswith("digest")]
            ctor = [x for x in fn.nodes() if x["k"] in ("CXXTemporaryObjectExpr", "CXXConstructExpr", "CXXFunctionalCastExpr") and "callee" in x and x["callee"].get("record") == "tlx::" + name]
            okargs = bool(ctor) and [ref_of(a) for a in kids(ctor[0])] == [p["did"] for p in fn.params]
            if ms == [meth] and okargs:
                ck.ok("HEX-FRONTENDS", "%s/%d" % (free, len(fn.params)), "%s(args...).%s()" % (name, meth), nontrivial=False)
            else:
                ck.violation("HEX-FRONTENDS", fn.qname, "%s/%d" % (free, len(fn.params)), "%s must hash its arguments and return %s()" % (free, meth), fn.loc)


# ---------------------------------------------------------------- constants
def primes(n):
    out, c = [], 2
    while len(out) < n:
        if all(c % p for p in out if p * p <= c):
            out.append(c)
        c += 1
    return out


def iroot(x, k):
    lo, hi = 0, 1
    while hi ** k <= x:
        hi *= 2
    while lo < hi:
        mid = (lo + hi + 1) // 2
        if mid ** k <= x:
            lo = mid
        else:
            hi = mid - 1
    return lo


def frac_root_bits(p, k, bits):
    """first `bits` bits of the fractional part of the k-th root of p"""
    r = iroot(p << (k * bits), k)
    return r & ((1 << bits) - 1)


def md5_k():
    decimal.getcontext().prec = 60
    out = []
    two32 = decimal.Decimal(2) ** 32
    for i in range(64):
        x = decimal.Decimal(i + 1)
        # sin by Taylor series after range reduction
        pi = decimal.Decimal("3.14159265358979323846264338327950288419716939937510582097494459")
        x = x % (2 * pi)
        term, s, n = x, x, 1
        while abs(term) > decimal.Decimal(10) ** -50:
            term = -term * x * x / ((2 * n) * (2 * n + 1))
            s += term
            n += 1
        out.append(int(abs(s) * two32))
    return out


def state_init(tu, name):
    fn = [f for f in tu.find(qname="tlx::%s::%s" % (name, name)) if not f.params][0]
    vals = {}
    for x in fn.nodes():
        b = match.binop(x, ("=",))
        if b:
            p = match.index_parts(b[1])
            if p and match.this_field(p[0]) == "state_":
                vals[const_int(p[1])] = const_int(b[2])
    return [vals.get(i) for i in range(len(vals))]


def table_vals(tu, suffix):
    ts = [t for t in tu.tables if t["qname"].endswith(suffix)]
    if not ts:
        raise ir.AnalysisBroken("constant table %s not found in %s" % (suffix, tu.src))
    return [int(v) for v in ts[0]["values"]]


def check_constants(ck, tus):
    # SHA-256
    k256 = [frac_root_bits(p, 3, 32) for p in primes(64)]
    iv256 = [frac_root_bits(p, 2, 32) for p in primes(8)]
    k512 = [frac_root_bits(p, 3, 64) for p in primes(80)]
    iv512 = [frac_root_bits(p, 2, 64) for p in primes(8)]
    sha1k = [iroot(x << 60, 2) for x in (2, 3, 5, 10)]
    checks = [
        ("SHA256", "K", table_vals(tus["SHA256"], "::K"), k256, "first 32 bits of the fractional parts of the cube roots of the first 64 primes"),
        ("SHA256", "IV", state_init(tus["SHA256"], "SHA256"), iv256, "fractional parts of the square roots of the first 8 primes"),
        ("SHA512", "K", table_vals(tus["SHA512"], "::K"), k512, "first 64 bits of the fractional parts of the cube roots of the first 80 primes"),
        ("SHA512", "IV", state_init(tus["SHA512"], "SHA512"), iv512, "fractional parts of the square roots of the first 8 primes"),
        ("MD5", "K", table_vals(tus["MD5"], "::Korder"), md5_k(), "floor(2^32 * |sin(i + 1)|)"),
        ("MD5", "IV", state_init(tus["MD5"], "MD5"), [0x67452301, 0xefcdab89, 0x98badcfe, 0x10325476], "bytes 01 23 .. ef / fe dc .. 10 little-endian"),
        ("SHA1", "IV", state_init(tus["SHA1"], "SHA1"), [0x67452301, 0xefcdab89, 0x98badcfe, 0x10325476, 0xc3d2e1f0], "FIPS 180 initial hash value"),
    ]
    fn = tus["SHA1"].one(qname="tlx::digest_detail::sha1_compress")
    got1 = []
    for x in fn.nodes():
        c = const_int(x)
        if x["k"] == "IntegerLiteral" and c is not None and c > 0xFFFF:
            if c not in got1:
                got1.append(c)
    checks.append(("SHA1", "K", got1, sha1k, "floor(2^30 * sqrt(2, 3, 5, 10))"))
    for name, what, got, want, how in checks:
        if got == want:
            ck.ok("CONST-TABLES", "%s %s" % (name, what), "%d constants equal %s (recomputed with integer arithmetic)" % (len(want), how))
        else:
            idx = [i for i in range(min(len(got), len(want))) if got[i] != want[i]]
            ck.violation("CONST-TABLES", "tlx::%s" % name, "%s:%s" % (name, what),
                         "%s constant table differs from its definition (%s)%s" % (what, how, (": entry %d is %#x, must be %#x" % (idx[0], got[idx[0]], want[idx[0]])) if idx else ": wrong length %d" % len(got)),
                         DIGESTS[name]["file"])
    # MD5 shift / word schedules
    t = tus["MD5"]
    r = table_vals(t, "::Rorder")
    w = table_vals(t, "::Worder")
    wr = [7, 12, 17, 22] * 4 + [5, 9, 14, 20] * 4 + [4, 11, 16, 23] * 4 + [6, 10, 15, 21] * 4
    ww = [i for i in range(16)] + [(5 * i + 1) % 16 for i in range(16)] + [(3 * i + 5) % 16 for i in range(16)] + [(7 * i) % 16 for i in range(16)]
    for what, got, want in (("rotation schedule", r, wr), ("message word schedule", w, ww)):
        if got == want:
            ck.ok("CONST-TABLES", "MD5 " + what, "64 entries equal RFC 1321")
        else:
            ck.violation("CONST-TABLES", "tlx::MD5", "MD5:" + what.replace(" ", "-"), "MD5 %s differs from RFC 1321" % what, "tlx/digest/md5.cpp")


# ---------------------------------------------------------------- boolean / rotation functions
def word_eval(tu, fn, args, width):
    """evaluate a pure word function (xor/and/or/not/shift/rotate and calls of such functions) on integers"""
    mask = (1 << width) - 1
    env = {p["did"]: a for p, a in zip(fn.params, args)}

    def ev(e):
        e = strip_casts(e)
        c = const_int(e)
        if c is not None and e["k"] == "IntegerLiteral":
            return c
        if e["k"] == "DeclRefExpr" and e["ref"]["id"] in env:
            return env[e["ref"]["id"]]
        if e["k"] == "UnaryOperator" and e["op"] == "~":
            return (~ev(kids(e)[0])) & mask
        b = match.binop(e, ("&", "|", "^", ">>", "<<", "+"))
        if b and e["k"] == "BinaryOperator":
            x, y = ev(b[1]), ev(b[2])
            op = b[0]
            if op == "&":
                return x & y
            if op == "|":
                return x | y
            if op == "^":
                return x ^ y
            if op == "+":
                return (x + y) & mask
            if y < 0 or y >= width:
                raise dtable.Undecidable("%s: shift by %d in a %d-bit word function" % (fn.loc, y, width))
            return (x >> y) if op == ">>" else (x << y) & mask
        if "callee" in e:
            nm = e["callee"]["name"]
            a = [ev(x) for x in kids(e)]
            if nm in ("ror32", "ror64"):
                w = 32 if nm == "ror32" else 64
                k = a[1] % w
                return ((a[0] >> k) | (a[0] << (w - k))) & ((1 << w) - 1)
            if nm in ("rol32", "rol64"):
                w = 32 if nm == "rol32" else 64
                k = a[1] % w
                return ((a[0] << k) | (a[0] >> (w - k))) & ((1 << w) - 1)
            callee = tu.by_did.get(e["callee"]["did"])
            if callee is not None:
                return word_eval(tu, callee, a, width)
        raise dtable.Undecidable("%s: not a pure word expression: %s" % (fn.loc, dtable.describe(e)))
    rets = [x for x in fn.nodes() if x["k"] == "ReturnStmt"]
    return ev(kids(rets[0])[0]) & mask


def rot(x, k, w):
    return ((x >> k) | (x << (w - k))) & ((1 << w) - 1)


BOOL3 = {
    "Ch": lambda x, y, z: (x & y) | (~x & z), "Maj": lambda x, y, z: (x & y) | (x & z) | (y & z),
    "F": lambda x, y, z: (x & y) | (~x & z), "G": lambda x, y, z: (x & z) | (y & ~z), "H": lambda x, y, z: x ^ y ^ z, "I": lambda x, y, z: y ^ (x | ~z),
    "F0": lambda x, y, z: (x & y) | (~x & z), "F1": lambda x, y, z: x ^ y ^ z, "F2": lambda x, y, z: (x & y) | (x & z) | (y & z), "F3": lambda x, y, z: x ^ y ^ z,
}
LIN = {
    ("SHA256", "Sigma0"): ((2, 13, 22), None), ("SHA256", "Sigma1"): ((6, 11, 25), None), ("SHA256", "Gamma0"): ((7, 18), 3), ("SHA256", "Gamma1"): ((17, 19), 10),
    ("SHA512", "Sigma0"): ((28, 34, 39), None), ("SHA512", "Sigma1"): ((14, 18, 41), None), ("SHA512", "Gamma0"): ((1, 8), 7), ("SHA512", "Gamma1"): ((19, 61), 6),
}


def check_functions(ck, tus):
    for name, tu in tus.items():
        w = 64 if name == "SHA512" else 32
        fam = {"MD5": ("F", "G", "H", "I"), "SHA1": ("F0", "F1", "F2", "F3"), "SHA256": ("Ch", "Maj"), "SHA512": ("Ch", "Maj")}[name]
        for fnm in fam:
            fns = [f for f in tu.functions if f.name == fnm and len(f.params) == 3 and f.record is None]
            ck.require(len(fns) == 1, "%s: boolean function %s not found" % (name, fnm))
            bad = None
            for bits in range(8):
                x, y, z = [(-(bits >> i & 1)) & ((1 << w) - 1) for i in (2, 1, 0)]
                got = word_eval(tu, fns[0], [x, y, z], w)
                want = BOOL3[fnm](x, y, z) & ((1 << w) - 1)
                if got != want:
                    bad = (bits >> 2 & 1, bits >> 1 & 1, bits & 1)
            if bad:
                ck.violation("BOOLFN-TABLES", fns[0].qname, "%s:%s" % (name, fnm), "%s %s(x,y,z) has the wrong truth table (row x,y,z = %s)" % (name, fnm, bad), fns[0].loc)
            else:
                ck.ok("BOOLFN-TABLES", "%s %s" % (name, fnm), "8-row truth table equals the standard's definition (bitwise function, all bits alike)")
        for (dg, fnm), (rots, sh) in LIN.items():
            if dg != name:
                continue
            fns = [f for f in tu.functions if f.name == fnm and len(f.params) == 1 and f.record is None]
            ck.require(len(fns) == 1, "%s: %s not found" % (name, fnm))
            bad = None
            for j in range(w):
                x = 1 << j
                got = word_eval(tu, fns[0], [x], w)
                want = 0
                for r_ in rots:
                    want ^= rot(x, r_, w)
                if sh is not None:
                    want ^= x >> sh
                if got != want:
                    bad = j
            zero = word_eval(tu, fns[0], [0], w)
            if bad is not None or zero != 0:
                ck.violation("ROT-SETS", fns[0].qname, "%s:%s" % (name, fnm), "%s %s is not ROTR%s%s (differs on input bit %s)" % (name, fnm, list(rots), " ^ SHR%d" % sh if sh else "", bad), fns[0].loc)
            else:
                ck.ok("ROT-SETS", "%s %s" % (name, fnm), "GF(2)-linear and equal to ROTR%s%s on all %d basis inputs" % (list(rots), " ^ SHR%d" % sh if sh else "", w))


# ---------------------------------------------------------------- siphash
def bits_alg(op, a, b, e):
    """values assembled from labelled bytes: ("bits", constant part, frozenset of (shift, label))"""
    def norm(x):
        if isinstance(x, bool):
            return ("bits", int(x), frozenset())
        if isinstance(x, int):
            return ("bits", x, frozenset())
        if isinstance(x, tuple) and x and x[0] == "bits":
            return x
        if isinstance(x, tuple):
            return ("bits", 0, frozenset([(0, x)]))
        return None
    if op == "<<" and isinstance(b, int) and 0 <= b < 64:
        x = norm(a)
        if x is None:
            return None
        return ("bits", (x[1] << b) & (2 ** 64 - 1), frozenset((sh + b, l) for sh, l in x[2] if sh + b < 64))
    if op == "|":
        x, y = norm(a), norm(b)
        if x is None or y is None:
            return None
        if {sh for sh, _ in x[2]} & {sh for sh, _ in y[2]}:
            return None
        return ("bits", x[1] | y[1], x[2] | y[2])
    return None


def check_siphash(ck):
    """SIP-TAIL: for every message length 0..16 the final word is (len & 0xff) << 56 OR byte j of the tail << 8j (evaluated
    on the function's integer skeleton with labelled message bytes, whatever the control structure); every shift of a
    message byte is done in a 64-bit unsigned type."""
    tu = ir.extract("witness/C14_siphash.cpp")
    M_BASE = 1000
    for name in ("siphash_plain", "siphash_sse2"):
        fn = tu.one(qname="tlx::" + name)
        m, length = fn.params[1]["did"], fn.params[2]["did"]
        bad = []
        finals = {}
        for n in range(0, 17):
            sk = skel.Skel(fn, {m: M_BASE, length: n, fn.params[0]["did"]: 5000}, None, None,
                           mem_default=lambda a_, n=n: ("M", a_ - M_BASE) if M_BASE <= a_ < M_BASE + n else (("OOB", a_ - M_BASE) if 0 <= a_ - M_BASE < 64 else None),
                           max_iter=64)
            sk.alg = bits_alg
            try:
                sk.run(kids(fn.body))
            except skel.Return:
                pass
            finals[n] = sk.env
        locals_ = [v for v in fn.nodes() if v["k"] == "VarDecl" and v.get("did") is not None and v["did"] not in (m, length)]

        def hi(v):
            return (v[1] if isinstance(v, tuple) and v and v[0] == "bits" else v if isinstance(v, int) and not isinstance(v, bool) else -1) >> 56
        cand = [v for v in locals_ if all(hi(finals[n].get(v["did"])) == (n & 255) for n in range(1, 17))]
        ck.require(len(cand) == 1, "%s: the final word (length byte << 56) not found among the locals" % fn.loc)
        last = cand[0]
        for n in range(0, 17):
            blocks = n & ~7
            want = ("bits", (n & 255) << 56, frozenset((8 * j, ("M", blocks + j)) for j in range(n - blocks)))
            got = finals[n].get(last["did"])
            if isinstance(got, int):
                got = ("bits", got, frozenset())
            if got != want:
                def show(v):
                    if not (isinstance(v, tuple) and v and v[0] == "bits"):
                        return "not a combination of message bytes"
                    return "length byte %#x, " % (v[1] >> 56) + ("bytes " + ", ".join("m[%s] << %d" % (l[1], sh) for sh, l in sorted(v[2])) if v[2] else "no bytes")
                bad.append(("tail%d" % (n & 7), "for a message of %d bytes the final word is {%s}; SipHash needs {%s}" % (n, show(got), show(want)), last))
                break
        for y in fn.nodes():
            if y["k"] == "BinaryOperator" and y.get("op") == "<<":
                lhs = kids(y)[0]
                from_bytes = any((z["k"] == "ArraySubscriptExpr" and "char" in (strip_casts(kids(z)[0]).get("ty") or "")) or
                                 (z["k"] == "DeclRefExpr" and z["ref"]["id"] == length) for z in ir.walk(lhs))
                if from_bytes and y.get("ty") not in ("unsigned long", "unsigned long long"):
                    bad.append(("shift-width", "a message byte / the length is shifted in type `%s`: the shift is done in (signed) int, bytes >= 0x80 sign-extend "
                                "into the upper half (or bits are lost)" % y.get("ty"), y))
        for sig, msg, node in bad[:4]:
            ck.violation("SIP-TAIL", fn.qname, "%s:%s" % (name, sig), msg, fn.nloc(node))
        if not bad:
            ck.ok("SIP-TAIL", name, "lengths 0..16: final word == (len & 0xff) << 56 | tail byte j << 8j; byte shifts in 64-bit unsigned arithmetic")
    check_simd_alignment(ck, tu)


ALIGNED_SIMD = {"_mm_load_si128": 16, "_mm_store_si128": 16, "_mm_load_pd": 16, "_mm_load_ps": 16, "_mm_store_pd": 16, "_mm_store_ps": 16,
                "_mm_stream_si128": 16, "_mm256_load_si256": 32, "_mm256_store_si256": 32}


def check_simd_alignment(ck, tu):
    """key and message are plain byte pointers of unknown alignment: an aligned vector load/store through a
    pointer derived from a parameter faults for a caller whose buffer is not 16-byte aligned"""
    n = 0
    for fn in tu.functions:
        if fn.body is None or not fn.qname.startswith("tlx::siphash"):
            continue
        pids = {p["did"] for p in fn.params if "*" in (p.get("ty") or "")}
        # locals that alias a parameter pointer
        changed = True
        while changed:
            changed = False
            for v in fn.nodes():
                if v["k"] == "VarDecl" and v.get("did") not in pids and "*" in (v.get("ty") or "") and kids(v) and \
                        any(x["k"] == "DeclRefExpr" and x["ref"]["id"] in pids for x in ir.walk(kids(v)[0])):
                    pids.add(v["did"])
                    changed = True
        for z in fn.nodes():
            if "callee" not in z:
                continue
            nm = z["callee"]["name"]
            if not (nm.startswith("_mm") and ("load" in nm or "store" in nm or "stream" in nm)):
                continue
            n += 1
            addr = kids(z)[0] if kids(z) else None
            from_param = addr is not None and any(x["k"] == "DeclRefExpr" and x["ref"]["id"] in pids for x in ir.walk(addr))
            if nm in ALIGNED_SIMD and from_param:
                ck.violation("SIMD-ALIGNMENT", fn.qname, "%s:%s" % (fn.name, nm),
                             "%s() requires a %d-byte aligned address but reads through %s, which comes from a byte-pointer parameter of arbitrary "
                             "alignment (SIGSEGV for a key or message that is not aligned)" % (nm, ALIGNED_SIMD[nm], dtable.describe(addr)[:60]), fn.nloc(z))
            else:
                ck.ok("SIMD-ALIGNMENT", "%s %s" % (fn.name, nm), "unaligned-safe access" if from_param else "address is not caller memory",
                      nontrivial=False)
    return n


def run(ck):
    ck.explanation = (
        "The compression functions are covered by the suite's vectors; the chunking/padding skeleton is decided structurally: for each of the four "
        "process() loops a linear effect summary per path shows d(length_) + 8 d(curlen_) + 8 d(size) = 0 (with the guard equality curlen_ == "
        "block_size substituted on the flush path), direct compression only with an empty buffer, copy length min(size, block - curlen_), buffer "
        "reset after a flush; finalize(): length added first, 0x80, extra block iff curlen_ > block - L, fills and the byte order of the length and "
        "state stores (evaluated from the store helpers' shift schedules). Constant tables are recomputed from their defining formulas with integer "
        "arithmetic; boolean functions by truth table; Sigma/Gamma functions on all basis vectors (GF(2)-linear). SipHash: tail switch table, 64-bit "
        "shift width, twin agreement, no aligned vector access through the caller's byte pointers (SIMD-ALIGNMENT). Not decided: the compression dataflow itself and SSE2 == portable beyond the tail.")
    tus = {}
    for name, info in DIGESTS.items():
        tu = ir.extract(info["file"])
        tus[name] = tu
        check_process(ck, tu, name, info)
        check_finalize(ck, tu, name, info)
        check_frontends(ck, tu, name, info)
    check_constants(ck, tus)
    check_functions(ck, tus)
    check_siphash(ck)
    ck.floor("SIMD-ALIGNMENT", 2)
    ck.floor("PROCESS-CONSERVE", 4)
    ck.floor("PROCESS-STREAM", 4)
    ck.floor("FINAL-THRESHOLDS", 4)
    ck.floor("HEX-FRONTENDS", 16)
    ck.floor("CONST-TABLES", 10)
    ck.floor("BOOLFN-TABLES", 12)
    ck.floor("ROT-SETS", 8)
    ck.floor("SIP-TAIL", 2)
