"""C14 — digests and SipHash: chunking/padding skeleton (linear conservation), finalize
thresholds and byte order, constant tables vs their defining formulas, boolean /
rotation functions, hex front ends, SipHash tail tables."""
import decimal
import math

from engine import ir, dtable, match, cfg as cfgm
from engine.ir import kids, strip_casts, const_int, ref_of
from rules.c15 import flatten_switch

DIGESTS = {
    "MD5": dict(file="tlx/digest/md5.cpp", block=64, L=8, endian="little", words=4, wbytes=4, pfx="md5"),
    "SHA1": dict(file="tlx/digest/sha1.cpp", block=64, L=8, endian="big", words=5, wbytes=4, pfx="sha1"),
    "SHA256": dict(file="tlx/digest/sha256.cpp", block=64, L=8, endian="big", words=8, wbytes=4, pfx="sha256"),
    "SHA512": dict(file="tlx/digest/sha512.cpp", block=128, L=16, endian="big", words=8, wbytes=8, pfx="sha512"),
}


# ---------------------------------------------------------------- linear forms
def lin(e, env):
    """linear form {sym: coef, 1: const}; env: decl id / field name -> linear form"""
    e = strip_casts(e)
    c = const_int(e)
    if c is not None and e["k"] in ("IntegerLiteral", "UnaryExprOrTypeTraitExpr"):
        return {1: c} if c else {}
    if e["k"] == "DeclRefExpr":
        did = e["ref"]["id"]
        if did in env:
            return dict(env[did])
        if c is not None:
            return {1: c}
        return {("v", did, e["ref"]["name"]): 1}
    f = match.this_field(e)
    if f:
        return dict(env.get(f, {("f", f): 1}))
    sh = match.binop(e, ("<<",))
    if sh and e["k"] == "BinaryOperator" and const_int(sh[2]) is not None:
        l = lin(sh[1], env)
        return None if l is None else {s_: v << const_int(sh[2]) for s_, v in l.items()}
    b = match.binop(e, ("+", "-", "*"))
    if b and e["k"] == "BinaryOperator":
        l, r = lin(b[1], env), lin(b[2], env)
        if l is None or r is None:
            return None
        if b[0] == "*":
            if set(l) <= {1}:
                k = l.get(1, 0)
                return {s: k * v for s, v in r.items() if k * v}
            if set(r) <= {1}:
                k = r.get(1, 0)
                return {s: k * v for s, v in l.items() if k * v}
            return None
        out = dict(l)
        for s, v in r.items():
            out[s] = out.get(s, 0) + (v if b[0] == "+" else -v)
        return {s: v for s, v in out.items() if v}
    return None


def ladd(a, b, k=1):
    out = dict(a)
    for s, v in b.items():
        out[s] = out.get(s, 0) + k * v
    return {s: v for s, v in out.items() if v}


def multiple_of(delta, eq):
    """delta == k * eq for some rational k (or delta == 0)"""
    if not delta:
        return True
    if not eq:
        return False
    s0 = next(iter(eq))
    if s0 not in delta:
        return False
    from fractions import Fraction
    k = Fraction(delta[s0], eq[s0])
    return all(Fraction(delta.get(s, 0)) == k * eq.get(s, 0) for s in set(delta) | set(eq))


def check_process(ck, tu, name, info):
    fn = [f for f in tu.find(qname="tlx::%s::process" % name) if len(f.params) == 2][0]
    size_p = fn.params[1]["did"]
    loops = [s for s in kids(fn.body) if s["k"] == "WhileStmt"]
    ck.require(len(loops) == 1, "%s: chunk loop not found" % fn.loc)
    # block size = sizeof(buf_)
    env0 = {}
    for v in fn.nodes():
        if v["k"] == "VarDecl" and v["name"] == "block_size" and kids(v):
            bs = const_int(kids(v)[0])
            if bs != info["block"]:
                ck.violation("PROCESS-CONSERVE", fn.qname, "block-size", "block_size is %s, the %s block is %d bytes" % (bs, name, info["block"]), fn.nloc(v))
                return
            szof = [y for y in ir.walk(kids(v)[0]) if y["k"] == "UnaryExprOrTypeTraitExpr"]
            if not szof:
                ck.violation("PROCESS-CONSERVE", fn.qname, "block-size-literal", "block_size is not sizeof(buf_)", fn.nloc(v))
                return
            env0[v["did"]] = {("B",): 1}
    B = {("B",): 1}
    paths = []

    def walk_stmt(s, env, eqs, facts):
        """symbolic straight-line execution of one loop iteration; returns list of (env, eqs, facts)"""
        k = s["k"]
        if k == "CompoundStmt":
            states = [(env, eqs, facts)]
            for c in kids(s):
                nxt = []
                for (e1, q1, f1) in states:
                    nxt += walk_stmt(c, e1, q1, f1)
                states = nxt
            return states
        if k == "IfStmt":
            c, t, e = kids(s)
            out = []
            conj = []

            def flat(n):
                b = match.binop(n, ("&&",))
                if b and strip_casts(n)["k"] == "BinaryOperator":
                    flat(b[1]); flat(b[2])
                else:
                    conj.append(n)
            flat(c)
            eq_true = list(eqs)
            facts_true = list(facts)
            for cj in conj:
                b = match.binop(cj, ("==", ">=", "<", ">", "<="))
                if b:
                    l, r = lin(b[1], env), lin(b[2], env)
                    if b[0] == "==" and l is not None and r is not None:
                        eq_true.append(ladd(l, r, -1))
                        facts_true.append(("eq", dtable.describe(cj)))
                    else:
                        facts_true.append(("cond", dtable.describe(cj)))
            out += walk_stmt(t, dict(env), eq_true, facts_true)
            if e is not None:
                out += walk_stmt(e, dict(env), list(eqs), facts + [("else", dtable.describe(c))])
            else:
                out.append((dict(env), list(eqs), facts + [("else", dtable.describe(c))]))
            return out
        if k == "DeclStmt":
            env = dict(env)
            for v in kids(s):
                if kids(v):
                    m = match.call_named(kids(v)[0], ("min",))
                    if m is not None and "callee" in strip_casts(kids(v)[0]):
                        env[v["did"]] = {("n",): 1}
                        facts = facts + [("min", [dtable.describe(a) for a in kids(m)], [lin(a, env) for a in kids(m)])]
                    else:
                        l = lin(kids(v)[0], env)
                        if l is not None:
                            env[v["did"]] = l
            return [(env, eqs, facts)]
        if k in ("ForStmt",):
            return [(env, eqs, facts + [("copy-loop", s)])]
        b = match.binop(s, ("+=", "-=", "="))
        if b:
            tgt = strip_casts(b[1])
            key = match.this_field(tgt) or (ref_of(tgt) if tgt["k"] == "DeclRefExpr" else None)
            r = lin(b[2], env)
            if key is not None and r is not None:
                env = dict(env)
                cur = env.get(key, {("f", key): 1} if isinstance(key, str) else {("v", key, ir.ref_name(tgt)): 1})
                env[key] = r if b[0] == "=" else ladd(cur, r, 1 if b[0] == "+=" else -1)
                return [(env, eqs, facts)]
        if "callee" in s:
            return [(env, eqs, facts + [("call", s)])]
        return [(env, eqs, facts)]
    sizesym = {("v", size_p, "size"): 1}
    start = dict(env0)
    results = walk_stmt(kids(loops[0])[1], start, [], [])
    ck.require(len(results) == 3, "%s: expected 3 paths through the chunk loop, found %d" % (fn.loc, len(results)))
    bad = False
    for env, eqs, facts in results:
        dlen = ladd(env.get("length_", {("f", "length_"): 1}), {("f", "length_"): 1}, -1)
        dcur = ladd(env.get("curlen_", {("f", "curlen_"): 1}), {("f", "curlen_"): 1}, -1)
        dsize = ladd(env.get(size_p, sizesym), sizesym, -1)
        delta = ladd(ladd(dlen, dcur, 8), dsize, 8)
        okc = not delta or any(multiple_of(delta, q) for q in eqs)
        compress = [f for f in facts if f[0] == "call" and f[1]["callee"]["name"].endswith("_compress")]
        direct = [c for c in compress if ref_of(kids(c[1])[1]) is not None and ir.ref_name(kids(c[1])[1]) == "in"]
        desc = "direct" if direct else ("flush" if compress else "buffer")
        if not okc:
            ck.violation("PROCESS-CONSERVE", fn.qname, name + ":" + desc,
                         "on the %s path the message length is not conserved: d(length_) + 8 d(curlen_) + 8 d(size) = %s (must be 0%s): bytes buffered by earlier "
                         "calls are lost from / counted twice in the length that is hashed into the padding"
                         % (desc, fmt_lin(delta), (" given " + " and ".join(f[1] for f in facts if f[0] == "eq")) if eqs else ""), fn.nloc(loops[0]))
            bad = True
        if direct:
            guards = [f[1] for f in facts if f[0] in ("eq", "cond")]
            if not any("curlen_ == 0" in g_.replace("(", "").replace(")", "") for g_ in guards):
                ck.violation("DIRECT-ONLY-EMPTY", fn.qname, name, "input is compressed directly although bytes may still be buffered (curlen_ == 0 not required)", fn.nloc(direct[0][1]))
                bad = True
            if not any("size >= block_size" in g_.replace("(", "").replace(")", "") for g_ in guards):
                ck.violation("DIRECT-ONLY-EMPTY", fn.qname, name + ":size", "direct compression without size >= block_size", fn.nloc(direct[0][1]))
                bad = True
        if compress and not direct:
            if env.get("curlen_") != {}:
                ck.violation("FLUSH-RESET", fn.qname, name, "after compressing the full buffer curlen_ is %s instead of 0" % fmt_lin(env.get("curlen_", {("f", "curlen_"): 1})), fn.nloc(compress[0][1]))
                bad = True
        mins = [f for f in facts if f[0] == "min"]
        if not direct:
            okm = False
            for m in mins:
                want = [sizesym, ladd(B, {("f", "curlen_"): 1}, -1)]
                if sorted(map(fmt_lin, m[2])) == sorted(map(fmt_lin, want)):
                    okm = True
            if not okm:
                ck.violation("COPY-BOUND", fn.qname, name + ":" + desc, "the number of bytes copied into the buffer is not min(size, block_size - curlen_)", fn.nloc(loops[0]))
                bad = True
    if not bad:
        ck.ok("PROCESS-CONSERVE", name + "::process", "3 paths: d(length_) + 8 d(curlen_) + 8 d(size) == 0 (with curlen_ == block_size substituted on the flush path)",
              sample=dict(rule="PROCESS-CONSERVE", digest=name, paths=3))
        ck.ok("DIRECT-ONLY-EMPTY", name + "::process", "direct compression only when curlen_ == 0 and size >= block_size")
        ck.ok("COPY-BOUND", name + "::process", "n = min(size, block_size - curlen_)")
        ck.ok("FLUSH-RESET", name + "::process", "full buffer compressed, curlen_ = 0")


def fmt_lin(l):
    if not l:
        return "0"
    parts = []
    for s, v in sorted(l.items(), key=lambda kv: str(kv[0])):
        nm = "1" if s == 1 else s[-1] if s[0] in ("v",) else s[1] if s[0] == "f" else {"B": "block_size", "n": "n"}.get(s[0], str(s))
        parts.append(("%+d" % v) if s == 1 else "%+d*%s" % (v, nm))
    return " ".join(parts)


def store_order(tu, call):
    """('big'|'little', width) of a storeNN helper by evaluating its shift schedule"""
    fn = tu.by_did.get(call["callee"]["did"])
    if fn is None:
        return None
    loop = [x for x in fn.nodes() if x["k"] == "ForStmt"]
    if not loop:
        return None
    init, cond, inc, body = match.loop_parts(loop[0])
    var = [y["did"] for y in ir.walk(init) if y["k"] == "VarDecl"][0]
    n = const_int(match.binop(cond, ("!=", "<"))[2])
    shifts = []
    for i in range(n):
        for y in ir.walk(body):
            b = match.binop(y, (">>",))
            if b and strip_casts(y)["k"] == "BinaryOperator":
                from rules.c13 import eval_arith
                shifts.append(eval_arith(b[2], {var: i}))
                break
    if shifts == [8 * (n - 1 - i) for i in range(n)]:
        return "big", n
    if shifts == [8 * i for i in range(n)]:
        return "little", n
    return "mixed", n


def check_finalize(ck, tu, name, info):
    fn = tu.one(qname="tlx::%s::finalize" % name)
    B, L = info["block"], info["L"]
    g = cfgm.CFG(fn)
    stmts = kids(fn.body)
    bad = []
    # 1. length_ += curlen_ * 8 first
    first = stmts[0]
    b = match.binop(first, ("+=",))
    l = lin(b[2], {}) if b else None
    if not (b and match.this_field(b[1]) == "length_" and l == {("f", "curlen_"): 8}):
        bad.append(("length-first", "finalize must first add the buffered bytes to the length (length_ += curlen_ * 8)", first))
    # 2. 0x80 appended at buf_[curlen_++]
    pad = [x for x in fn.nodes() if match.binop(x, ("=",)) and const_int(match.binop(x, ("=",))[2]) == 0x80]
    okp = False
    for x in pad:
        p = match.index_parts(match.binop(x, ("=",))[1])
        u = match.unop(p[1], ("++",)) if p else None
        if p and match.this_field(p[0]) == "buf_" and u and u[2] and match.this_field(u[1]) == "curlen_":
            okp = True
    if not okp:
        bad.append(("pad-byte", "the padding byte 0x80 is not appended at buf_[curlen_++]", stmts[1] if len(stmts) > 1 else first))
    # 3. thresholds
    ifs = [s for s in stmts if s["k"] == "IfStmt"]
    whiles = [s for s in stmts if s["k"] == "WhileStmt"]
    T = F1 = None
    if ifs:
        c = match.binop(kids(ifs[0])[0], (">", ">="))
        if c and match.this_field(c[1]) == "curlen_":
            T = const_int(c[2]) + (0 if c[0] == ">" else -1)
        inner = [x for x in ir.walk(kids(ifs[0])[1]) if x["k"] == "WhileStmt"]
        if inner:
            cc = match.binop(kids(inner[0])[0], ("<",))
            F1 = const_int(cc[2]) if cc and match.this_field(cc[1]) == "curlen_" else None
        flush = [x for x in ir.walk(kids(ifs[0])[1]) if "callee" in x and x["callee"]["name"].endswith("_compress")]
        reset = [x for x in ir.walk(kids(ifs[0])[1]) if match.binop(x, ("=",)) and match.this_field(match.binop(x, ("=",))[1]) == "curlen_" and const_int(match.binop(x, ("=",))[2]) == 0]
        if not flush or not reset:
            bad.append(("extra-block", "the extra padding block is not compressed and the buffer restarted", ifs[0]))
    if T != B - L:
        bad.append(("threshold", "an extra block is used when curlen_ > %s; the %d-bit length field needs it exactly when curlen_ > %d" % (T, 8 * L, B - L), ifs[0] if ifs else first))
    if F1 != B:
        bad.append(("fill-block", "the extra block is zero-filled up to %s instead of the block size %d" % (F1, B), ifs[0] if ifs else first))
    F2 = None
    if whiles:
        cc = match.binop(kids(whiles[-1])[0], ("<",))
        F2 = const_int(cc[2]) if cc and match.this_field(cc[1]) == "curlen_" else None
    if F2 != B - 8:
        bad.append(("fill-final", "the final block is zero-filled up to %s, the 64-bit length is stored at %d" % (F2, B - 8), whiles[-1] if whiles else first))
    # 4. length stored at block-8 in the digest's byte order, then compressed
    stores = [x for x in fn.nodes() if "callee" in x and x["callee"]["name"].startswith("store64") and match.this_field(kids(x)[0]) == "length_"]
    if len(stores) != 1:
        bad.append(("length-store", "the message length is not stored into the final block", first))
    else:
        off = match.binop(kids(stores[0])[1], ("+",))
        if not (off and match.this_field(off[1]) == "buf_" and const_int(off[2]) == B - 8):
            bad.append(("length-offset", "the length is not stored at buf_ + %d" % (B - 8), stores[0]))
        so = store_order(tu, stores[0])
        if not so or so != (info["endian"], 8):
            bad.append(("length-endian", "the length is stored %s-endian (%s uses %s-endian)" % (so[0] if so else "?", name, info["endian"]), stores[0]))
        comp = [x for x in fn.nodes() if "callee" in x and x["callee"]["name"].endswith("_compress") and g.pos(x) and g.dominates(g.pos(stores[0]), g.pos(x))]
        if not comp:
            bad.append(("final-compress", "the final block is not compressed after the length was stored", stores[0]))
    # 5. output words
    outs = [x for x in fn.nodes() if "callee" in x and x["callee"]["name"].startswith("store") and not x["callee"]["name"].startswith("store64l") and
            any(match.this_field(match.index_parts(a)[0]) == "state_" for a in kids(x)[:1] if match.index_parts(a))]
    outs = [x for x in fn.nodes() if "callee" in x and x["callee"]["name"].startswith("store") and kids(x) and match.index_parts(kids(x)[0]) and
            match.this_field(match.index_parts(kids(x)[0])[0]) == "state_"]
    if len(outs) != 1:
        bad.append(("output", "the state words are not written to the digest", first))
    else:
        so = store_order(tu, outs[0])
        if not so or so != (info["endian"], info["wbytes"]):
            bad.append(("output-endian", "state words are written as %s, %s needs %s-endian %d-byte words" % (so, name, info["endian"], info["wbytes"]), outs[0]))
        lp = fn.parent(outs[0])
        while lp is not None and lp["k"] != "ForStmt":
            lp = fn.parent(lp)
        nwords = const_int(match.binop(match.loop_parts(lp)[1], ("<", "!="))[2]) if lp is not None else None
        stride = None
        for y in ir.walk(kids(outs[0])[1]):
            bb = match.binop(y, ("*",))
            if bb and strip_casts(y)["k"] == "BinaryOperator":
                stride = const_int(bb[1]) if const_int(bb[1]) is not None else const_int(bb[2])
        if nwords != info["words"] or stride != info["wbytes"]:
            bad.append(("output-words", "%s state words with stride %s are written, %s has %d words of %d bytes" % (nwords, stride, name, info["words"], info["wbytes"]), outs[0]))
    for sig, msg, node in bad:
        ck.violation("FINAL-THRESHOLDS", fn.qname, name + ":" + sig, msg, fn.nloc(node))
    if not bad:
        ck.ok("FINAL-THRESHOLDS", name + "::finalize", "length first, 0x80, extra block iff curlen_ > %d, fill to %d / %d, %s-endian length at %d, %d words of %d bytes"
              % (B - L, B, B - 8, info["endian"], B - 8, info["words"], info["wbytes"]))


def check_frontends(ck, tu, name, info):
    pfx = info["pfx"]
    for meth, want in (("digest_hex", "hexdump_lc"), ("digest_hex_uc", "hexdump")):
        fn = tu.one(qname="tlx::%s::%s" % (name, meth))
        calls = [x["callee"]["name"] for x in fn.nodes() if "callee" in x and x["callee"]["name"].startswith("hexdump")]
        fin = [x for x in fn.nodes() if "callee" in x and x["callee"]["name"] == "finalize"]
        if calls == [want] and len(fin) == 1:
            ck.ok("HEX-FRONTENDS", "%s::%s" % (name, meth), "finalize then " + want, nontrivial=False)
        else:
            ck.violation("HEX-FRONTENDS", fn.qname, "%s:%s" % (name, meth), "%s must finalize once and print with %s (uses %s)" % (meth, want, calls), fn.loc)
    for free, meth in ((pfx + "_hex", "digest_hex"), (pfx + "_hex_uc", "digest_hex_uc")):
        for fn in tu.find(qname="tlx::" + free):
            ms = [x["callee"]["name"] for x in fn.nodes() if "callee" in x and x.get("member_call") and x["callee"]["name"].startswith("digest")]
            ctor = [x for x in fn.nodes() if x["k"] in ("CXXTemporaryObjectExpr", "CXXConstructExpr", "CXXFunctionalCastExpr") and "callee" in x and x["callee"].get("record") == "tlx::" + name]
            okargs = bool(ctor) and [ref_of(a) for a in kids(ctor[0])] == [p["did"] for p in fn.params]
            if ms == [meth] and okargs:
                ck.ok("HEX-FRONTENDS", "%s/%d" % (free, len(fn.params)), "%s(args...).%s()" % (name, meth), nontrivial=False)
            else:
                ck.violation("HEX-FRONTENDS", fn.qname, "%s/%d" % (free, len(fn.params)), "%s must hash its arguments and return %s()" % (free, meth), fn.loc)


# ---------------------------------------------------------------- constants
def primes(n):
    out, c = [], 2
    while len(out) < n:
        if all(c % p for p in out if p * p <= c):
            out.append(c)
        c += 1
    return out


def iroot(x, k):
    lo, hi = 0, 1
    while hi ** k <= x:
        hi *= 2
    while lo < hi:
        mid = (lo + hi + 1) // 2
        if mid ** k <= x:
            lo = mid
        else:
            hi = mid - 1
    return lo


def frac_root_bits(p, k, bits):
    """first `bits` bits of the fractional part of the k-th root of p"""
    r = iroot(p << (k * bits), k)
    return r & ((1 << bits) - 1)


def md5_k():
    decimal.getcontext().prec = 60
    out = []
    two32 = decimal.Decimal(2) ** 32
    for i in range(64):
        x = decimal.Decimal(i + 1)
        # sin by Taylor series after range reduction
        pi = decimal.Decimal("3.14159265358979323846264338327950288419716939937510582097494459")
        x = x % (2 * pi)
        term, s, n = x, x, 1
        while abs(term) > decimal.Decimal(10) ** -50:
            term = -term * x * x / ((2 * n) * (2 * n + 1))
            s += term
            n += 1
        out.append(int(abs(s) * two32))
    return out


def state_init(tu, name):
    fn = [f for f in tu.find(qname="tlx::%s::%s" % (name, name)) if not f.params][0]
    vals = {}
    for x in fn.nodes():
        b = match.binop(x, ("=",))
        if b:
            p = match.index_parts(b[1])
            if p and match.this_field(p[0]) == "state_":
                vals[const_int(p[1])] = const_int(b[2])
    return [vals.get(i) for i in range(len(vals))]


def table_vals(tu, suffix):
    ts = [t for t in tu.tables if t["qname"].endswith(suffix)]
    if not ts:
        raise ir.AnalysisBroken("constant table %s not found in %s" % (suffix, tu.src))
    return [int(v) for v in ts[0]["values"]]


def check_constants(ck, tus):
    # SHA-256
    k256 = [frac_root_bits(p, 3, 32) for p in primes(64)]
    iv256 = [frac_root_bits(p, 2, 32) for p in primes(8)]
    k512 = [frac_root_bits(p, 3, 64) for p in primes(80)]
    iv512 = [frac_root_bits(p, 2, 64) for p in primes(8)]
    sha1k = [iroot(x << 60, 2) for x in (2, 3, 5, 10)]
    checks = [
        ("SHA256", "K", table_vals(tus["SHA256"], "::K"), k256, "first 32 bits of the fractional parts of the cube roots of the first 64 primes"),
        ("SHA256", "IV", state_init(tus["SHA256"], "SHA256"), iv256, "fractional parts of the square roots of the first 8 primes"),
        ("SHA512", "K", table_vals(tus["SHA512"], "::K"), k512, "first 64 bits of the fractional parts of the cube roots of the first 80 primes"),
        ("SHA512", "IV", state_init(tus["SHA512"], "SHA512"), iv512, "fractional parts of the square roots of the first 8 primes"),
        ("MD5", "K", table_vals(tus["MD5"], "::Korder"), md5_k(), "floor(2^32 * |sin(i + 1)|)"),
        ("MD5", "IV", state_init(tus["MD5"], "MD5"), [0x67452301, 0xefcdab89, 0x98badcfe, 0x10325476], "bytes 01 23 .. ef / fe dc .. 10 little-endian"),
        ("SHA1", "IV", state_init(tus["SHA1"], "SHA1"), [0x67452301, 0xefcdab89, 0x98badcfe, 0x10325476, 0xc3d2e1f0], "FIPS 180 initial hash value"),
    ]
    fn = tus["SHA1"].one(qname="tlx::digest_detail::sha1_compress")
    got1 = []
    for x in fn.nodes():
        c = const_int(x)
        if x["k"] == "IntegerLiteral" and c is not None and c > 0xFFFF:
            if c not in got1:
                got1.append(c)
    checks.append(("SHA1", "K", got1, sha1k, "floor(2^30 * sqrt(2, 3, 5, 10))"))
    for name, what, got, want, how in checks:
        if got == want:
            ck.ok("CONST-TABLES", "%s %s" % (name, what), "%d constants equal %s (recomputed with integer arithmetic)" % (len(want), how))
        else:
            idx = [i for i in range(min(len(got), len(want))) if got[i] != want[i]]
            ck.violation("CONST-TABLES", "tlx::%s" % name, "%s:%s" % (name, what),
                         "%s constant table differs from its definition (%s)%s" % (what, how, (": entry %d is %#x, must be %#x" % (idx[0], got[idx[0]], want[idx[0]])) if idx else ": wrong length %d" % len(got)),
                         DIGESTS[name]["file"])
    # MD5 shift / word schedules
    t = tus["MD5"]
    r = table_vals(t, "::Rorder")
    w = table_vals(t, "::Worder")
    wr = [7, 12, 17, 22] * 4 + [5, 9, 14, 20] * 4 + [4, 11, 16, 23] * 4 + [6, 10, 15, 21] * 4
    ww = [i for i in range(16)] + [(5 * i + 1) % 16 for i in range(16)] + [(3 * i + 5) % 16 for i in range(16)] + [(7 * i) % 16 for i in range(16)]
    for what, got, want in (("rotation schedule", r, wr), ("message word schedule", w, ww)):
        if got == want:
            ck.ok("CONST-TABLES", "MD5 " + what, "64 entries equal RFC 1321")
        else:
            ck.violation("CONST-TABLES", "tlx::MD5", "MD5:" + what.replace(" ", "-"), "MD5 %s differs from RFC 1321" % what, "tlx/digest/md5.cpp")


# ---------------------------------------------------------------- boolean / rotation functions
def word_eval(tu, fn, args, width):
    """evaluate a pure word function (xor/and/or/not/shift/rotate and calls of such functions) on integers"""
    mask = (1 << width) - 1
    env = {p["did"]: a for p, a in zip(fn.params, args)}

    def ev(e):
        e = strip_casts(e)
        c = const_int(e)
        if c is not None and e["k"] == "IntegerLiteral":
            return c
        if e["k"] == "DeclRefExpr" and e["ref"]["id"] in env:
            return env[e["ref"]["id"]]
        if e["k"] == "UnaryOperator" and e["op"] == "~":
            return (~ev(kids(e)[0])) & mask
        b = match.binop(e, ("&", "|", "^", ">>", "<<", "+"))
        if b and e["k"] == "BinaryOperator":
            x, y = ev(b[1]), ev(b[2])
            op = b[0]
            if op == "&":
                return x & y
            if op == "|":
                return x | y
            if op == "^":
                return x ^ y
            if op == "+":
                return (x + y) & mask
            if y < 0 or y >= width:
                raise dtable.Undecidable("%s: shift by %d in a %d-bit word function" % (fn.loc, y, width))
            return (x >> y) if op == ">>" else (x << y) & mask
        if "callee" in e:
            nm = e["callee"]["name"]
            a = [ev(x) for x in kids(e)]
            if nm in ("ror32", "ror64"):
                w = 32 if nm == "ror32" else 64
                k = a[1] % w
                return ((a[0] >> k) | (a[0] << (w - k))) & ((1 << w) - 1)
            if nm in ("rol32", "rol64"):
                w = 32 if nm == "rol32" else 64
                k = a[1] % w
                return ((a[0] << k) | (a[0] >> (w - k))) & ((1 << w) - 1)
            callee = tu.by_did.get(e["callee"]["did"])
            if callee is not None:
                return word_eval(tu, callee, a, width)
        raise dtable.Undecidable("%s: not a pure word expression: %s" % (fn.loc, dtable.describe(e)))
    rets = [x for x in fn.nodes() if x["k"] == "ReturnStmt"]
    return ev(kids(rets[0])[0]) & mask


def rot(x, k, w):
    return ((x >> k) | (x << (w - k))) & ((1 << w) - 1)


BOOL3 = {
    "Ch": lambda x, y, z: (x & y) | (~x & z), "Maj": lambda x, y, z: (x & y) | (x & z) | (y & z),
    "F": lambda x, y, z: (x & y) | (~x & z), "G": lambda x, y, z: (x & z) | (y & ~z), "H": lambda x, y, z: x ^ y ^ z, "I": lambda x, y, z: y ^ (x | ~z),
    "F0": lambda x, y, z: (x & y) | (~x & z), "F1": lambda x, y, z: x ^ y ^ z, "F2": lambda x, y, z: (x & y) | (x & z) | (y & z), "F3": lambda x, y, z: x ^ y ^ z,
}
LIN = {
    ("SHA256", "Sigma0"): ((2, 13, 22), None), ("SHA256", "Sigma1"): ((6, 11, 25), None), ("SHA256", "Gamma0"): ((7, 18), 3), ("SHA256", "Gamma1"): ((17, 19), 10),
    ("SHA512", "Sigma0"): ((28, 34, 39), None), ("SHA512", "Sigma1"): ((14, 18, 41), None), ("SHA512", "Gamma0"): ((1, 8), 7), ("SHA512", "Gamma1"): ((19, 61), 6),
}


def check_functions(ck, tus):
    for name, tu in tus.items():
        w = 64 if name == "SHA512" else 32
        fam = {"MD5": ("F", "G", "H", "I"), "SHA1": ("F0", "F1", "F2", "F3"), "SHA256": ("Ch", "Maj"), "SHA512": ("Ch", "Maj")}[name]
        for fnm in fam:
            fns = [f for f in tu.functions if f.name == fnm and len(f.params) == 3 and f.record is None]
            ck.require(len(fns) == 1, "%s: boolean function %s not found" % (name, fnm))
            bad = None
            for bits in range(8):
                x, y, z = [(-(bits >> i & 1)) & ((1 << w) - 1) for i in (2, 1, 0)]
                got = word_eval(tu, fns[0], [x, y, z], w)
                want = BOOL3[fnm](x, y, z) & ((1 << w) - 1)
                if got != want:
                    bad = (bits >> 2 & 1, bits >> 1 & 1, bits & 1)
            if bad:
                ck.violation("BOOLFN-TABLES", fns[0].qname, "%s:%s" % (name, fnm), "%s %s(x,y,z) has the wrong truth table (row x,y,z = %s)" % (name, fnm, bad), fns[0].loc)
            else:
                ck.ok("BOOLFN-TABLES", "%s %s" % (name, fnm), "8-row truth table equals the standard's definition (bitwise function, all bits alike)")
        for (dg, fnm), (rots, sh) in LIN.items():
            if dg != name:
                continue
            fns = [f for f in tu.functions if f.name == fnm and len(f.params) == 1 and f.record is None]
            ck.require(len(fns) == 1, "%s: %s not found" % (name, fnm))
            bad = None
            for j in range(w):
                x = 1 << j
                got = word_eval(tu, fns[0], [x], w)
                want = 0
                for r_ in rots:
                    want ^= rot(x, r_, w)
                if sh is not None:
                    want ^= x >> sh
                if got != want:
                    bad = j
            zero = word_eval(tu, fns[0], [0], w)
            if bad is not None or zero != 0:
                ck.violation("ROT-SETS", fns[0].qname, "%s:%s" % (name, fnm), "%s %s is not ROTR%s%s (differs on input bit %s)" % (name, fnm, list(rots), " ^ SHR%d" % sh if sh else "", bad), fns[0].loc)
            else:
                ck.ok("ROT-SETS", "%s %s" % (name, fnm), "GF(2)-linear and equal to ROTR%s%s on all %d basis inputs" % (list(rots), " ^ SHR%d" % sh if sh else "", w))


# ---------------------------------------------------------------- siphash
def check_siphash(ck):
    tu = ir.extract("witness/C14_siphash.cpp")
    tabs = {}
    for name in ("siphash_plain", "siphash_sse2"):
        fn = tu.one(qname="tlx::" + name)
        m, length = fn.params[1]["did"], fn.params[2]["did"]
        sw = [x for x in fn.nodes() if x["k"] == "SwitchStmt"]
        ck.require(len(sw) == 1, "%s: tail switch not found" % fn.loc)
        # switch on len - blocks (len & 7)
        flat = flatten_switch(kids(sw[0])[1])
        table = {}
        bad = []
        labels_open = []
        order = []
        for e in flat:
            if e[0] == "case":
                labels_open.append(e[1])
                order.append(e[1])
            elif e[0] == "stmt":
                s = e[1]
                if s["k"] == "BreakStmt":
                    bad.append(("break", "the tail cases must fall through (case c adds byte c-1 and all lower ones)", s))
                    labels_open = []
                    continue
                b = match.binop(s, ("|=",))
                if b:
                    rhs = strip_casts(b[2])
                    sh = match.binop(b[2], ("<<",))
                    shift = const_int(sh[2]) if sh else 0
                    operand = sh[1] if sh else b[2]
                    # the shift must be performed on a 64-bit unsigned value
                    shl = strip_casts(b[2]) if sh else None
                    if sh:
                        inner = b[2]
                        while inner["k"] in ("ImplicitCastExpr",) and strip_casts(inner) is not inner and False:
                            pass
                        shnode = [y for y in ir.walk(b[2]) if y["k"] == "BinaryOperator" and y.get("op") == "<<"][0]
                        if shnode.get("ty") not in ("unsigned long", "unsigned long long"):
                            bad.append(("shift-width:%d" % shift, "byte shifted by %d in type `%s`: the shift is done in (signed) int, bytes >= 0x80 sign-extend into the upper half" % (shift, shnode.get("ty")), s))
                    idx = None
                    for y in ir.walk(operand):
                        p = match.index_parts(y) if y["k"] == "ArraySubscriptExpr" else None
                        if p and ref_of(p[0]) == m:
                            bb = match.binop(p[1], ("+",))
                            idx = const_int(bb[2]) if bb else 0
                    for l in labels_open[-1:]:
                        table[l] = (idx, shift)
        for c in range(1, 8):
            if table.get(c) != (c - 1, 8 * (c - 1)):
                bad.append(("case%d" % c, "case %d ORs byte %s shifted by %s, SipHash needs byte %d shifted by %d" % (c, table.get(c, (None, None))[0], table.get(c, (None, None))[1], c - 1, 8 * (c - 1)), sw[0]))
        if order[:7] != [7, 6, 5, 4, 3, 2, 1]:
            bad.append(("order", "cases must be ordered 7..1 to fall through", sw[0]))
        # length byte
        lb = [x for x in fn.nodes() if match.binop(x, ("=",)) and ir.ref_name(match.binop(x, ("=",))[1]) == "last7"]
        okl = False
        for x in lb:
            sh = match.binop(match.binop(x, ("=",))[2], ("<<",))
            if sh and const_int(sh[2]) == 56 and ref_of([y for y in ir.walk(sh[1]) if y["k"] == "DeclRefExpr"][0]) == length:
                shnode = [y for y in ir.walk(match.binop(x, ("=",))[2]) if y["k"] == "BinaryOperator" and y.get("op") == "<<"][0]
                okl = shnode.get("ty") in ("unsigned long", "unsigned long long")
        if not okl:
            bad.append(("length-byte", "the final word does not start from (len & 0xff) << 56 in 64-bit arithmetic", fn.body))
        for sig, msg, node in bad[:4]:
            ck.violation("SIP-TAIL", fn.qname, "%s:%s" % (name, sig), msg, fn.nloc(node))
        if not bad:
            ck.ok("SIP-TAIL", name, "cases 7..1 fall through, case c ORs byte c-1 shifted by 8(c-1) in 64-bit arithmetic; length byte << 56")
        tabs[name] = table
    check_simd_alignment(ck, tu)
    if tabs.get("siphash_plain") == tabs.get("siphash_sse2"):
        ck.ok("SIP-TAIL", "plain vs sse2", "both implementations carry the same tail table", nontrivial=False)
    else:
        ck.violation("SIP-TAIL", "tlx::siphash_sse2", "twins", "the portable and the vectorised implementation assemble the tail differently", "tlx/siphash.hpp")


ALIGNED_SIMD = {"_mm_load_si128": 16, "_mm_store_si128": 16, "_mm_load_pd": 16, "_mm_load_ps": 16, "_mm_store_pd": 16, "_mm_store_ps": 16,
                "_mm_stream_si128": 16, "_mm256_load_si256": 32, "_mm256_store_si256": 32}


def check_simd_alignment(ck, tu):
    """key and message are plain byte pointers of unknown alignment: an aligned vector load/store through a
    pointer derived from a parameter faults for a caller whose buffer is not 16-byte aligned"""
    n = 0
    for fn in tu.functions:
        if fn.body is None or not fn.qname.startswith("tlx::siphash"):
            continue
        pids = {p["did"] for p in fn.params if "*" in (p.get("ty") or "")}
        # locals that alias a parameter pointer
        changed = True
        while changed:
            changed = False
            for v in fn.nodes():
                if v["k"] == "VarDecl" and v.get("did") not in pids and "*" in (v.get("ty") or "") and kids(v) and \
                        any(x["k"] == "DeclRefExpr" and x["ref"]["id"] in pids for x in ir.walk(kids(v)[0])):
                    pids.add(v["did"])
                    changed = True
        for z in fn.nodes():
            if "callee" not in z:
                continue
            nm = z["callee"]["name"]
            if not (nm.startswith("_mm") and ("load" in nm or "store" in nm or "stream" in nm)):
                continue
            n += 1
            addr = kids(z)[0] if kids(z) else None
            from_param = addr is not None and any(x["k"] == "DeclRefExpr" and x["ref"]["id"] in pids for x in ir.walk(addr))
            if nm in ALIGNED_SIMD and from_param:
                ck.violation("SIMD-ALIGNMENT", fn.qname, "%s:%s" % (fn.name, nm),
                             "%s() requires a %d-byte aligned address but reads through %s, which comes from a byte-pointer parameter of arbitrary "
                             "alignment (SIGSEGV for a key or message that is not aligned)" % (nm, ALIGNED_SIMD[nm], dtable.describe(addr)[:60]), fn.nloc(z))
            else:
                ck.ok("SIMD-ALIGNMENT", "%s %s" % (fn.name, nm), "unaligned-safe access" if from_param else "address is not caller memory",
                      nontrivial=False)
    return n


def run(ck):
    ck.explanation = (
        "The compression functions are covered by the suite's vectors; the chunking/padding skeleton is decided structurally: for each of the four "
        "process() loops a linear effect summary per path shows d(length_) + 8 d(curlen_) + 8 d(size) = 0 (with the guard equality curlen_ == "
        "block_size substituted on the flush path), direct compression only with an empty buffer, copy length min(size, block - curlen_), buffer "
        "reset after a flush; finalize(): length added first, 0x80, extra block iff curlen_ > block - L, fills and the byte order of the length and "
        "state stores (evaluated from the store helpers' shift schedules). Constant tables are recomputed from their defining formulas with integer "
        "arithmetic; boolean functions by truth table; Sigma/Gamma functions on all basis vectors (GF(2)-linear). SipHash: tail switch table, 64-bit "
        "shift width, twin agreement, no aligned vector access through the caller's byte pointers (SIMD-ALIGNMENT). Not decided: the compression dataflow itself and SSE2 == portable beyond the tail.")
    tus = {}
    for name, info in DIGESTS.items():
        tu = ir.extract(info["file"])
        tus[name] = tu
        check_process(ck, tu, name, info)
        check_finalize(ck, tu, name, info)
        check_frontends(ck, tu, name, info)
    check_constants(ck, tus)
    check_functions(ck, tus)
    check_siphash(ck)
    ck.floor("SIMD-ALIGNMENT", 2)
    ck.floor("PROCESS-CONSERVE", 4)
    ck.floor("FINAL-THRESHOLDS", 4)
    ck.floor("HEX-FRONTENDS", 16)
    ck.floor("CONST-TABLES", 10)
    ck.floor("BOOLFN-TABLES", 12)
    ck.floor("ROT-SETS", 8)
    ck.floor("SIP-TAIL", 3)
