"""C14 — digests and SipHash: chunking/padding skeleton (linear conservation), finalize
thresholds and byte order, constant tables vs their defining formulas, boolean /
rotation functions, hex front ends, SipHash tail tables."""
import decimal
import math
import re

from engine import ir, dtable, match, skel, cfg as cfgm
from engine.ir import kids, strip_casts, const_int, ref_of

DIGESTS = {
    "MD5": dict(file="tlx/digest/md5.cpp", block=64, L=8, endian="little", words=4, wbytes=4, pfx="md5"),
    "SHA1": dict(file="tlx/digest/sha1.cpp", block=64, L=8, endian="big", words=5, wbytes=4, pfx="sha1"),
    "SHA256": dict(file="tlx/digest/sha256.cpp", block=64, L=8, endian="big", words=8, wbytes=4, pfx="sha256"),
    "SHA512": dict(file="tlx/digest/sha512.cpp", block=128, L=16, endian="big", words=8, wbytes=8, pfx="sha512"),
}


# ---------------------------------------------------------------- process() / finalize() on a byte model
IN_BASE, STATE_BASE, OUT_BASE, LOCAL_BASE, TABLE_BASE = 100000, 50000, 200000, 300000, 400000
LOCAL_STRIDE = 2048


def is_state_label(x):
    return isinstance(x, tuple) and len(x) == 3 and x[0] == "S"


def word_alg(op, a, b, e):
    """byte extraction from a state word that is a label: (S >> 8k) & 255 -> ("byte", S, k); anything else is data (None)"""
    if op == ">>" and isinstance(b, int) and not isinstance(b, bool) and b >= 0:
        if is_state_label(a):
            return ("shr", a, b)
        if isinstance(a, tuple) and a and a[0] == "shr":
            return ("shr", a[1], a[2] + b)
        return None
    if op == "&":
        if isinstance(a, int) and not isinstance(a, bool):
            a, b = b, a
        if isinstance(b, int) and not isinstance(b, bool) and b == 255:
            return as_byte(a)
    return None


def as_byte(v):
    """what a value is once it sits in a byte cell (truncation to the low 8 bits); None: not understood"""
    if isinstance(v, bool):
        return int(v)
    if isinstance(v, int):
        return v & 255
    if is_state_label(v):
        return ("byte", v, 0)
    if isinstance(v, tuple) and v and v[0] == "shr":
        return ("byte", v[1], v[2] // 8) if v[2] % 8 == 0 else None
    if isinstance(v, tuple) and v and v[0] in ("byte", "B", "I", "OOB", "U"):
        return v
    return None


class ClosedSkel(skel.Skel):
    """skeleton evaluation in a closed world: an assignment whose target is not understood, a call that is neither a
    recognised primitive nor a project function that can be followed, ends the evaluation with Undecidable (it is never
    skipped).  Local arrays get scratch addresses; initialiser lists and the TU's constant tables can be read."""

    def __init__(self, *a, **kw):
        skel.Skel.__init__(self, *a, **kw)
        self.nlocal = 0
        self.tables = {}
        self.unknown = self._unknown

    def store(self, key, v):
        if key is None:
            raise dtable.Undecidable("%s: assignment to a target that is not understood" % self.fn.loc)
        skel.Skel.store(self, key, v)

    def _unknown(self, e, sk):
        if "callee" in e:
            raise dtable.Undecidable("%s: call of %s() at line %s is not understood" % (self.fn.loc, e["callee"].get("name"), e.get("l")))
        if e["k"] == "DeclRefExpr" and e["ref"].get("kind") == "global" and self.tu is not None:
            q = e["ref"].get("qname")
            ts = [t for t in self.tu.tables if t["qname"] == q]
            if len(ts) == 1:
                if q not in self.tables:
                    base = TABLE_BASE + LOCAL_STRIDE * len(self.tables)
                    self.tables[q] = base
                    for i, v in enumerate(ts[0]["values"]):
                        self.env[("mem", base + i)] = None if v is None else int(v)
                return self.tables[q]
        if e["k"] in ("LambdaExpr", "CXXThrowExpr", "CXXNewExpr", "CXXDeleteExpr"):
            raise dtable.Undecidable("%s: %s at line %s is not understood" % (self.fn.loc, e["k"], e.get("l")))
        return None

    # ---- lambdas: a closure is a value (call operator + the by-copy captures at the point of the lambda expression); a call
    # of it executes the call operator's body on the same model.  `this` and by-reference captures name the enclosing
    # function's objects, which are the model's own cells, so the body works on them directly.
    def closure(self, e):
        where = "%s: lambda at line %s" % (self.fn.loc, e.get("l"))
        callee = self.tu.by_did.get(e.get("fn")) if self.tu is not None else None
        if callee is None or callee.body is None or callee.kind != "lambda":
            raise dtable.Undecidable("%s: its call operator cannot be followed" % where)
        snap = []
        for c in e.get("captures") or []:
            if c.get("name") == "this" and "id" not in c:
                if not c.get("byref"):
                    raise dtable.Undecidable("%s captures a copy of *this" % where)
                continue
            d = c.get("id")
            if d is None:
                raise dtable.Undecidable("%s: a capture is not understood" % where)
            if c.get("byref"):
                if d not in self.env and d not in self.alias:
                    raise dtable.Undecidable("%s: captures `%s`, which has no value in the evaluation" % (where, c.get("name")))
                continue
            decl = [v for v in self.fn.nodes() if v["k"] == "VarDecl" and v.get("did") == d] + [p_ for p_ in self.fn.params if p_["did"] == d]
            ty = (decl[0].get("ty") or "").rstrip() if len(decl) == 1 else "]"
            if ty.endswith("]") or ty.endswith("&") or d in self.alias or d not in self.env:
                raise dtable.Undecidable("%s: the by-copy capture of `%s` is not understood" % (where, c.get("name")))
            snap.append((d, self.env[d]))
        return ("closure", callee.did, tuple(snap))

    def call_closure(self, e, callee):
        args = [a for a in kids(e) if a is not None and a["k"] != "DefaultArg"]
        where = "%s: call of a lambda at line %s" % (self.fn.loc, e.get("l"))
        clo = self.ev(args[0]) if args else None
        if not (isinstance(clo, tuple) and len(clo) == 3 and clo[0] == "closure" and clo[1] == callee.did):
            raise dtable.Undecidable("%s: the closure object is not understood" % where)
        actual = args[1:]
        if len(actual) != len(callee.params) or self.depth >= 5 or callee.body is None:
            raise dtable.Undecidable("%s: arguments / nesting not understood" % where)
        if clo[2] and not e["callee"].get("const"):
            raise dtable.Undecidable("%s: a mutable lambda with by-copy captures" % where)
        saved_alias = dict(self.alias)
        for p_, a in zip(callee.params, actual):
            ty = (p_.get("ty") or "").rstrip()
            if ty.endswith("&"):
                key = self.lvalue(a)
                if key is not None:
                    self.alias[p_["did"]] = key
                elif ty.endswith("&&") or "const" in ty.split("<")[0]:
                    self.env[p_["did"]] = self.ev(a)
                else:
                    self.alias = saved_alias
                    raise dtable.Undecidable("%s: reference argument not understood" % where)
            else:
                self.env[p_["did"]] = self.ev(a)
        missing = object()
        outer = [(d, self.env.get(d, missing)) for d, _ in clo[2]]
        for d, v in clo[2]:
            self.env[d] = v
        self.depth += 1
        saved_fn = self.fn
        self.fn = callee
        try:
            self.run(kids(callee.body))
            ret = None
        except skel.Return as r_:
            ret = r_.v
        finally:
            self.fn = saved_fn
            self.depth -= 1
            self.alias = saved_alias
            for d, v in outer:
                if v is missing:
                    self.env.pop(d, None)
                else:
                    self.env[d] = v
        return ret

    def range_for(self, s):
        """for (T x : a) / for (T& x : a) over an array of known extent: one round per element, in index order"""
        where = "%s: range-for at line %s" % (self.fn.loc, s.get("l"))
        ch = kids(s)
        if len(ch) != 3 or isinstance(s.get("init"), dict) or ch[0] is None or ch[1] is None or ch[1]["k"] != "VarDecl" or ch[1].get("did") is None:
            raise dtable.Undecidable("%s: form not understood" % where)
        rng, var, body = ch
        m_ = re.match(r"^(?:const )?([^\[\]&*]+?) ?\[(\d+)\]$", (strip_casts(rng).get("ty") or "").strip())
        vty = (var.get("ty") or "").strip()
        byref = vty.endswith("&")
        bare = vty.rstrip("&").strip()
        bare = bare[6:] if bare.startswith("const ") else bare
        if not m_ or bare != m_.group(1).strip():
            raise dtable.Undecidable("%s: the range is not an array of known extent whose elements have the type of the loop variable" % where)
        base = self.ev(rng)
        if not isinstance(base, int) or isinstance(base, bool):
            raise dtable.Undecidable("%s: the array is not an object of the evaluation" % where)
        for i in range(int(m_.group(2))):
            if byref:
                self.alias[var["did"]] = ("mem", base + i)
            else:
                self.env[var["did"]] = self.load(("mem", base + i))
            try:
                self.stmt(body)
            except skel._Break:
                break
            except skel._Continue:
                pass
        self.alias.pop(var["did"], None)

    def stmt(self, s):
        if s is not None and s["k"] == "CXXForRangeStmt":
            return self.range_for(s)
        if s is not None and s["k"] == "DeclStmt":
            rest = []
            for v in kids(s):
                if v["k"] == "VarDecl" and (v.get("ty") or "").rstrip().endswith("]"):
                    base = LOCAL_BASE + LOCAL_STRIDE * self.nlocal
                    self.nlocal += 1
                    self.env[v["did"]] = base
                    init = strip_casts(kids(v)[0]) if kids(v) else None
                    if init is not None and init["k"] == "InitListExpr":
                        for i, x in enumerate(kids(init)):
                            self.env[("mem", base + i)] = self.ev(x)
                    elif init is not None:
                        raise dtable.Undecidable("%s: initialiser of the array %s is not understood" % (self.fn.loc, v.get("name")))
                else:
                    rest.append(v)
            if len(rest) == len(kids(s)):
                return skel.Skel.stmt(self, s)
            if rest:
                return skel.Skel.stmt(self, dict(s, ch=rest))
            return None
        return skel.Skel.stmt(self, s)


def memory_event(model, e, sk, bytewise=True):
    """the library primitives that move memory (copy / copy_n / memcpy / memmove / fill / fill_n / memset), `&a[i]`, and
    min / max that the project defines itself (followed, not trusted by name).  NotImplemented: not one of these."""
    if e["k"] == "UnaryOperator" and e.get("op") == "&":
        key = sk.lvalue(kids(e)[0])
        if isinstance(key, tuple) and key[0] == "mem" and isinstance(key[1], int):
            return key[1]
        if key is None:
            raise dtable.Undecidable("%s: address-of at line %s is not understood" % (sk.fn.loc, e.get("l")))
        return ("ptr", key)
    if e["k"] == "InitListExpr":
        # a constant array written in place (e.g. a new local table the normaliser has substituted at its use)
        cache = sk.__dict__.setdefault("initlists", {})
        if id(e) not in cache:
            base = LOCAL_BASE + LOCAL_STRIDE * sk.nlocal
            sk.nlocal += 1
            for i, x in enumerate(kids(e)):
                sk.env[("mem", base + i)] = sk.ev(x)
            cache[id(e)] = base
        return cache[id(e)]
    if e["k"] == "LambdaExpr" and isinstance(sk, ClosedSkel):
        return sk.closure(e)
    if "callee" not in e:
        return NotImplemented
    if e["k"] == "CXXOperatorCallExpr" and e.get("op") == "()" and isinstance(sk, ClosedSkel) and sk.tu is not None:
        lam = sk.tu.by_did.get(e["callee"].get("did"))
        if lam is not None and lam.kind == "lambda":
            return sk.call_closure(e, lam)
    nm = e["callee"]["name"]
    args = [a for a in kids(e) if a is not None and a["k"] != "DefaultArg"]
    if nm in ("begin", "end", "cbegin", "cend") and e["callee"].get("qname") == "std::" + nm and e["k"] == "CallExpr" and len(args) == 1 \
            and sk.tu is not None and sk.tu.by_did.get(e["callee"].get("did")) is None:
        # std::begin(a) / std::end(a) of a built-in array of known extent (one cell per element): its first cell / one past its last
        m_ = re.match(r"^(?:const )?[^\[\]&*]+?\[(\d+)\]$", (strip_casts(args[0]).get("ty") or "").strip())
        if not m_:
            raise dtable.Undecidable("%s: std::%s() at line %s of something that is not an array of known extent" % (sk.fn.loc, nm, e.get("l")))
        base = sk.ev(args[0])
        if not isinstance(base, int) or isinstance(base, bool):
            raise dtable.Undecidable("%s: std::%s() at line %s: the array is not an object of the evaluation" % (sk.fn.loc, nm, e.get("l")))
        return base + (int(m_.group(1)) if nm.endswith("end") else 0)
    if nm in ("min", "max") and len(args) == 2 and sk.tu is not None:
        callee = sk.tu.by_did.get(e["callee"].get("did"))
        if callee is not None and callee.body is not None:
            return sk.inline(e, args)
        return NotImplemented
    if nm in ("copy", "copy_n", "memcpy", "memmove", "fill", "fill_n", "memset") and len(args) == 3 and e["k"] == "CallExpr" \
            and sk.tu.by_did.get(e["callee"].get("did")) is None:
        if not bytewise and nm in ("memcpy", "memmove", "memset"):
            raise dtable.Undecidable("%s: %s() on an array of words is not modelled" % (sk.fn.loc, nm))
        v = [sk.ev(a) for a in args]
        src = val = None
        if nm == "copy":
            first, last, dst = v
            n, src = (last - first if isinstance(first, int) and isinstance(last, int) else None), first
        elif nm == "copy_n":
            src, n, dst = v
        elif nm in ("memcpy", "memmove"):
            dst, src, n = v
        elif nm == "fill":
            dst, last, val = v
            n = last - dst if isinstance(dst, int) and isinstance(last, int) else None
        elif nm == "fill_n":
            dst, n, val = v
        else:
            dst, val, n = v
        ints = lambda x: isinstance(x, int) and not isinstance(x, bool)
        if not ints(n) or not ints(dst) or n < 0 or n > 4 * model.B or (src is None and val is None) or (src is not None and not ints(src)):
            raise dtable.Undecidable("%s: %s() at line %s with arguments that are not understood" % (sk.fn.loc, nm, e.get("l")))
        vals = [sk.load(("mem", src + i)) for i in range(n)] if src is not None else [val] * n
        for i in range(n):
            sk.store(("mem", dst + i), vals[i])
        return dst + n if nm in ("copy", "copy_n", "fill_n") else (dst if nm != "fill" else None)
    return NotImplemented


class DigestModel:
    """process()/finalize() of one digest evaluated on a model: sizes and positions are small concrete integers, the
    bytes are labels (("B", i): byte i of the buffer before the call, ("I", i): byte i of the input, ("S", w, g): state word w
    after g compressions).  The compress calls are observed, not executed: each consumes the block it is given.  Everything
    else is executed statement by statement (store helpers, copy loops, private helpers); what cannot be executed ends the
    evaluation with Undecidable."""

    def __init__(self, tu, fn, info, curlen0, size0=0, length0=0):
        self.tu, self.fn, self.info = tu, fn, info
        self.B = info["block"]
        self.size0 = size0
        self.blocks = []         # [(kind, [labels], address)]
        self.sk = None
        self.curlen0, self.length0 = curlen0, length0

    def mem_default(self, a):
        if 0 <= a < self.B:
            return ("B", a)
        if IN_BASE <= a < IN_BASE + self.size0:
            return ("I", a - IN_BASE)
        if STATE_BASE <= a < STATE_BASE + self.info["words"]:
            return ("S", a - STATE_BASE, len(self.blocks))
        if LOCAL_BASE <= a < TABLE_BASE:
            return ("U", a)
        return ("OOB", a)

    def event(self, e, sk):
        if "callee" in e:
            nm = e["callee"]["name"]
            args = [a for a in kids(e) if a is not None and a["k"] != "DefaultArg"]
            if nm.endswith("_compress") and len(args) == 2 and e["k"] == "CallExpr":
                st, p = sk.ev(args[0]), sk.ev(args[1])
                if not isinstance(p, int) or isinstance(p, bool) or st != STATE_BASE:
                    raise dtable.Undecidable("%s: state / block handed to %s at line %s not understood" % (self.fn.loc, nm, e.get("l")))
                self.blocks.append(("direct" if IN_BASE <= p < LOCAL_BASE else "buffer", [sk.load(("mem", p + i)) for i in range(self.B)], p))
                return None
        return memory_event(self, e, sk)

    def run(self, params):
        env = {("field", "curlen_"): self.curlen0, ("field", "length_"): self.length0, ("field", "buf_"): 0, ("field", "state_"): STATE_BASE}
        env.update(params)
        self.sk = ClosedSkel(self.fn, env, None, self.event, mem_default=self.mem_default, max_iter=8 * self.B)
        self.sk.alg = word_alg
        self.diverged = None
        try:
            self.sk.run(kids(self.fn.body))
        except skel.Return:
            pass
        except (TypeError, KeyError, IndexError) as t:
            # arithmetic on something that is not a number of the model (a pointer to a member, a label ...)
            raise dtable.Undecidable("%s: a value of the evaluation is used in a way that is not understood (%s)" % (self.fn.loc, t))
        except skel.Diverges as d:
            self.diverged = d.loop
        except skel.TooLong as d:
            # 8 * block rounds for at most 3 * block bytes: a loop that consumes a byte per round (or per two) has long ended
            self.diverged = d.loop
        return self.sk

    def stray_writes(self, allowed):
        """addresses written that are neither in one of the allowed ranges nor a local array of the function"""
        return sorted(key[1] for key in self.sk.env if isinstance(key, tuple) and key[0] == "mem" and isinstance(key[1], int)
                      and not any(lo <= key[1] < hi for lo, hi in allowed) and not (LOCAL_BASE <= key[1] < TABLE_BASE + 64 * LOCAL_STRIDE))


def understood(where, what, v):
    """a value the verdict rests on must be a concrete integer of the model"""
    if not isinstance(v, int) or isinstance(v, bool):
        raise dtable.Undecidable("%s: %s is not a value the evaluation understands (%r)" % (where, what, v))
    return v


def check_process(ck, tu, name, info):
    """PROCESS-STREAM / PROCESS-CONSERVE: for buffer fills {0, 1, B/2, B-1} and input sizes {0, 1, B-1, B, B+1, 2B, 2B+5, 3B-1}
    the blocks handed to the compression function are, in order, the bytes buffered before followed by the input, cut
    into blocks; what is left is in buf_[0, curlen_); length_ grows by 8 * block per compressed block; nothing is written
    outside buf_.  Every verdict is a concrete (fill, size) case of the evaluation; a value the evaluation does not
    understand is never counted as a wrong value."""
    fns = [f for f in tu.find(qname="tlx::%s::process" % name) if len(f.params) == 2 and f.body is not None]
    ck.require(len(fns) == 1, "%s: process(data, size) not found" % name)
    fn = fns[0]
    B = info["block"]
    bad = None
    ncases = 0
    def case(curlen0, size0):
        m = DigestModel(tu, fn, info, curlen0, size0, length0=8 * B * 7)
        sk = m.run({fn.params[0]["did"]: IN_BASE, fn.params[1]["did"]: size0})
        want = [("B", i) for i in range(curlen0)] + [("I", i) for i in range(size0)]
        k = len(want) // B
        where = "buffer fill %d, input of %d bytes" % (curlen0, size0)
        uwhere = "%s (%s)" % (fn.loc, where)
        if m.diverged is not None:
            return ("PROCESS-STREAM", "for %s the chunk loop at line %s does not end (same state again, or more than 8 x block rounds): process() does not return"
                   % (where, m.diverged.get("l")))
        got = [as_byte(x) for _, blk, _ in m.blocks for x in blk]
        cur = sk.env.get(("field", "curlen_"))
        ln = sk.env.get(("field", "length_"))
        oob = m.stray_writes([(0, B)])
        if oob:
            return ("PROCESS-STREAM", "write outside buf_ (offset %d) for %s" % (min(oob), where))
        elif got != want[:k * B]:
            i = next((j for j in range(min(len(got), k * B)) if got[j] != want[j]), min(len(got), k * B))
            if i < len(got) and got[i] is None:
                raise dtable.Undecidable("%s: byte %d handed to the compression function is not understood" % (uwhere, i))
            return ("PROCESS-STREAM", "for %s the compression function receives %d blocks; byte %d of that stream is %s, it must be %s "
                   "(buffered bytes first, then the input, in order, whole blocks only)"
                   % (where, len(m.blocks), i, lab(got[i]) if i < len(got) else "missing", lab(want[i]) if i < k * B else "nothing"))
        elif understood(uwhere, "curlen_ after the call", cur) != len(want) - k * B:
            return ("PROCESS-STREAM", "for %s curlen_ is %s afterwards, %d bytes remain unhashed" % (where, cur, len(want) - k * B))
        elif [as_byte(sk.load(("mem", i))) for i in range(len(want) - k * B)] != want[k * B:]:
            rest = [as_byte(sk.load(("mem", i))) for i in range(len(want) - k * B)]
            if any(x is None for x in rest):
                raise dtable.Undecidable("%s: a byte left in buf_ is not understood" % uwhere)
            return ("PROCESS-STREAM", "for %s the bytes left in buf_ are not the unhashed tail of the input" % where)
        elif understood(uwhere, "length_ after the call", ln) != 8 * B * 7 + 8 * B * k:
            return ("PROCESS-CONSERVE", "for %s length_ grows by %s bits, %d blocks of %d bytes were hashed: the length hashed into the padding is wrong"
                   % (where, ln - 8 * B * 7, k, B))
        return None
    undecided = None
    for curlen0 in (0, 1, B // 2, B - 1):
        for size0 in (0, 1, B - 1, B, B + 1, 2 * B, 2 * B + 5, 3 * B - 1):
            if bad is None:
                ncases += 1
                try:
                    bad = case(curlen0, size0)
                except dtable.Undecidable as u:
                    undecided = undecided or u
    if undecided is not None and not bad:
        raise undecided         # (a defect shown by a case that is understood completely stands on its own)
    if bad:
        ck.violation(bad[0], fn.qname, name + ":process", bad[1], fn.loc)
    else:
        ck.ok("PROCESS-STREAM", name + "::process", "%d (fill, size) cases: compressed blocks == (buffered ++ input) cut into blocks, rest in buf_[0, curlen_)" % ncases,
              sample=dict(rule="PROCESS-STREAM", digest=name, cases=ncases))
        ck.ok("PROCESS-CONSERVE", name + "::process", "length_ grows by 8 * %d per compressed block in all %d cases" % (B, ncases))


def lab(x):
    if isinstance(x, tuple) and x and x[0] == "byte":
        return "byte %s of state word %s" % (x[2], x[1][1] if isinstance(x[1], tuple) and len(x[1]) > 1 else x[1])
    if isinstance(x, tuple) and len(x) >= 2:
        return {"B": "buffered byte %s", "I": "input byte %s", "OOB": "memory outside buffer and input (%s)", "U": "an uninitialised local byte (%s)",
                "S": "state word %s"}.get(x[0], str(x[0]) + " %s") % (x[1],)
    return repr(x)


def check_finalize(ck, tu, name, info):
    """FINAL-THRESHOLDS: finalize() evaluated for every buffer fill 0 .. B-1 (store helpers, fill loops and private
    helpers are executed, whatever their form): the blocks compressed are exactly buffered bytes ++ 0x80 ++ zeros ++ bit
    length (L bytes, the digest's byte order), one block if it fits and two otherwise; the digest is the state words after
    the last compression, in the digest's byte order."""
    fn = tu.one(qname="tlx::%s::finalize" % name)
    ck.require(len(fn.params) == 1 and fn.body is not None, "%s: finalize(digest) not found" % name)
    B, L = info["block"], info["L"]
    bad = None
    LEN0 = 8 * B * 5
    def case(curlen0):
        m = DigestModel(tu, fn, info, curlen0, 0, length0=LEN0)
        sk = m.run({fn.params[0]["did"]: OUT_BASE})
        bits = LEN0 + 8 * curlen0
        lenbytes = [(bits >> (8 * (L - 1 - j))) & 255 for j in range(L)]
        if info["endian"] == "little":
            lenbytes = lenbytes[::-1]
        nblk = 1 if curlen0 + 1 + L <= B else 2
        want = [("B", i) for i in range(curlen0)] + [0x80]
        want += [0] * (nblk * B - L - len(want)) + lenbytes
        where = "%d buffered bytes" % curlen0
        uwhere = "%s (%s)" % (fn.loc, where)
        if m.diverged is not None:
            return ("hang", "with %s a loop of finalize() does not end (same state again, or more than 8 x block rounds)" % where)
        got = [as_byte(x) for _, blk, _ in m.blocks for x in blk]
        oob = m.stray_writes([(0, B), (OUT_BASE, OUT_BASE + info["words"] * info["wbytes"])])
        if oob:
            return ("overflow", "with %s finalize writes outside buf_ / the digest (offset %d)" % (where, min(oob)))
        if len(m.blocks) != nblk:
            return ("threshold", "with %s finalize compresses %d block(s); the 0x80 byte and the %d-byte length field need %d"
                          % (where, len(m.blocks), L, nblk))
        if got != want:
            i = next(j for j in range(len(want)) if got[j] != want[j])
            if got[i] is None:
                raise dtable.Undecidable("%s: byte %d of the final block(s) is not understood" % (uwhere, i))
            what = "padding" if i < nblk * B - L else "length field"
            return (what.replace(" ", "-"), "with %s byte %d of the final block(s) is %s, the %s needs %s (length %d bits, %s-endian in the last %d bytes)"
                          % (where, i, lab(got[i]), what, lab(want[i]), bits, info["endian"], L))
        out = [as_byte(sk.load(("mem", OUT_BASE + i))) for i in range(info["words"] * info["wbytes"])]
        wb = info["wbytes"]
        wout = [("byte", ("S", w, nblk), (wb - 1 - j) if info["endian"] == "big" else j) for w in range(info["words"]) for j in range(wb)]
        if out != wout:
            i = next(j for j in range(len(wout)) if out[j] != wout[j])
            if out[i] is None:
                raise dtable.Undecidable("%s: digest byte %d is not understood" % (uwhere, i))
            if isinstance(out[i], tuple) and out[i][0] == "byte" and out[i][1][:2] == wout[i][1][:2] and out[i][2] == wout[i][2]:
                return ("output-early", "digest byte %d is taken from the state after %d of %d compressions: the digest is written before the last block was compressed"
                              % (i, out[i][1][2], nblk))
            else:
                return ("output", "digest byte %d is %s; %s writes %d state words of %d bytes, %s-endian" % (i, lab(out[i]), name, info["words"], wb, info["endian"]))
        return None
    undecided = None
    for curlen0 in range(B):
        try:
            bad = bad or case(curlen0)
        except dtable.Undecidable as u:
            undecided = undecided or u
    if undecided is not None and not bad:
        raise undecided         # (a defect shown by a case that is understood completely stands on its own)
    if bad:
        ck.violation("FINAL-THRESHOLDS", fn.qname, name + ":" + bad[0], bad[1], fn.loc)
    else:
        ck.ok("FINAL-THRESHOLDS", name + "::finalize", "all %d buffer fills: blocks == buffered ++ 0x80 ++ zeros ++ %d-byte %s-endian bit length (extra block iff fill > %d); "
              "digest == %d state words of %d bytes, %s-endian, after the last compression" % (B, L, info["endian"], B - L - 1, info["words"], info["wbytes"], info["endian"]))


HEX_CASE = {"hexdump": "uc", "hexdump_type": "uc", "hexdump_lc": "lc", "hexdump_lc_type": "lc"}
MAXC = 3


def _plus(a, b):
    return {min(x + y, MAXC) for x in a for y in b}


class CallCounter:
    """how often a call of one kind happens on the paths through a function: the set of possible counts (capped at 3).
    Project functions with a body are followed; branches contribute the union of their arms (a path may be infeasible,
    so a verdict is only drawn from what holds on EVERY path); a loop around a counted call is not understood."""

    def __init__(self, tu, is_target, leaf=lambda c: False):
        self.tu, self.is_target, self.leaf = tu, is_target, leaf
        self.stack = []
        self.consts = {}        # parameters of a followed helper that were given compile-time constants
        self.opaque = []        # calls that could neither be classified nor followed
        self.foreign = False    # a counted / followed member call is made on an object other than *this
        self.selfrefs = set()   # reference / pointer parameters of the followed helper that are bound to *this / this

    def self_obj(self, e):
        """the expression names the object the examined member function was called on: this, *this, &*this, or a reference /
        pointer parameter of the followed helper that was given one of these (and cannot have been re-seated)"""
        e = strip_casts(e)
        while e is not None and e["k"] == "ParenExpr" and kids(e):
            e = strip_casts(kids(e)[0])
        if e is None:
            return False
        if e["k"] == "This":
            return True
        if e["k"] == "UnaryOperator" and e.get("op") in ("*", "&") and kids(e):
            return self.self_obj(kids(e)[0])
        return e["k"] == "DeclRefExpr" and e["ref"].get("id") in self.selfrefs

    def known(self, e):
        """truth value of a branch condition that only depends on constant arguments of the followed helper, else None"""
        e = strip_casts(e)
        while e is not None and e["k"] == "ParenExpr" and kids(e):
            e = strip_casts(kids(e)[0])
        if e is None:
            return None
        c = const_int(e)
        if c is not None:
            return c
        if e["k"] == "DeclRefExpr":
            return self.consts.get(e["ref"]["id"])
        if e["k"] == "UnaryOperator" and e.get("op") == "!":
            v = self.known(kids(e)[0])
            return None if v is None else int(not v)
        b = match.binop(e, ("==", "!="))
        if b and e["k"] == "BinaryOperator":
            l, r = self.known(b[1]), self.known(b[2])
            if l is not None and r is not None:
                return int((l == r) == (b[0] == "=="))
        return None

    def enter(self, e, callee):
        """binds the parameters of a followed helper that get compile-time constants (and are never written); -> what to restore"""
        args = [a for a in kids(e) if a is not None]
        if e.get("member_call"):
            args = args[1:]
        saved = (dict(self.consts), self.selfrefs)
        bound = set()
        written = {ref_of(kids(x)[0]) for x in callee.nodes() if x["k"] in ("BinaryOperator", "CompoundAssignOperator", "UnaryOperator")
                   and (x.get("op") in ("++", "--") or x.get("op", "").endswith("=") and x.get("op") not in ("==", "!=", "<=", ">=")) and kids(x)}
        if len(args) == len(callee.params):
            for p_, a in zip(callee.params, args):
                v = self.known(a)
                if v is not None and p_["did"] not in written and "&" not in (p_.get("ty") or ""):
                    self.consts[p_["did"]] = v
                ty = (p_.get("ty") or "").rstrip()
                if ((ty.endswith("&") and not ty.endswith("&&")) or (ty.endswith("*") and p_["did"] not in written)) and self.self_obj(a):
                    bound.add(p_["did"])
        self.selfrefs = bound
        return saved

    def leave(self, saved):
        self.consts, self.selfrefs = saved

    def returned_cases(self, fn, depth=0):
        """the kinds of value the feasible return statements hand out: 'uc' / 'lc' (a hexdump call of that case, directly
        or through a followed helper), '?' anything else"""
        out = set()

        def visit(s):
            """-> True if every path through s ends in a return"""
            if s is None or s["k"] == "LambdaExpr":
                return False
            if s["k"] == "CompoundStmt":
                for c in kids(s):
                    if visit(c):
                        return True
                return False
            if s["k"] == "IfStmt":
                v = self.known(kids(s)[0])
                els = kids(s)[2] if len(kids(s)) > 2 else None
                if v is not None:
                    return visit(kids(s)[1] if v else els)
                a, b = visit(kids(s)[1]), visit(els)
                return a and b
            if s["k"] == "ReturnStmt":
                out.update(self.value_cases(kids(s)[0] if kids(s) else None, fn, depth))
                return True
            for c in kids(s):
                visit(c)
            return False
        visit(fn.body)
        return out

    def value_cases(self, e, fn, depth=0):
        """the kinds of hex string an expression of fn yields: 'uc' / 'lc' (a hexdump call of that case, directly, through a
        followed helper, or held in a local string that is only case-converted as a whole before it is read), '?' anything else"""
        e = strip_tmp(e)
        if e is not None and e["k"] == "ConditionalOperator" and self.known(kids(e)[0]) is not None:
            e = strip_tmp(kids(e)[1] if self.known(kids(e)[0]) else kids(e)[2])
        if e is not None and "callee" in e:
            c = e["callee"]
            if c.get("name") in HEX_CASE and not c.get("record"):
                return {HEX_CASE[c["name"]]}
            callee = self.tu.by_did.get(c.get("did"))
            if callee is not None and callee.body is not None and depth < 4 and not (c.get("name") or "").startswith("hexdump"):
                saved = self.enter(e, callee)
                try:
                    return self.returned_cases(callee, depth + 1) or {"?"}
                finally:
                    self.leave(saved)
        if e is not None and e["k"] == "DeclRefExpr" and e["ref"].get("kind") == "local":
            return {self.local_case(e, fn, depth)}
        return {"?"}

    HEXDIGITS = {"uc": "0123456789ABCDEF", "lc": "0123456789abcdef"}

    def local_case(self, ref, fn, depth):
        """case of the hex string a local std::string holds where `ref` (the operand of a top-level return) reads it.  Closed
        world: the local is declared at the top level of the body with a value of known case, and every other mention of
        it is a whole-string case conversion at the top level between declaration and return (std::transform over
        [begin, end) onto itself, or a range-for assigning every character), whose character function is evaluated on the
        16 digits.  Anything else: '?'."""
        d = ref["ref"]["id"]
        tops = kids(fn.body) if fn.body is not None and fn.body["k"] == "CompoundStmt" else []
        decls = [v for v in fn.nodes() if v["k"] == "VarDecl" and v.get("did") == d]
        if len(decls) != 1 or ir._bare(decls[0].get("ty")) != "std::basic_string<char>" or (decls[0].get("ty") or "").rstrip().endswith("&"):
            return "?"
        for y in fn.nodes():
            if y["k"] == "LambdaExpr" and any(c.get("id") == d for c in y.get("captures") or []):
                return "?"
        mentions = {id(y) for y in fn.nodes() if y["k"] == "DeclRefExpr" and y["ref"]["id"] == d}
        cur, state = None, "before"
        for t in tops:
            inside = {id(y) for y in ir.walk(t)} & mentions
            if state == "before":
                if t is not None and t["k"] == "DeclStmt" and any(v is decls[0] for v in kids(t)):
                    if inside or len(kids(decls[0])) != 1:
                        return "?"
                    cs = self.value_cases(kids(decls[0])[0], fn, depth)
                    if len(cs) != 1 or cs == {"?"}:
                        return "?"
                    cur, state = next(iter(cs)), "live"
                elif inside:
                    return "?"
                continue
            if not inside:
                continue
            if t["k"] == "ReturnStmt" and kids(t) and strip_tmp(kids(t)[0]) is ref and inside == {id(ref)}:
                mentions -= inside
                return cur if not mentions else "?"
            conv = self.case_conversion(t, d, fn)
            if conv is None or conv[1] != inside:
                return "?"
            mentions -= inside
            got = [conv[0](ord(ch)) for ch in self.HEXDIGITS[cur]]
            cur = next((k_ for k_, dg in self.HEXDIGITS.items() if got == [ord(ch) for ch in dg]), None)
            if cur is None:
                return "?"
        return "?"

    def case_conversion(self, t, d, fn):
        """(character function, ids of the mentions of the string it accounts for) if the statement t replaces every
        character c of the local string d by f(c); None otherwise"""
        def is_d(x):
            x = strip_tmp(x)
            return x is not None and x["k"] == "DeclRefExpr" and x["ref"]["id"] == d

        def edge(x, names):
            x = strip_tmp(x)
            if x is not None and "callee" in x and x.get("member_call") and x["callee"].get("name") in names and len(kids(x)) == 1 and is_d(kids(x)[0]) \
                    and (x["callee"].get("record") or "").startswith("std::basic_string"):
                return strip_tmp(kids(x)[0])
            return None

        def toupper_like(c):
            return c.get("name") in ("toupper", "tolower") and c.get("qname") in ("toupper", "tolower", "std::toupper", "std::tolower") \
                and self.tu.by_did.get(c.get("did")) is None

        def event(e, sk):
            if "callee" in e and e["k"] == "CallExpr" and toupper_like(e["callee"]):
                a = [x for x in kids(e) if x is not None and x["k"] != "DefaultArg"]
                v = sk.ev(a[0]) if len(a) == 1 else None
                if isinstance(v, int) and not isinstance(v, bool) and 0 <= v < 128:
                    return ord(chr(v).upper() if e["callee"]["name"] == "toupper" else chr(v).lower())
                raise dtable.Undecidable("%s: %s() of a value that is not understood" % (fn.loc, e["callee"]["name"]))
            return NotImplemented

        def run_on(owner, bind, stmts, result):
            def f(ch):
                sk = ClosedSkel(owner, {bind: ch}, None, event, max_iter=16)
                try:
                    sk.run(stmts)
                    v = sk.env.get(result) if result is not None else None
                except skel.Return as r_:
                    v = r_.v if result is None else None
                except (dtable.Undecidable, skel.Diverges, TypeError, KeyError, IndexError):
                    return None
                return v if isinstance(v, int) and not isinstance(v, bool) else None
            return f
        e = strip_tmp(t)
        if e is not None and "callee" in e and e["k"] == "CallExpr" and e["callee"].get("name") == "transform" and e["callee"].get("qname") == "std::transform":
            a = [x for x in kids(e) if x is not None and x["k"] != "DefaultArg"]
            if len(a) != 4:
                return None
            m0, m1, m2 = edge(a[0], ("begin",)), edge(a[1], ("end",)), edge(a[2], ("begin",))
            if m0 is None or m1 is None or m2 is None:
                return None
            f = strip_passed(a[3])
            acc = {id(m0), id(m1), id(m2)}
            if f is not None and f["k"] == "LambdaExpr" and not f.get("captures"):
                lam = self.tu.by_did.get(f.get("fn"))
                if lam is not None and lam.body is not None and len(lam.params) == 1 and not (lam.params[0].get("ty") or "").rstrip().endswith("&"):
                    return run_on(lam, lam.params[0]["did"], kids(lam.body), None), acc
                return None
            if f is not None and f["k"] == "DeclRefExpr" and toupper_like(dict(f["ref"], did=f["ref"].get("id"))) and f["ref"].get("kind") == "fn" \
                    and (f.get("ty") or "").startswith("int (int)"):
                up = f["ref"]["name"] == "toupper"
                return (lambda ch: ord(chr(ch).upper() if up else chr(ch).lower()) if 0 <= ch < 128 else None), acc
            return None
        if e is not None and e["k"] == "CXXForRangeStmt" and len(kids(e)) == 3 and not isinstance(e.get("init"), dict):
            rng, var, body = kids(e)
            if is_d(rng) and var is not None and var["k"] == "VarDecl" and (var.get("ty") or "").strip() == "char &" and body is not None:
                if any(y["k"] in ("BreakStmt", "ContinueStmt", "ReturnStmt", "GotoStmt") for y in ir.walk(body)):
                    return None
                return run_on(fn, var["did"], [body], var["did"]), {id(strip_tmp(rng))}
        return None

    def fn_counts(self, fn):
        if fn.did in self.stack or len(self.stack) > 6:
            raise dtable.Undecidable("%s: recursion while counting calls" % fn.loc)
        self.stack.append(fn.did)
        try:
            tot = {0}
            for i in fn.inits:
                if i.get("e"):
                    tot = _plus(tot, self.expr(i["e"]))
            ft, rt = self.stmt(fn.body)
            return _plus(tot, ft | rt)
        finally:
            self.stack.pop()

    def expr(self, e):
        if e is None:
            return {0}
        k = e["k"]
        if k in ("VarDecl",):
            tot = {0}
            for c in kids(e):
                tot = _plus(tot, self.expr(c))
            return tot
        if k == "ConditionalOperator" and len(kids(e)) == 3:
            v = self.known(kids(e)[0])
            if v is not None:
                return _plus(self.expr(kids(e)[0]), self.expr(kids(e)[1] if v else kids(e)[2]))
            return _plus(self.expr(kids(e)[0]), self.expr(kids(e)[1]) | self.expr(kids(e)[2]))
        if k == "BinaryOperator" and e.get("op") in ("&&", "||"):
            return _plus(self.expr(kids(e)[0]), {0} | self.expr(kids(e)[1]))
        if k == "LambdaExpr":
            if any(self.is_target(x["callee"]) for x in ir.walk(e) if "callee" in x):
                raise dtable.Undecidable("a counted call inside a lambda at line %s" % e.get("l"))
            return {0}
        tot = {0}
        for c in kids(e):
            tot = _plus(tot, self.expr(c))
        if "callee" in e:
            c = e["callee"]
            if e.get("member_call") and (self.is_target(c) or self.tu.by_did.get(c.get("did")) is not None) and \
                    not (kids(e) and self.self_obj(kids(e)[0])):
                self.foreign = True
            if self.is_target(c):
                tot = _plus(tot, {1})
            elif not self.leaf(c):
                callee = self.tu.by_did.get(c.get("did"))
                if callee is not None and callee.body is not None:
                    saved = self.enter(e, callee)
                    try:
                        tot = _plus(tot, self.fn_counts(callee))
                    finally:
                        self.leave(saved)
                elif not (c.get("qname") or "").startswith("std::") and not (c.get("record") or "").startswith("std::"):
                    self.opaque.append(c.get("qname") or c.get("name"))
        return tot

    def stmt(self, s):
        """(counts at fall-through, counts at a return)"""
        if s is None:
            return {0}, set()
        k = s["k"]
        if k == "CompoundStmt":
            cur, rets = {0}, set()
            for x in kids(s):
                ft, rt = self.stmt(x)
                rets |= _plus(cur, rt) if rt else set()
                cur = _plus(cur, ft) if ft else set()
                if not cur:
                    break
            return cur, rets
        if k == "IfStmt":
            c = self.expr(kids(s)[0])
            for key in ("init", "condvar"):
                if isinstance(s.get(key), dict):
                    c = _plus(c, self.expr(s[key]))
            v = self.known(kids(s)[0])
            f1, r1 = self.stmt(kids(s)[1]) if v is None or v else (set(), set())
            f2, r2 = (self.stmt(kids(s)[2]) if len(kids(s)) > 2 and kids(s)[2] is not None else ({0}, set())) if v is None or not v else (set(), set())
            return (_plus(c, f1 | f2) if (f1 | f2) else set()), (_plus(c, r1 | r2) if (r1 | r2) else set())
        if k == "ReturnStmt":
            return set(), (self.expr(kids(s)[0]) if kids(s) else {0})
        if k == "DeclStmt":
            tot = {0}
            for v in kids(s):
                tot = _plus(tot, self.expr(v))
            return tot, set()
        if k in ("ForStmt", "WhileStmt", "DoStmt", "CXXForRangeStmt", "SwitchStmt", "CXXTryStmt", "LabelStmt", "GotoStmt", "AttributedStmt"):
            tot = {0}
            for x in kids(s):
                if x is None:
                    continue
                f, r = self.stmt(x)
                tot = _plus(tot, f | r | {0})
            if tot != {0}:
                raise dtable.Undecidable("a counted call inside a %s at line %s" % (k, s.get("l")))
            has_ret = any(x["k"] == "ReturnStmt" for x in ir.walk(s))
            return {0}, ({0} if has_ret else set())
        if k in ("BreakStmt", "ContinueStmt", "NullStmt"):
            return {0}, set()
        return self.expr(s), set()


def strip_tmp(e):
    """looks through the temporaries, cleanups, casts and copy/move constructions around a returned / passed value"""
    while e is not None:
        e = strip_casts(e)
        if e is not None and e["k"] in ("ExprWithCleanups", "MaterializeTemporaryExpr", "CXXBindTemporaryExpr", "ParenExpr", "ConstantExpr") and kids(e):
            e = kids(e)[0]
        elif e is not None and e["k"] == "CXXConstructExpr" and len(kids(e)) == 1 and ir._bare(kids(e)[0].get("ty")) == ir._bare(e.get("ty")):
            e = kids(e)[0]
        else:
            break
    return e


def strip_passed(e):
    """strip_tmp, and through the converting constructions / conversion operators an argument goes through"""
    while True:
        e = strip_tmp(e)
        if e is not None and e["k"] in ("CXXConstructExpr", "CXXTemporaryObjectExpr", "CXXFunctionalCastExpr") and len(kids(e)) == 1:
            e = kids(e)[0]
        elif e is not None and e["k"] == "CXXMemberCallExpr" and len(kids(e)) == 1 and (e["callee"].get("name") or "").startswith("operator "):
            e = kids(e)[0]
        else:
            return e


def check_frontends(ck, tu, name, info):
    """HEX-FRONTENDS.  digest_hex / digest_hex_uc: on every path exactly one finalize and one hexdump of the right case.
    A violation needs a path-independent fact (every path prints with the other case / finalizes twice / never finalizes
    although every call was followed); anything else that is not the expected picture is `cannot decide`."""
    pfx = info["pfx"]
    rec = "tlx::" + name
    for meth, want in (("digest_hex", "lc"), ("digest_hex_uc", "uc")):
        fn = tu.one(qname="tlx::%s::%s" % (name, meth))
        ck.require(fn.body is not None, "%s: no body" % fn.qname)
        is_hex = lambda c: (c.get("name") or "").startswith("hexdump")
        fin_c = CallCounter(tu, lambda c: c.get("name") == "finalize" and c.get("record") == rec, leaf=is_hex)
        fin = fin_c.fn_counts(fn)
        good = CallCounter(tu, lambda c: HEX_CASE.get(c.get("name")) == want and not c.get("record"), leaf=is_hex).fn_counts(fn)
        wrong = CallCounter(tu, lambda c: HEX_CASE.get(c.get("name")) not in (None, want) and not c.get("record"), leaf=is_hex).fn_counts(fn)
        other = CallCounter(tu, lambda c: is_hex(c) and c.get("name") not in HEX_CASE, leaf=is_hex).fn_counts(fn)
        wname = "hexdump_lc" if want == "lc" else "hexdump"
        # the wrong-case print is what the caller gets: every return statement hands out such a call directly
        returned = fin_c.returned_cases(fn)
        wrong_returned = returned == {"uc" if want == "lc" else "lc"}
        if fin_c.foreign:
            raise dtable.Undecidable("%s: %s finalizes / prints an object other than *this" % (fn.loc, meth))
        if fin == {1} and good == {1} and wrong == {0} and other == {0}:
            ck.ok("HEX-FRONTENDS", "%s::%s" % (name, meth), "finalize then " + wname, nontrivial=False)
        elif fin == {1} and other == {0} and returned == {want}:
            # exactly one finalize on every path, and every return statement hands out a hexdump that has the wanted case where
            # it is returned (printed in the other case and converted as a whole on the way)
            ck.ok("HEX-FRONTENDS", "%s::%s" % (name, meth), "finalize once; every return hands out a hexdump that is in %s case where it is returned"
                  % ("lower" if want == "lc" else "upper"), nontrivial=False)
        elif good == {0} and other == {0} and min(wrong) >= 1 and wrong_returned:
            ck.violation("HEX-FRONTENDS", fn.qname, "%s:%s" % (name, meth), "%s must finalize once and print with %s (every path returns the %s-case hexdump instead)"
                         % (meth, wname, "upper" if want == "lc" else "lower"), fn.loc)
        elif min(fin) >= 2:
            ck.violation("HEX-FRONTENDS", fn.qname, "%s:%s" % (name, meth), "%s must finalize once and print with %s (every path calls finalize at least twice: "
                         "the second padding is hashed into the digest)" % (meth, wname), fn.loc)
        elif fin == {0} and not fin_c.opaque and good | wrong != {0}:
            ck.violation("HEX-FRONTENDS", fn.qname, "%s:%s" % (name, meth), "%s must finalize once and print with %s (no path calls finalize; every call was followed)"
                         % (meth, wname), fn.loc)
        else:
            raise dtable.Undecidable("%s: %s: finalize count on the paths %s, %s count %s, other hexdump count %s - not the shape understood"
                                     % (fn.loc, meth, sorted(fin), wname, sorted(good), sorted(wrong | other)))
    known_meths = ("digest", "digest_hex", "digest_hex_uc")
    for free, meth in ((pfx + "_hex", "digest_hex"), (pfx + "_hex_uc", "digest_hex_uc")):
        overloads = tu.find(qname="tlx::" + free)
        for fn in overloads:
            if fn.body is None:
                continue
            where = "%s/%d" % (free, len(fn.params))
            verdict = frontend_free(tu, fn, rec, meth, known_meths, free, pfx)
            if verdict[0] == "ok":
                ck.ok("HEX-FRONTENDS", where, verdict[1], nontrivial=False)
            elif verdict[0] == "bad":
                ck.violation("HEX-FRONTENDS", fn.qname, where, "%s must hash its arguments and return %s() (%s)" % (free, meth, verdict[1]), fn.loc)
            else:
                raise dtable.Undecidable("%s: %s: %s" % (fn.loc, free, verdict[1]))


def frontend_free(tu, fn, rec, meth, known_meths, free, pfx):
    """('ok' | 'bad' | 'unknown', text) for one md5_hex-like free function"""
    pids = [p["did"] for p in fn.params]
    used = {x["ref"]["id"] for x in fn.nodes() if x["k"] == "DeclRefExpr"}
    unused = [p["name"] for p in fn.params if p["did"] not in used]
    if unused:
        return "bad", "the parameter `%s` is never used: the result cannot depend on it" % unused[0]

    def arg_params(args):
        """parameter ids the arguments are, in order: p | T(p) | p.data() / p.size() of one parameter"""
        out = []
        for a in args:
            a = match.strip_conv(a)
            if a is None or a["k"] == "DefaultArg":
                continue
            d = ref_of(a)
            if d is None and "callee" in a and a.get("member_call") and a["callee"]["name"] in ("data", "size", "length") and len(kids(a)) == 1:
                d = ref_of(match.strip_conv(kids(a)[0]))
                if d is not None:
                    d = (d, a["callee"]["name"])
            out.append(d)
        return out

    def covers(args):
        got = arg_params(args)
        if got == pids:
            return True
        # (p.data(), p.size()) of the single parameter
        return len(pids) == 1 and len(got) == 2 and got[0] == (pids[0], "data") and got[1] in ((pids[0], "size"), (pids[0], "length"))

    calls = [x for x in fn.nodes() if "callee" in x]
    ms = [x for x in calls if x.get("member_call") and x["callee"].get("record") == rec and x["callee"]["name"] in known_meths]
    rets = [x for x in fn.nodes() if x["k"] == "ReturnStmt"]

    def returned(call):
        return len(rets) == 1 and kids(rets[0]) and strip_tmp(kids(rets[0])[0]) is call
    want_case = "uc" if meth.endswith("_uc") else "lc"
    if len(ms) == 1:
        if ms[0]["callee"]["name"] == "digest":
            # hexdump[_lc](T(args).digest()) prints the raw digest itself
            wraps = [x for x in calls if not x.get("member_call") and x["callee"].get("name") in HEX_CASE and
                     any(strip_passed(a) is ms[0] for a in kids(x) if a is not None)]
            if len(wraps) != 1 or not returned(wraps[0]):
                return "unknown", "the raw digest() is not handed to a hexdump that is returned"
            if HEX_CASE[wraps[0]["callee"]["name"]] != want_case:
                return "bad", "returns %s(digest())" % wraps[0]["callee"]["name"]
        elif ms[0]["callee"]["name"] != meth:
            if returned(ms[0]):
                return "bad", "returns %s()" % ms[0]["callee"]["name"]
            return "unknown", "calls %s() and does something with the result" % ms[0]["callee"]["name"]
        obj = kids(ms[0])[0] if kids(ms[0]) else None
        while obj is not None and obj["k"] in ("ImplicitCastExpr", "CXXFunctionalCastExpr", "MaterializeTemporaryExpr", "CXXBindTemporaryExpr", "ParenExpr",
                                                "ExprWithCleanups") and kids(obj):
            obj = kids(obj)[0]
        ctor = None
        if obj is not None and obj["k"] in ("CXXTemporaryObjectExpr", "CXXConstructExpr") and obj.get("callee", {}).get("record") == rec:
            ctor = obj
        elif obj is not None and obj["k"] == "DeclRefExpr":
            vd = [v for v in fn.nodes() if v["k"] == "VarDecl" and v.get("did") == obj["ref"]["id"]]
            if len(vd) == 1:
                init = kids(vd[0])[0] if kids(vd[0]) else None
                while init is not None and init["k"] in ("ExprWithCleanups", "CXXFunctionalCastExpr", "ImplicitCastExpr", "MaterializeTemporaryExpr",
                                                         "CXXBindTemporaryExpr") and kids(init):
                    init = kids(init)[0]
                if init is not None and init["k"] in ("CXXTemporaryObjectExpr", "CXXConstructExpr") and init.get("callee", {}).get("record") == rec:
                    ctor = init
                    if not [a for a in kids(ctor) if a is not None and a["k"] != "DefaultArg"]:
                        procs = [x for x in calls if x.get("member_call") and x["callee"].get("record") == rec and x["callee"]["name"] == "process"
                                 and kids(x) and ref_of(kids(x)[0]) == obj["ref"]["id"]]
                        others = [x for x in calls if x.get("member_call") and x["callee"].get("record") == rec and x is not ms[0] and x not in procs]
                        if len(procs) == 1 and not others and covers(kids(procs[0])[1:]) and procs[0].get("l", 0) <= ms[0].get("l", 0):
                            return "ok", "%s h; h.process(args...); h.%s()" % (rec.split("::")[-1], meth)
                        return "unknown", "object built with the default constructor, its process() calls are not the single call understood"
        if ctor is None:
            return "unknown", "the object %s() is called on is not understood" % meth
        if covers(kids(ctor)):
            return "ok", "%s(args...).%s()" % (rec.split("::")[-1], ms[0]["callee"]["name"])
        return "unknown", "constructor arguments are not the function's parameters in order"
    if not ms:
        sib = [x for x in calls if not x.get("member_call") and x["callee"].get("qname") in ("tlx::%s_hex" % pfx, "tlx::%s_hex_uc" % pfx)]
        if len(sib) == 1 and sib[0]["callee"].get("did") != fn.did:
            if sib[0]["callee"]["qname"] != "tlx::" + free:
                if returned(sib[0]):
                    return "bad", "returns %s()" % sib[0]["callee"]["name"]
                return "unknown", "calls %s() and does something with the result" % sib[0]["callee"]["name"]
            if covers(kids(sib[0])):
                return "ok", "delegates to the other overload of %s with its arguments" % free
            return "unknown", "delegation to another overload with arguments that are not understood"
        return "unknown", "no %s() call found" % meth
    return "unknown", "several digest calls"


# ---------------------------------------------------------------- constants
def primes(n):
    out, c = [], 2
    while len(out) < n:
        if all(c % p for p in out if p * p <= c):
            out.append(c)
        c += 1
    return out


def iroot(x, k):
    lo, hi = 0, 1
    while hi ** k <= x:
        hi *= 2
    while lo < hi:
        mid = (lo + hi + 1) // 2
        if mid ** k <= x:
            lo = mid
        else:
            hi = mid - 1
    return lo


def frac_root_bits(p, k, bits):
    """first `bits` bits of the fractional part of the k-th root of p"""
    r = iroot(p << (k * bits), k)
    return r & ((1 << bits) - 1)


def md5_k():
    decimal.getcontext().prec = 60
    out = []
    two32 = decimal.Decimal(2) ** 32
    for i in range(64):
        x = decimal.Decimal(i + 1)
        # sin by Taylor series after range reduction
        pi = decimal.Decimal("3.14159265358979323846264338327950288419716939937510582097494459")
        x = x % (2 * pi)
        term, s, n = x, x, 1
        while abs(term) > decimal.Decimal(10) ** -50:
            term = -term * x * x / ((2 * n) * (2 * n + 1))
            s += term
            n += 1
        out.append(int(abs(s) * two32))
    return out


class _InitModel:
    B = 64


def state_init(tu, name):
    """the values the default constructor leaves in state_[0 .. words): the constructor (member initialisers and body) is
    executed on the model, whatever form the initialisation has (assignments, a loop over a table, std::copy ...)"""
    words = DIGESTS[name]["words"]
    fns = [f for f in tu.find(qname="tlx::%s::%s" % (name, name)) if not f.params and f.kind == "ctor"]
    if len(fns) != 1 or fns[0].body is None:
        raise ir.AnalysisBroken("%s: default constructor not found" % name)
    fn = fns[0]
    model = _InitModel()
    sk = ClosedSkel(fn, {("field", "state_"): STATE_BASE, ("field", "curlen_"): 0, ("field", "length_"): 0, ("field", "buf_"): 0}, None,
                    lambda e, sk_: memory_event(model, e, sk_, bytewise=False), mem_default=lambda a_: None, max_iter=256)
    for i in fn.inits:
        e = strip_casts(i.get("e"))
        if i.get("field") == "state_" and e is not None:
            if e["k"] != "InitListExpr":
                raise dtable.Undecidable("%s: member initialiser of state_ is not a list of values" % fn.loc)
            for j, x in enumerate(kids(e)):
                sk.env[("mem", STATE_BASE + j)] = sk.ev(x)
        elif i.get("delegating") or i.get("base"):
            raise dtable.Undecidable("%s: the default constructor delegates" % fn.loc)
    try:
        sk.run(kids(fn.body))
    except skel.Return:
        pass
    except skel.Diverges:
        raise dtable.Undecidable("%s: a loop of the constructor does not end in the model" % fn.loc)
    mask = (1 << (8 * DIGESTS[name]["wbytes"])) - 1
    vals = [sk.env.get(("mem", STATE_BASE + i)) for i in range(words)]
    for i, v in enumerate(vals):
        if not isinstance(v, int) or isinstance(v, bool):
            raise dtable.Undecidable("%s: the value the constructor gives state_[%d] is not understood" % (fn.loc, i))
    extra = [k[1] - STATE_BASE for k in sk.env if isinstance(k, tuple) and k[0] == "mem" and isinstance(k[1], int) and STATE_BASE + words <= k[1] < STATE_BASE + 4 * words]
    if extra:
        raise dtable.Undecidable("%s: the constructor writes state_[%d], outside the %d state words" % (fn.loc, min(extra), words))
    return [v & mask for v in vals]


def sha1_round_constants(tu, fn):
    """(constants, attributable): the large constants sha1_compress uses.  attributable: the order of the list is the
    order of the rounds (four consecutive loops with one constant each, or one table of four entries indexed by the
    round); otherwise the list is the set of distinct constants in order of appearance."""
    def big(x):
        c = const_int(x)
        # masks (2^k - 1) and powers of two are not round constants
        return c if x["k"] == "IntegerLiteral" and c is not None and c > 0xFFFF and (c & (c + 1)) != 0 and (c & (c - 1)) != 0 else None
    lits = []
    for x in fn.nodes():
        c = big(x)
        if c is not None and c not in lits:
            lits.append(c)
    if not lits:
        refs = {x["ref"].get("qname") for x in fn.nodes() if x["k"] == "DeclRefExpr" and x["ref"].get("kind") == "global"}
        tabs = [t for t in tu.tables if t["qname"] in refs and len(t["values"]) == 4 and all(v is not None and int(v) > 0xFFFF for v in t["values"])]
        if len(tabs) == 1:
            return [int(v) for v in tabs[0]["values"]], True
        return [], False
    top = [x for x in kids(fn.body) if x is not None and x["k"] in ("ForStmt", "WhileStmt", "DoStmt")]
    per = [[c for c in (big(y) for y in ir.walk(l)) if c is not None] for l in top]
    per = [p_ for p_ in per if p_]
    if len(per) == 4 and all(len(set(p_)) == 1 for p_ in per) and sum(len(set(p_)) for p_ in per) >= len(lits):
        return [p_[0] for p_ in per], True
    return lits, False


def table_vals(tu, suffix):
    ts = [t for t in tu.tables if t["qname"].endswith(suffix)]
    if not ts:
        raise ir.AnalysisBroken("constant table %s not found in %s" % (suffix, tu.src))
    return [None if v is None else int(v) for v in ts[0]["values"]]


def check_constants(ck, tus):
    # SHA-256
    k256 = [frac_root_bits(p, 3, 32) for p in primes(64)]
    iv256 = [frac_root_bits(p, 2, 32) for p in primes(8)]
    k512 = [frac_root_bits(p, 3, 64) for p in primes(80)]
    iv512 = [frac_root_bits(p, 2, 64) for p in primes(8)]
    sha1k = [iroot(x << 60, 2) for x in (2, 3, 5, 10)]
    def sha1_k():
        fn = tus["SHA1"].one(qname="tlx::digest_detail::sha1_compress")
        got1, attributable = sha1_round_constants(tus["SHA1"], fn)
        if got1 != sha1k and not (len(got1) == 4 and (attributable or set(got1) != set(sha1k))):
            # not the four constants, and not a list that can be laid against the four rounds: no evidence either way
            raise dtable.Undecidable("%s: the round constants of sha1_compress were not found in a form that is understood (found %s)"
                                     % (fn.loc, ", ".join("%#x" % c for c in got1) or "none"))
        return got1
    checks = [
        ("SHA256", "K", lambda: table_vals(tus["SHA256"], "::K"), k256, "first 32 bits of the fractional parts of the cube roots of the first 64 primes"),
        ("SHA256", "IV", lambda: state_init(tus["SHA256"], "SHA256"), iv256, "fractional parts of the square roots of the first 8 primes"),
        ("SHA512", "K", lambda: table_vals(tus["SHA512"], "::K"), k512, "first 64 bits of the fractional parts of the cube roots of the first 80 primes"),
        ("SHA512", "IV", lambda: state_init(tus["SHA512"], "SHA512"), iv512, "fractional parts of the square roots of the first 8 primes"),
        ("MD5", "K", lambda: table_vals(tus["MD5"], "::Korder"), md5_k(), "floor(2^32 * |sin(i + 1)|)"),
        ("MD5", "IV", lambda: state_init(tus["MD5"], "MD5"), [0x67452301, 0xefcdab89, 0x98badcfe, 0x10325476], "bytes 01 23 .. ef / fe dc .. 10 little-endian"),
        ("SHA1", "IV", lambda: state_init(tus["SHA1"], "SHA1"), [0x67452301, 0xefcdab89, 0x98badcfe, 0x10325476, 0xc3d2e1f0], "FIPS 180 initial hash value"),
        ("SHA1", "K", sha1_k, sha1k, "floor(2^30 * sqrt(2, 3, 5, 10))"),
    ]

    def one(name, what, getter, want, how):
        got = getter()
        if got == want:
            ck.ok("CONST-TABLES", "%s %s" % (name, what), "%d constants equal %s (recomputed with integer arithmetic)" % (len(want), how))
        else:
            if any(v is None for v in got):
                raise dtable.Undecidable("%s %s: an entry of the table is not a compile-time integer" % (name, what))
            idx = [i for i in range(min(len(got), len(want))) if got[i] != want[i]]
            ck.violation("CONST-TABLES", "tlx::%s" % name, "%s:%s" % (name, what),
                         "%s constant table differs from its definition (%s)%s" % (what, how, (": entry %d is %#x, must be %#x" % (idx[0], got[idx[0]], want[idx[0]])) if idx else ": wrong length %d" % len(got)),
                         DIGESTS[name]["file"])
    for c in checks:
        ck.guarded(lambda c=c: one(*c))
    # MD5 shift / word schedules
    t = tus["MD5"]
    wr = [7, 12, 17, 22] * 4 + [5, 9, 14, 20] * 4 + [4, 11, 16, 23] * 4 + [6, 10, 15, 21] * 4
    ww = [i for i in range(16)] + [(5 * i + 1) % 16 for i in range(16)] + [(3 * i + 5) % 16 for i in range(16)] + [(7 * i) % 16 for i in range(16)]

    def sched(what, suffix, want):
        got = table_vals(t, suffix)
        if any(v is None for v in got):
            raise dtable.Undecidable("MD5 %s: an entry of the table is not a compile-time integer" % what)
        if got == want:
            ck.ok("CONST-TABLES", "MD5 " + what, "64 entries equal RFC 1321")
        else:
            ck.violation("CONST-TABLES", "tlx::MD5", "MD5:" + what.replace(" ", "-"), "MD5 %s differs from RFC 1321" % what, "tlx/digest/md5.cpp")
    ck.guarded(lambda: sched("rotation schedule", "::Rorder", wr))
    ck.guarded(lambda: sched("message word schedule", "::Worder", ww))


# ---------------------------------------------------------------- boolean / rotation functions
TYPE_BITS = {"int": (32, True), "unsigned int": (32, False), "long": (64, True), "unsigned long": (64, False), "long long": (64, True),
             "unsigned long long": (64, False), "short": (16, True), "unsigned short": (16, False), "char": (8, True), "signed char": (8, True),
             "unsigned char": (8, False), "bool": (1, False)}        # bits, signed


def word_eval(tu, fn, args, width, depth=0):
    """evaluate a pure word function (xor/and/or/not/shift/rotate, calls of such functions, straight-line locals and
    ?: / if on known values) on integers; anything else: Undecidable"""
    mask = (1 << width) - 1
    env = {p["did"]: a for p, a in zip(fn.params, args)}
    if fn.body is None or depth > 6:
        raise dtable.Undecidable("%s: word function without a body that can be followed" % fn.loc)

    class Ret(Exception):
        def __init__(self, v):
            self.v = v

    def ev(e):
        e = match.strip_conv(e)
        while e is not None and e["k"] in ("ParenExpr", "ExprWithCleanups", "MaterializeTemporaryExpr", "ConstantExpr") and kids(e):
            e = match.strip_conv(kids(e)[0])
        c = const_int(e)
        if c is not None and e["k"] == "IntegerLiteral":
            return c
        if e["k"] == "DeclRefExpr" and e["ref"]["id"] in env:
            v = env[e["ref"]["id"]]
            if v is None:
                raise dtable.Undecidable("%s: local %s read before it has a value" % (fn.loc, e["ref"]["name"]))
            return v
        if e["k"] == "DeclRefExpr" and c is not None:
            return c
        if e["k"] == "UnaryOperator" and e["op"] in ("~", "-"):
            if TYPE_BITS.get(e.get("ty"), (width,))[0] != width:
                raise dtable.Undecidable("%s: `%s` in type %s inside a %d-bit word function" % (fn.loc, e["op"], e.get("ty"), width))
            v = ev(kids(e)[0])
            return (~v if e["op"] == "~" else -v) & mask
        if e["k"] == "UnaryOperator" and e["op"] == "+":
            return ev(kids(e)[0])
        if e["k"] == "ConditionalOperator" and len(kids(e)) == 3:
            return ev(kids(e)[1]) if ev(kids(e)[0]) else ev(kids(e)[2])
        if e["k"] == "BinaryOperator" and e["op"] == "=" and ref_of(kids(e)[0]) in env:
            v = ev(kids(e)[1])
            env[ref_of(kids(e)[0])] = v
            return v
        if e["k"] == "BinaryOperator" and e["op"] == ",":
            ev(kids(e)[0])
            return ev(kids(e)[1])
        if e["k"] == "CompoundAssignOperator" and ref_of(kids(e)[0]) in env and e["op"][:-1] in ("&", "|", "^", ">>", "<<", "+", "-"):
            v = arith(e["op"][:-1], ev(kids(e)[0]), ev(kids(e)[1]), e.get("ty"))
            env[ref_of(kids(e)[0])] = v
            return v
        b = match.binop(e, ("&", "|", "^", ">>", "<<", "+", "-", "==", "!=", "<", ">", "<=", ">="))
        if b and e["k"] == "BinaryOperator":
            return arith(b[0], ev(b[1]), ev(b[2]), e.get("ty"))
        if "callee" in e and e["k"] == "CallExpr":
            nm = e["callee"]["name"]
            a = [ev(x) for x in kids(e) if x is not None and x["k"] != "DefaultArg"]
            if nm in ("ror32", "ror64", "rol32", "rol64") and len(a) == 2:
                w = 32 if nm.endswith("32") else 64
                k = a[1] % w
                if nm.startswith("rol"):
                    k = (w - k) % w
                return ((a[0] >> k) | (a[0] << (w - k))) & ((1 << w) - 1)
            callee = tu.by_did.get(e["callee"]["did"])
            if callee is not None and callee.body is not None and len(callee.params) == len(a):
                return word_eval(tu, callee, a, width, depth + 1)
        raise dtable.Undecidable("%s: not a pure word expression: %s" % (fn.loc, dtable.describe(e)))

    def arith(op, x, y, ty=None):
        if op in ("+", "-", "<<") and TYPE_BITS.get(ty, (width,))[0] != width:
            raise dtable.Undecidable("%s: `%s` in type %s inside a %d-bit word function" % (fn.loc, op, ty, width))
        if op == "&":
            return x & y
        if op == "|":
            return x | y
        if op == "^":
            return x ^ y
        if op == "+":
            return (x + y) & mask
        if op == "-":
            return (x - y) & mask
        if op in ("==", "!=", "<", ">", "<=", ">="):
            return int({"==": x == y, "!=": x != y, "<": x < y, ">": x > y, "<=": x <= y, ">=": x >= y}[op])
        if y < 0 or y >= width:
            raise dtable.Undecidable("%s: shift by %d in a %d-bit word function" % (fn.loc, y, width))
        return (x >> y) if op == ">>" else (x << y) & mask

    def run(s):
        if s is None or s["k"] == "NullStmt":
            return
        if s["k"] == "CompoundStmt":
            for x in kids(s):
                run(x)
        elif s["k"] == "DeclStmt":
            for v in kids(s):
                if v["k"] != "VarDecl" or (v.get("ty") or "").rstrip().endswith("]"):
                    raise dtable.Undecidable("%s: declaration in a word function that is not understood" % fn.loc)
                if TYPE_BITS.get((v.get("ty") or "").replace("const ", "").strip(), (width,))[0] != width:
                    raise dtable.Undecidable("%s: local of type %s inside a %d-bit word function" % (fn.loc, v.get("ty"), width))
                env[v["did"]] = (ev(kids(v)[0]) & mask) if kids(v) else None
        elif s["k"] == "ReturnStmt":
            raise Ret(ev(kids(s)[0]) if kids(s) else None)
        elif s["k"] == "IfStmt" and not s.get("init") and not s.get("condvar"):
            run(kids(s)[1] if ev(kids(s)[0]) else (kids(s)[2] if len(kids(s)) > 2 else None))
        elif s["k"] in ("BinaryOperator", "CompoundAssignOperator", "ParenExpr", "ExprWithCleanups"):
            ev(s)
        else:
            raise dtable.Undecidable("%s: %s in a word function" % (fn.loc, s["k"]))
    try:
        run(fn.body)
    except Ret as r_:
        if isinstance(r_.v, int):
            return r_.v & mask
    raise dtable.Undecidable("%s: the word function does not return a value that is understood" % fn.loc)


def rot(x, k, w):
    return ((x >> k) | (x << (w - k))) & ((1 << w) - 1)


BOOL3 = {
    "Ch": lambda x, y, z: (x & y) | (~x & z), "Maj": lambda x, y, z: (x & y) | (x & z) | (y & z),
    "F": lambda x, y, z: (x & y) | (~x & z), "G": lambda x, y, z: (x & z) | (y & ~z), "H": lambda x, y, z: x ^ y ^ z, "I": lambda x, y, z: y ^ (x | ~z),
    "F0": lambda x, y, z: (x & y) | (~x & z), "F1": lambda x, y, z: x ^ y ^ z, "F2": lambda x, y, z: (x & y) | (x & z) | (y & z), "F3": lambda x, y, z: x ^ y ^ z,
}
LIN = {
    ("SHA256", "Sigma0"): ((2, 13, 22), None), ("SHA256", "Sigma1"): ((6, 11, 25), None), ("SHA256", "Gamma0"): ((7, 18), 3), ("SHA256", "Gamma1"): ((17, 19), 10),
    ("SHA512", "Sigma0"): ((28, 34, 39), None), ("SHA512", "Sigma1"): ((14, 18, 41), None), ("SHA512", "Gamma0"): ((1, 8), 7), ("SHA512", "Gamma1"): ((19, 61), 6),
}


MIXED = (0x0123456789abcdef, 0xfedcba9876543210, 0xa5a5a5a55a5a5a5a, 0x0f1e2d3c4b5a6978, 0x8000000000000001)


def check_functions(ck, tus):
    def boolfn(name, tu, fnm, w):
        fns = [f for f in tu.functions if f.name == fnm and len(f.params) == 3 and f.record is None and f.body is not None]
        ck.require(len(fns) == 1, "%s: boolean function %s not found" % (name, fnm))
        mask = (1 << w) - 1
        bad = None
        rows = [[(-(bits >> i & 1)) & mask for i in (2, 1, 0)] for bits in range(8)]
        rows += [[MIXED[i] & mask, MIXED[(i + 1) % 5] & mask, MIXED[(i + 2) % 5] & mask] for i in range(5)]
        for n, (x, y, z) in enumerate(rows):
            got = word_eval(tu, fns[0], [x, y, z], w)
            want = BOOL3[fnm](x, y, z) & mask
            if got != want and bad is None:
                bad = "row x,y,z = %s" % ((n >> 2 & 1, n >> 1 & 1, n & 1),) if n < 8 else "x,y,z = %#x, %#x, %#x gives %#x, must be %#x" % (x, y, z, got, want)
        if bad:
            ck.violation("BOOLFN-TABLES", fns[0].qname, "%s:%s" % (name, fnm), "%s %s(x,y,z) has the wrong truth table (%s)" % (name, fnm, bad), fns[0].loc)
        else:
            ck.ok("BOOLFN-TABLES", "%s %s" % (name, fnm), "8-row truth table equals the standard's definition (all bits alike), and 5 mixed words agree")

    def rotfn(name, tu, fnm, w, rots, sh):
        fns = [f for f in tu.functions if f.name == fnm and len(f.params) == 1 and f.record is None and f.body is not None]
        ck.require(len(fns) == 1, "%s: %s not found" % (name, fnm))
        mask = (1 << w) - 1
        bad = None
        for j, x in [(j, 1 << j) for j in range(w)] + [("s of %#x" % (v & mask), v & mask) for v in MIXED] + [("s (none set)", 0)]:
            got = word_eval(tu, fns[0], [x], w)
            want = 0
            for r_ in rots:
                want ^= rot(x, r_, w)
            if sh is not None:
                want ^= x >> sh
            if got != want and bad is None:
                bad = j
        if bad is not None:
            ck.violation("ROT-SETS", fns[0].qname, "%s:%s" % (name, fnm), "%s %s is not ROTR%s%s (differs on input bit %s)" % (name, fnm, list(rots), " ^ SHR%d" % sh if sh else "", bad), fns[0].loc)
        else:
            ck.ok("ROT-SETS", "%s %s" % (name, fnm), "equal to ROTR%s%s on all %d basis inputs, zero and 5 mixed words" % (list(rots), " ^ SHR%d" % sh if sh else "", w))

    for name, tu in tus.items():
        w = 64 if name == "SHA512" else 32
        fam = {"MD5": ("F", "G", "H", "I"), "SHA1": ("F0", "F1", "F2", "F3"), "SHA256": ("Ch", "Maj"), "SHA512": ("Ch", "Maj")}[name]
        for fnm in fam:
            ck.guarded(lambda fnm=fnm: boolfn(name, tu, fnm, w))
        for (dg, fnm), (rots, sh) in LIN.items():
            if dg == name:
                ck.guarded(lambda fnm=fnm, rots=rots, sh=sh: rotfn(name, tu, fnm, w, rots, sh))


# ---------------------------------------------------------------- siphash
def bits_alg(op, a, b, e):
    """values assembled from labelled bytes: ("bits", constant part, frozenset of (shift, label))"""
    def norm(x):
        if isinstance(x, bool):
            return ("bits", int(x), frozenset())
        if isinstance(x, int):
            return ("bits", x, frozenset())
        if isinstance(x, tuple) and x and x[0] == "bits":
            return x
        if isinstance(x, tuple):
            return ("bits", 0, frozenset([(0, x)]))
        return None
    if op == "<<" and isinstance(b, int) and 0 <= b < 64:
        x = norm(a)
        if x is None:
            return None
        return ("bits", (x[1] << b) & (2 ** 64 - 1), frozenset((sh + b, l) for sh, l in x[2] if sh + b < 64))
    if op == "|":
        x, y = norm(a), norm(b)
        if x is None or y is None:
            return None
        # OR is exact whatever overlaps: the value is the constant part OR-ed with every (label << shift) of the set
        return ("bits", x[1] | y[1], x[2] | y[2])
    return None


def value_bits(e, length_did):
    """an upper bound for the number of significant bits of an unsigned expression built from message bytes; None: unknown"""
    e0 = e
    e = strip_casts(e)
    while e is not None and e["k"] == "ParenExpr" and kids(e):
        e = strip_casts(kids(e)[0])
    if e is None:
        return None
    c = const_int(e)
    if c is not None and c >= 0:
        return c.bit_length()
    tb = TYPE_BITS.get((e.get("ty") or "").replace("const ", "").strip())
    if e["k"] in ("ArraySubscriptExpr",) or (e["k"] == "UnaryOperator" and e.get("op") == "*"):
        return tb[0] if tb and not tb[1] else None
    if e["k"] == "BinaryOperator":
        op = e.get("op")
        l, r = value_bits(kids(e)[0], length_did), value_bits(kids(e)[1], length_did)
        if op == "&":
            return min(x for x in (l, r) if x is not None) if (l is not None or r is not None) else None
        if op in ("|", "^"):
            return max(l, r) if l is not None and r is not None else None
        if op == "<<":
            sh = const_int(kids(e)[1])
            return l + sh if l is not None and sh is not None else None
        if op == ">>":
            sh = const_int(kids(e)[1])
            return max(l - sh, 0) if l is not None and sh is not None else None
        if op == "+":
            return max(l, r) + 1 if l is not None and r is not None else None
        return None
    if e["k"] == "DeclRefExpr":
        return tb[0] if tb and not tb[1] else None
    return None


def check_siphash(ck):
    """SIP-TAIL: for every message length 0..16 the final word is (len & 0xff) << 56 OR byte j of the tail << 8j (evaluated
    on the function's integer skeleton with labelled message bytes, whatever the control structure); every shift of a
    message byte is done in a 64-bit unsigned type."""
    tu = ir.extract("witness/C14_siphash.cpp")
    M_BASE = 1000
    for name in ("siphash_plain", "siphash_sse2"):
        fn = tu.one(qname="tlx::" + name)
        m, length = fn.params[1]["did"], fn.params[2]["did"]
        bad = []
        finals = {}
        for n in range(0, 17):
            sk = skel.Skel(fn, {m: M_BASE, length: n, fn.params[0]["did"]: 5000}, None, None,
                           mem_default=lambda a_, n=n: ("M", a_ - M_BASE) if M_BASE <= a_ < M_BASE + n else (("OOB", a_ - M_BASE) if 0 <= a_ - M_BASE < 64 else None),
                           max_iter=64)
            sk.alg = bits_alg
            try:
                sk.run(kids(fn.body))
            except skel.Return:
                pass
            except (skel.Diverges, TypeError) as t:
                raise dtable.Undecidable("%s: the skeleton of the function could not be evaluated for a message of %d bytes (%s)" % (fn.loc, n, type(t).__name__))
            finals[n] = sk.env
        locals_ = [v for v in fn.nodes() if v["k"] == "VarDecl" and v.get("did") is not None and v["did"] not in (m, length)]

        def hi(v):
            return (v[1] if isinstance(v, tuple) and v and v[0] == "bits" else v if isinstance(v, int) and not isinstance(v, bool) else -1) >> 56

        def val(n, v):
            got = finals[n].get(v["did"])
            if isinstance(got, int) and not isinstance(got, bool):
                got = ("bits", got, frozenset())
            return got

        def want_for(n):
            blocks = n & ~7
            return ("bits", (n & 255) << 56, frozenset((8 * j, ("M", blocks + j)) for j in range(n - blocks)))

        def show(v):
            if not (isinstance(v, tuple) and v and v[0] == "bits"):
                return "not a combination of message bytes"
            return "length byte %#x, " % (v[1] >> 56) + ("bytes " + ", ".join("m[%s] << %d" % (l[1], sh) for sh, l in sorted(v[2])) if v[2] else "no bytes")

        def first_wrong(v):
            return next((n for n in range(0, 17) if val(n, v) != want_for(n)), None)

        def partial(v):
            """never a wrong byte, only bytes / the length still missing: an intermediate of the assembly"""
            for n in range(0, 17):
                g, w = val(n, v), want_for(n)
                if not (isinstance(g, tuple) and g and g[0] == "bits" and g[2] <= w[2] and (g[1] | w[1]) == w[1]):
                    return False
            return True
        # the final word: a local that carries the length byte in bits 56.. for every length; failing that, the only local
        # that is assembled from message bytes of the tail
        cand = [v for v in locals_ if all(hi(finals[n].get(v["did"])) == (n & 255) for n in range(1, 17))]
        if not cand:
            cand = [v for v in locals_ if all(isinstance(val(n, v), tuple) and val(n, v)[0] == "bits" and val(n, v)[2] and
                                              all(isinstance(l, tuple) and l[0] in ("M", "OOB") for _, l in val(n, v)[2]) for n in range(1, 17) if n & 7)]
            ck.require(len(cand) == 1, "%s: the final word (length byte << 56 | tail bytes) not found among the locals" % fn.loc)
        good = [v for v in cand if first_wrong(v) is None]
        wrong = [v for v in cand if first_wrong(v) is not None and not partial(v)]
        if not good and len(cand) == 1:
            n = first_wrong(cand[0])
            bad.append(("tail%d" % (n & 7), "for a message of %d bytes the final word is {%s}; SipHash needs {%s}" % (n, show(val(n, cand[0])), show(want_for(n))), cand[0]))
        elif not good or wrong:
            # several words carry the length byte and none / not all of them is the word SipHash needs: which one is hashed is dataflow
            raise dtable.Undecidable("%s: %d locals carry the length byte, the one that is hashed could not be told apart" % (fn.loc, len(cand)))
        for y in fn.nodes():
            if y["k"] in ("BinaryOperator", "CompoundAssignOperator") and y.get("op") in ("<<", "<<="):
                lhs = kids(y)[0]
                from_bytes = any((z["k"] == "ArraySubscriptExpr" and "char" in (strip_casts(kids(z)[0]).get("ty") or "")) or
                                 (z["k"] == "UnaryOperator" and z.get("op") == "*" and "char" in (strip_casts(kids(z)[0]).get("ty") or "")) or
                                 (z["k"] == "DeclRefExpr" and z["ref"]["id"] == length) for z in ir.walk(lhs))
                if not from_bytes:
                    continue
                tb = TYPE_BITS.get((y.get("ty") or "").replace("const ", "").strip())
                if tb is None:
                    raise dtable.Undecidable("%s: a message byte / the length is shifted in a type that is not understood (`%s`)" % (fn.nloc(y), y.get("ty")))
                if tb[0] >= 64 and not tb[1]:
                    continue
                sh = const_int(kids(y)[1])
                need = value_bits(lhs, length)
                if sh is None or need is None:
                    raise dtable.Undecidable("%s: a message byte / the length is shifted in `%s` by an amount / from a value that is not a compile-time fact"
                                             % (fn.nloc(y), y.get("ty")))
                room = tb[0] - (1 if tb[1] else 0)
                if need + sh > room:
                    bad.append(("shift-width", "a message byte / the length is shifted in type `%s`: a %d-bit value shifted by %d does not fit the %d value bits of that "
                                "type; bytes >= 0x80 sign-extend into the upper half (or bits are lost)" % (y.get("ty"), need, sh, room), y))
        for sig, msg, node in bad[:4]:
            ck.violation("SIP-TAIL", fn.qname, "%s:%s" % (name, sig), msg, fn.nloc(node))
        if not bad:
            ck.ok("SIP-TAIL", name, "lengths 0..16: final word == (len & 0xff) << 56 | tail byte j << 8j; byte shifts in 64-bit unsigned arithmetic")
    check_simd_alignment(ck, tu)


ALIGNED_SIMD = {"_mm_load_si128": 16, "_mm_store_si128": 16, "_mm_load_pd": 16, "_mm_load_ps": 16, "_mm_store_pd": 16, "_mm_store_ps": 16,
                "_mm_stream_si128": 16, "_mm256_load_si256": 32, "_mm256_store_si256": 32}


def check_simd_alignment(ck, tu):
    """key and message are plain byte pointers of unknown alignment: an aligned vector load/store through a
    pointer derived from a parameter faults for a caller whose buffer is not 16-byte aligned"""
    n = 0
    for fn in tu.functions:
        if fn.body is None or not fn.qname.startswith("tlx::siphash"):
            continue
        pids = {p["did"] for p in fn.params if "*" in (p.get("ty") or "")}
        # locals that alias a parameter pointer
        changed = True
        while changed:
            changed = False
            for v in fn.nodes():
                if v["k"] == "VarDecl" and v.get("did") not in pids and "*" in (v.get("ty") or "") and kids(v) and \
                        any(x["k"] == "DeclRefExpr" and x["ref"]["id"] in pids for x in ir.walk(kids(v)[0])):
                    pids.add(v["did"])
                    changed = True
                b = match.binop(v, ("=",)) if v["k"] == "BinaryOperator" else None
                if b and ref_of(b[1]) is not None and ref_of(b[1]) not in pids and "*" in (strip_casts(b[1]).get("ty") or "") and \
                        any(x["k"] == "DeclRefExpr" and x["ref"]["id"] in pids for x in ir.walk(b[2])):
                    pids.add(ref_of(b[1]))
                    changed = True
        # a function that looks at the numeric value of such a pointer may select the aligned access for aligned callers only
        tests_alignment = any(x.get("cast") == "PointerToIntegral" and any(y["k"] == "DeclRefExpr" and y["ref"]["id"] in pids for y in ir.walk(x))
                              for x in fn.nodes())
        for z in fn.nodes():
            if "callee" not in z:
                continue
            nm = z["callee"]["name"]
            if not (nm.startswith("_mm") and ("load" in nm or "store" in nm or "stream" in nm)):
                continue
            n += 1
            addr = kids(z)[0] if kids(z) else None
            from_param = addr is not None and any(x["k"] == "DeclRefExpr" and x["ref"]["id"] in pids for x in ir.walk(addr))
            if nm in ALIGNED_SIMD and from_param and tests_alignment:
                raise dtable.Undecidable("%s: %s() through a parameter pointer in a function that inspects the pointer's value: whether the "
                                         "aligned access is guarded is not decided" % (fn.nloc(z), nm))
            if nm in ALIGNED_SIMD and from_param:
                ck.violation("SIMD-ALIGNMENT", fn.qname, "%s:%s" % (fn.name, nm),
                             "%s() requires a %d-byte aligned address but reads through %s, which comes from a byte-pointer parameter of arbitrary "
                             "alignment (SIGSEGV for a key or message that is not aligned)" % (nm, ALIGNED_SIMD[nm], dtable.describe(addr)[:60]), fn.nloc(z))
            else:
                ck.ok("SIMD-ALIGNMENT", "%s %s" % (fn.name, nm), "unaligned-safe access" if from_param else "address is not caller memory",
                      nontrivial=False)
    return n


def run(ck):
    ck.explanation = (
        "The compression functions are covered by the suite's vectors; the chunking/padding skeleton is decided by evaluation on a byte model: "
        "process() for 32 (buffer fill, input size) cases and finalize() for every buffer fill, with labelled bytes; the compression calls are "
        "observed (which bytes, in which order), everything else (copy loops, std::copy/fill/memcpy, store helpers, private helpers) is executed. "
        "A violation is always one concrete case of that evaluation; a statement the evaluation does not understand ends it with `cannot decide`. "
        "Constant tables are recomputed from their defining formulas with integer arithmetic (the IV from the executed constructor); boolean "
        "functions by truth table plus mixed words; Sigma/Gamma functions on all basis vectors plus mixed words. Hex front ends: finalize / hexdump "
        "counts on every path. SipHash: final word for lengths 0..16 from the integer skeleton, shifts of message bytes must fit their type, no "
        "aligned vector access through the caller's byte pointers (SIMD-ALIGNMENT). Not decided: the compression dataflow itself and SSE2 == "
        "portable beyond the tail.")
    tus = {}
    for name, info in DIGESTS.items():
        tu = ir.extract(info["file"])
        tus[name] = tu
        # each rule on its own: one that cannot decide does not hide what another one establishes
        ck.guarded(lambda: check_process(ck, tu, name, info))
        ck.guarded(lambda: check_finalize(ck, tu, name, info))
        ck.guarded(lambda: check_frontends(ck, tu, name, info))
    ck.guarded(lambda: check_constants(ck, tus))
    ck.guarded(lambda: check_functions(ck, tus))
    ck.guarded(lambda: check_siphash(ck))
    ck.floor("SIMD-ALIGNMENT", 2)
    ck.floor("PROCESS-CONSERVE", 4)
    ck.floor("PROCESS-STREAM", 4)
    ck.floor("FINAL-THRESHOLDS", 4)
    ck.floor("HEX-FRONTENDS", 16)
    ck.floor("CONST-TABLES", 10)
    ck.floor("BOOLFN-TABLES", 12)
    ck.floor("ROT-SETS", 8)
    ck.floor("SIP-TAIL", 2)
